"""Reference quasi-quote evaluator for the syntax-quote half of C09.

A template is a JSON-able tree (what is written after the backquote):

    ["sym", text]              a symbol as written: `vector`, `loc`, `al/x`, `if`, `zzz`, `basilisp.core/first`, `&`
    ["gs", base]               the auto-gensym  base#
    ["uq", ["param", i]]       ~u_i          (u_i is a parameter of the function the template is compiled in)
    ["uq", ["qsym", text]]     ~'text        (the idiom that puts an unqualified symbol into a template)
    ["uq", ["inner", base]]    ~(first `(base#))    a nested template with its own gensym environment
    ["splice", i]              ~@s_i
    ["const", text]            a self-evaluating literal: 7, :k, "s", nil, true
    ["list" | "vec" | "set" | "map", [element, ...]]      (map: alternating keys and values as written)

A namespace state is described by a plain dict (the *model* of the namespace in which the template is written):
    {"name": ns name, "interned": [names], "refers": {name: home ns}, "aliases": {alias: ns name}, "core": [names referred from core]}

`expect(template, state, params, splices)` gives the form the property demands:
    ("sym", ns, name) | ("gensym", tag) | ("obj", python object: identity demanded) | ("const", value)
    | ("list", [..], literal_empty) | ("vec", [..]) | ("set", [..]) | ("map", [[k, v] pairs ... one list per admissible entry order])
"""
from __future__ import annotations

import itertools

SPECIAL = {
    "await", "catch", "def", "deftype*", "do", "finally", "fn*", "if", "import*", ".", ".-", "let*", "letfn*", "loop*", "quote",
    "recur", "reify*", "require*", "set!", "throw", "try", "var", "yield",
}  # fmt: skip


class SpliceError(Exception):
    """The template cannot be expanded with these values (e.g. odd number of forms in a map): an error is demanded."""


def render(t):
    k = t[0]
    if k == "sym":
        return t[1]
    if k == "gs":
        return t[1] + "#"
    if k == "uq":
        e = t[1]
        if e[0] == "param":
            return f"~u{e[1]}"
        if e[0] == "qsym":
            return f"~'{e[1]}"
        if e[0] == "inner":
            return f"~(first `({e[1]}#))"
        raise KeyError(e[0])
    if k == "splice":
        return f"~@s{t[1]}"
    if k == "const":
        return t[1]
    inner = " ".join(render(x) for x in t[1])
    return {"list": "(%s)", "vec": "[%s]", "set": "#{%s}", "map": "{%s}"}[k] % inner


def depth(t):
    if t[0] in ("list", "vec", "set", "map"):
        return 1 + max([depth(x) for x in t[1]], default=0)
    return 0


def split_sym(text):
    if "/" in text and text != "/":
        ns, name = text.split("/", 1)
        return ns, name
    return None, text


def resolve(text, state):
    """First sentence of the property: an unqualified symbol resolves to the Var it denotes in the namespace where the
    template is written, or is qualified with that namespace; special forms (not Vars) and `&` stay as written; a symbol
    written with an alias is qualified with the aliased namespace; an otherwise qualified symbol stays as written."""
    ns, name = split_sym(text)
    if ns is None:
        if name in SPECIAL or name == "&":
            return (None, name)
        if name in state["interned"]:
            return (state["name"], name)
        if name in state["refers"]:
            home = state["refers"][name]
            if isinstance(home, (tuple, list)):  # referred under another name (refer ... :rename): denotes the Var's own name
                return (home[0], home[1])
            return (home, name)
        if name in state["core"]:
            return ("basilisp.core", name)
        return (state["name"], name)
    if ns in state["aliases"]:
        return (state["aliases"][ns], name)
    return (ns, name)


CONSTS = {"7": 7, ":k": ("kw", "k"), '"s"': "s", "nil": None, "true": True}


def const_value(text):
    v = CONSTS[text]
    if isinstance(v, tuple):
        from basilisp.lang import keyword as kw

        return kw.keyword(v[1])
    return v


def expect(t, state, params, splices, counter=None):
    """The form the template must evaluate to (see module docstring)."""
    counter = counter if counter is not None else [0]
    k = t[0]
    if k == "sym":
        ns, name = resolve(t[1], state)
        return ("sym", ns, name)
    if k == "gs":
        return ("gensym", t[1])
    if k == "uq":
        e = t[1]
        if e[0] == "param":
            return ("obj", params[e[1]])
        if e[0] == "qsym":
            ns, name = split_sym(e[1])
            return ("sym", ns, name)
        counter[0] += 1
        return ("gensym", f"inner{counter[0]}:{e[1]}")
    if k == "const":
        return ("const", const_value(t[1]))
    if k == "splice":
        raise SpliceError("splice outside a collection")
    elems = []
    for x in t[1]:
        if x[0] == "splice":
            s = splices[x[1]]
            elems += [("obj", y) for y in (s if s is not None else [])]
        else:
            elems.append(expect(x, state, params, splices, counter))
    if k == "list":
        return ("list", elems, len(t[1]) == 0)
    if k == "vec":
        return ("vec", elems)
    if k == "set":
        return ("set", elems)
    # map: the written entries may be flattened in any order (a map literal has no order); a splice belongs to the entry it
    # was written in, so every permutation of the written entries is an admissible flattening
    written = t[1]
    entries = [(written[i], written[i + 1]) for i in range(0, len(written), 2)]
    flats = []
    for perm in itertools.permutations(range(len(entries))):
        flat = []
        for j in perm:
            for x in entries[j]:
                if x[0] == "splice":
                    s = splices[x[1]]
                    flat += [("obj", y) for y in (s if s is not None else [])]
                else:
                    flat.append(expect(x, state, params, splices, [0]))
        flats.append(flat)
    if any(len(f) % 2 for f in flats):
        raise SpliceError("odd number of forms in a map")
    return ("map", flats)


# --------------------------------------------------------------------------- comparing the real form with the expectation


def match(real, exp):
    """The gensym assignment {tag: symbol name} under which `real` is the form `exp` describes, or None.

    One symbol per tag, different tags -> different symbols; the search backtracks over the member order of sets and maps,
    so the answer does not depend on iteration order."""
    for g in _m(real, exp, {}):
        return g
    return None


def _m(real, exp, g):
    from basilisp.lang import symbol as sym
    from basilisp.lang.interfaces import IPersistentMap, IPersistentSet, IPersistentVector, ISeq

    k = exp[0]
    if k == "sym":
        if isinstance(real, sym.Symbol) and real.ns == exp[1] and real.name == exp[2]:
            yield g
    elif k == "gensym":
        if isinstance(real, sym.Symbol) and real.ns is None:
            tag = exp[1]
            if tag in g:
                if g[tag] == real.name:
                    yield g
            elif real.name not in g.values():
                yield {**g, tag: real.name}
    elif k == "obj":
        if real is exp[1]:
            yield g
    elif k == "const":
        if type(real) is type(exp[1]) and real == exp[1]:
            yield g
    elif k == "list":
        elems = exp[1]
        if not elems:
            empty = real is not None and isinstance(real, ISeq) and len(list(real)) == 0
            # a literally empty list is a list; a list whose elements all vanished through empty splices may also be nil
            # (Clojure gives nil there; the property fixes only the inserted elements)
            if empty or (real is None and not exp[2]):
                yield g
        elif real is not None and isinstance(real, ISeq):
            yield from _ordered(list(real), elems, g)
    elif k == "vec":
        if isinstance(real, IPersistentVector):
            yield from _ordered(list(real), exp[1], g)
    elif k == "set":
        if isinstance(real, IPersistentSet):
            # a list emptied by splices may be nil and then coincides with a nil member
            alts = [exp[1]]
            if any(e[0] == "list" and not e[1] and not e[2] for e in exp[1]):
                alts.append([("const", None) if (e[0] == "list" and not e[1] and not e[2]) else e for e in exp[1]])
            for a in alts:
                yield from _unordered(list(real), _dedup(a), g)
    elif k == "map":
        if isinstance(real, IPersistentMap):
            items = [("pair", kx, vx) for kx, vx in real.items()]
            for flat in exp[1]:
                pairs = {}
                for i in range(0, len(flat), 2):
                    pairs[_ekey(flat[i])] = ("pairexp", flat[i], flat[i + 1])  # later entries win, as with hash-map
                yield from _unordered(items, list(pairs.values()), g)
    else:
        raise KeyError(k)


def _ordered(items, exps, g):
    if len(items) != len(exps):
        return
    if not exps:
        yield g
        return
    for g2 in _m(items[0], exps[0], g):
        yield from _ordered(items[1:], exps[1:], g2)


def _unordered(items, exps, g):
    if len(items) != len(exps):
        return
    if not exps:
        yield g
        return
    first, rest = exps[0], exps[1:]
    for i, it in enumerate(items):
        if first[0] == "pairexp":
            gs = (g3 for g2 in _m(it[1], first[1], g) for g3 in _m(it[2], first[2], g2))
        else:
            gs = _m(it, first, g)
        for g2 in gs:
            yield from _unordered(items[:i] + items[i + 1 :], rest, g2)


def _ekey(e):
    if e[0] == "obj":
        return ("obj", id(e[1])) if not isinstance(e[1], (int, str, type(None))) else ("objv", type(e[1]).__name__, e[1])
    if e[0] == "const":
        return ("objv", type(e[1]).__name__, e[1]) if isinstance(e[1], (int, str, type(None))) and not isinstance(e[1], bool) else ("c", repr(e[1]))
    return ("x", repr(e))


def _dedup(elems):
    seen, out = set(), []
    for e in elems:
        k = _ekey(e)
        if k not in seen:
            seen.add(k)
            out.append(e)
    return out


# --------------------------------------------------------------------------- evaluating the expected form (hygiene check)


class NotEvaluable(Exception):
    pass


def evaluate(exp, lookup):
    """Value of the expected form as code, for the fragment: self-evaluating constants, qualified symbols naming Vars
    (`lookup(ns, name)` -> value or raises NotEvaluable), calls of such functions, `(if c t e)`, collection literals."""
    from basilisp.lang import list as llist, map as lmap, set as lset, vector as vec

    k = exp[0]
    if k == "sym":
        if exp[1] is None:
            raise NotEvaluable("unqualified symbol")
        return lookup(exp[1], exp[2])
    if k == "gensym":
        raise NotEvaluable("gensym")
    if k in ("obj", "const"):
        v = exp[1]
        if v is None or isinstance(v, (bool, int, str)) or type(v).__name__ == "Keyword":
            return v
        raise NotEvaluable("not self-evaluating")
    if k == "list":
        elems = exp[1]
        if not elems:
            if exp[2]:
                return llist.EMPTY
            raise NotEvaluable("empty by splice")
        head = elems[0]
        if head == ("sym", None, "if"):
            if len(elems) not in (3, 4):
                raise NotEvaluable("malformed if")
            c = evaluate(elems[1], lookup)
            taken = 2 if (c is not None and c is not False) else 3
            for i in range(2, len(elems)):
                if i != taken:
                    # the branch not taken is compiled too: it must be evaluable code, its value and errors do not matter
                    try:
                        evaluate(elems[i], lookup)
                    except NotEvaluable:
                        raise
                    except Exception:  # noqa
                        pass
            return evaluate(elems[taken], lookup) if taken < len(elems) else None
        if head[0] != "sym":
            raise NotEvaluable("head is not a symbol")
        f = evaluate(head, lookup)
        if not callable(f) or type(f).__name__ == "Keyword":
            raise NotEvaluable("head is not a function")
        return f(*[evaluate(e, lookup) for e in elems[1:]])
    if k == "vec":
        return vec.vector([evaluate(e, lookup) for e in exp[1]])
    if k == "set":
        vals = [evaluate(e, lookup) for e in exp[1]]
        if len(lset.set(vals)) != len(vals):
            raise NotEvaluable("duplicate set members")
        return lset.set(vals)
    if k == "map":
        if len({tuple(sorted(repr((_ekey(f[i]), _ekey(f[i + 1]))) for i in range(0, len(f), 2))) for f in exp[1]}) > 1:
            raise NotEvaluable("entry order matters")
        flat = exp[1][0]
        ks = [evaluate(flat[i], lookup) for i in range(0, len(flat), 2)]
        vs = [evaluate(flat[i], lookup) for i in range(1, len(flat), 2)]
        if len(lset.set(ks)) != len(ks):
            raise NotEvaluable("duplicate keys")
        return lmap.map(dict(zip(ks, vs)))
    raise KeyError(k)
