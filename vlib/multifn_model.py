"""Reference model for C18 (multimethods and hierarchies).  Plain Python, no basilisp.

Tags are strings: keywords "k0".."k4", classes "A" "B" "C" (B subclasses A, C subclasses B, A subclasses
"object"), the default dispatch value "default"; a vector of two tags is a 2-tuple of strings.

A hierarchy is a frozenset of (tag, parent) edges created by derive.  A multimethod state is
    (methods: frozenset of keys, prefs: frozenset of (x, y) pairs, edges, cache: frozenset, snap)
where `cache`/`snap` exist only to tell histories apart that differ in what has been called (the
canonical-state key of the search); they never influence the reference answer.

Operations (tuples):  ("dm", k) defmethod · ("rm", k) remove-method · ("ra",) remove-all-methods ·
("pf", x, y) prefer-method · ("dv", t, p) derive · ("ud", t, p) underive · ("call", d)
"""
from __future__ import annotations

import itertools
from functools import lru_cache

CLASS_BASES = {"A": ("object",), "B": ("A",), "C": ("B",), "object": ()}
DEFAULT = "default"


def is_class(t):
    return t in CLASS_BASES


def is_vec(t):
    return isinstance(t, tuple)


# ----------------------------------------------------------------------------- hierarchy


def parents_of(edges, t):
    """Direct parents: derive edges plus the direct base classes of a class."""
    ps = {p for (c, p) in edges if c == t}
    if is_class(t):
        ps.update(CLASS_BASES[t])
    return ps


@lru_cache(maxsize=200000)
def _closure(edges):
    tags = set(CLASS_BASES)
    for c, p in edges:
        tags.add(c)
        tags.add(p)
    anc = {}
    for t in tags:
        seen = set()
        todo = list(parents_of(edges, t))
        while todo:
            x = todo.pop()
            if x in seen:
                continue
            seen.add(x)
            todo.extend(parents_of(edges, x))
        anc[t] = frozenset(seen)
    return anc


def ancestors_of(edges, t):
    """Transitive closure of parents_of (class inheritance included)."""
    return _closure(edges).get(t, frozenset())


@lru_cache(maxsize=200000)
def _derive_closure(edges):
    """Ancestors reachable through derive edges only (what `descendants` is documented to invert)."""
    anc = {}
    tags = {c for c, _ in edges} | {p for _, p in edges}
    for t in tags:
        seen = set()
        todo = [p for (c, p) in edges if c == t]
        while todo:
            x = todo.pop()
            if x in seen:
                continue
            seen.add(x)
            todo.extend(p for (c, p) in edges if c == x)
        anc[t] = frozenset(seen)
    return anc


def descendants_required(edges, t):
    """Tags that reach `t` through derive edges only: these must be reported by `descendants`."""
    return frozenset(x for x, a in _derive_closure(edges).items() if t in a)


def descendants_allowed(edges, t):
    """Upper bound: everything that has `t` as an ancestor when class inheritance is followed too."""
    return frozenset(x for x, a in _closure(edges).items() if t in a)


def isa(edges, x, y):
    if x == y:
        return True
    if is_vec(x) or is_vec(y):
        if is_vec(x) and is_vec(y) and len(x) == len(y):
            return all(isa(edges, a, b) for a, b in zip(x, y))
        return False
    return y in ancestors_of(edges, x)


def derive_must_raise(edges, t, p):
    """derive is rejected when it would make the hierarchy cyclic (or relates a tag to itself)."""
    return t == p or t in ancestors_of(edges, p)


def derive(edges, t, p):
    if derive_must_raise(edges, t, p):
        raise ValueError("cyclic")
    return edges | {(t, p)}


def underive(edges, t, p):
    return edges - {(t, p)}


# ----------------------------------------------------------------------------- resolution


def _resolve_with(dom, methods, cands):
    if not cands:
        return ("ok", DEFAULT) if DEFAULT in methods else ("err", "no-method")
    winners = [x for x in cands if all(dom(x, y) for y in cands if y != x)]
    if len(winners) == 1:
        return ("ok", winners[0])
    return ("err", "ambiguous")


def resolve(methods, prefs, edges, d):
    """From-scratch reference resolution.

    Returns (acceptable, contradicted): `acceptable` is the set of outcomes the property allows,
    each ("ok", key) or ("err", reason).  It has exactly one element unless the declared preferences
    contradict isa? among the candidates (`contradicted`): prefer-method x y declared although y isa x.
    The property does not say which of the two wins there, so each consistent reading is accepted
    (and the caller separately demands that isomorphic problems get isomorphic answers):
      (i)   x precedes y iff isa(x,y) or declared(x,y); unique candidate preceding all others, else error
      (iii) isa first: a declared preference only counts between isa-incomparable candidates
      (iv)  declaration first: isa only counts where no preference is declared the other way
    """
    cands = [k for k in methods if isa(edges, d, k)]

    def i_(x, y):
        return isa(edges, x, y)

    def p_(x, y):
        return (x, y) in prefs

    contradicted = any(p_(x, y) and i_(y, x) for x in cands for y in cands if x != y)
    r1 = _resolve_with(lambda x, y: i_(x, y) or p_(x, y), methods, cands)
    if not contradicted:
        return {r1}, False
    r3 = _resolve_with(lambda x, y: i_(x, y) or (p_(x, y) and not i_(y, x)), methods, cands)
    r4 = _resolve_with(lambda x, y: p_(x, y) or (i_(x, y) and not p_(y, x)), methods, cands)
    return {r1, r3, r4}, True


def resolve_strict(methods, prefs, edges, d):
    """Reading (i) only (used for reporting what the plain reference says)."""
    cands = [k for k in methods if isa(edges, d, k)]
    return _resolve_with(lambda x, y: isa(edges, x, y) or (x, y) in prefs, methods, cands)


# ----------------------------------------------------------------------------- search state

EMPTY_STATE = (frozenset(), frozenset(), frozenset(), frozenset(), None)


def step(state, op, outcome=None):
    """Model transition.  Returns (new_state, must_raise).

    `cache` = dispatch values that were called, got a method, and were not invalidated since;
    `snap`  = the hierarchy the cache was filled under when the hierarchy has changed since (else None).
    For a call the resolved outcome may be passed in (`outcome`), otherwise reading (i) is used.
    """
    methods, prefs, edges, cache, snap = state
    kind = op[0]
    if kind == "dm":
        return (methods | {op[1]}, prefs, edges, frozenset(), None), False
    if kind == "rm":
        return (methods - {op[1]}, prefs, edges, frozenset(), None), False
    if kind == "ra":
        return (frozenset(), prefs, edges, frozenset(), None), False
    if kind == "pf":
        x, y = op[1], op[2]
        if (y, x) in prefs:
            return state, True
        return (methods, prefs | {(x, y)}, edges, frozenset(), None), False
    if kind == "dv":
        t, p = op[1], op[2]
        if derive_must_raise(edges, t, p):
            return state, True
        new = edges | {(t, p)}
        return _hier_changed(methods, prefs, edges, new, cache, snap), False
    if kind == "ud":
        new = edges - {(op[1], op[2])}
        return _hier_changed(methods, prefs, edges, new, cache, snap), False
    if kind == "call":
        d = op[1]
        if snap is not None:
            cache, snap = frozenset(), None
        if outcome is None:
            outcome = resolve_strict(methods, prefs, edges, d)
        if outcome[0] == "ok" and d not in methods:
            cache = cache | {d}
        return (methods, prefs, edges, cache, snap), outcome[0] == "err"
    raise ValueError(op)


def _hier_changed(methods, prefs, old, new, cache, snap):
    if new == old:
        return (methods, prefs, old, cache, snap)
    if not cache and snap is None:
        # nothing cached: a stale snapshot cannot matter
        return (methods, prefs, new, cache, None)
    base = old if snap is None else snap
    return (methods, prefs, new, cache, None if base == new else base)


# ----------------------------------------------------------------------------- relabelling


def relabel_tag(t, m):
    if is_vec(t):
        return tuple(m.get(x, x) for x in t)
    return m.get(t, t)


def canon_problem(methods, prefs, edges, d, kws):
    """Canonical form of a resolution problem under every permutation of the keyword names `kws`.
    Returns (key, [maps achieving it])."""
    return _canon_problem(methods, prefs, edges, d, tuple(kws))


@lru_cache(maxsize=100000)
def _canon_problem(methods, prefs, edges, d, kws):
    best = None
    maps = []
    for perm in itertools.permutations(kws):
        m = dict(zip(kws, perm))
        key = (
            tuple(sorted(repr(relabel_tag(k, m)) for k in methods)),
            tuple(sorted(repr((relabel_tag(x, m), relabel_tag(y, m))) for x, y in prefs)),
            tuple(sorted(repr((relabel_tag(x, m), relabel_tag(y, m))) for x, y in edges)),
            repr(relabel_tag(d, m)),
        )
        if best is None or key < best:
            best, maps = key, [m]
        elif key == best:
            maps.append(m)
    return best, maps


def canon_outcome(outcome, maps):
    """The outcome expressed in the canonical labelling (minimum over the tied maps)."""
    if outcome[0] != "ok":
        return ("err",)
    return min(("ok", repr(relabel_tag(outcome[1], m))) for m in maps)
