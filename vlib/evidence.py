"""Evidence + replay-artefact writers and the known-findings matcher."""
from __future__ import annotations

import json
import os
import re
import time
from pathlib import Path

VERIF = Path(__file__).resolve().parent.parent
# VERIF_OUT=<dir>: write evidence/ and replays/ there instead of /verif (used when a check is pointed, with VERIF_REPO, at a
# scratch tree carrying a deliberately broken change, so that the committed evidence of the real tree is left alone)
OUT = Path(os.environ["VERIF_OUT"]).resolve() if os.environ.get("VERIF_OUT") else VERIF


def _jsonable(x, depth=0):
    if depth > 8:
        return repr(x)
    if x is None or isinstance(x, (bool, int, str)):
        return x
    if isinstance(x, float):
        if x != x or x in (float("inf"), float("-inf")):
            return repr(x)
        return x
    if isinstance(x, dict):
        return {str(k): _jsonable(v, depth + 1) for k, v in x.items()}
    if isinstance(x, (list, tuple, set, frozenset)):
        return [_jsonable(v, depth + 1) for v in x]
    return repr(x)


class Result:
    """Accumulates what one check run covered.  Mergeable across worker shards."""

    def __init__(self):
        self.evaluations = 0  # cases executed on the implementation
        self.transitions = 0  # operations / scheduler steps executed on the implementation
        self.distinct = set()  # hashes/keys of distinct non-trivial cases (or states)
        self.distinct_count = 0  # used when the set would be too large to ship; added to len(distinct)
        self.outcomes = set()  # distinct observed outcomes (vacuity guard)
        self.outcomes_count = 0
        self.failures = []  # list of dict
        self.samples = []
        self.parts = {}  # name -> dict of counters (per sub-space coverage statement)
        self.caps = []  # caps hit
        self.notes = []
        self.exhaustive = True

    def sample(self, s, limit=6):
        if len(self.samples) < limit:
            self.samples.append(_jsonable(s))

    def fail(self, kind, case, **kw):
        if len(self.failures) < 2000:
            d = {"kind": kind, "case": _jsonable(case)}
            d.update({k: _jsonable(v) for k, v in kw.items()})
            self.failures.append(d)
        else:
            self.parts.setdefault("_overflow", {"failures_dropped": 0})["failures_dropped"] += 1

    def part(self, name, **counters):
        p = self.parts.setdefault(name, {})
        for k, v in counters.items():
            if isinstance(v, bool) or not isinstance(v, (int, float)):
                p[k] = v
            else:
                p[k] = p.get(k, 0) + v

    def compact(self):
        """Replace big sets by counts before pickling across processes (keeps small sets)."""
        if len(self.distinct) > 200000:
            self.distinct_count += len(self.distinct)
            self.distinct = set()
        if len(self.outcomes) > 200000:
            self.outcomes_count += len(self.outcomes)
            self.outcomes = set()
        return self

    def merge(self, other: "Result"):
        self.evaluations += other.evaluations
        self.transitions += other.transitions
        self.distinct |= other.distinct
        self.distinct_count += other.distinct_count
        self.outcomes |= other.outcomes
        self.outcomes_count += other.outcomes_count
        self.failures.extend(other.failures)
        for s in other.samples:
            if len(self.samples) < 8:
                self.samples.append(s)
        for name, p in other.parts.items():
            self.part(name, **p)
        self.caps.extend(other.caps)
        self.notes.extend(n for n in other.notes if n not in self.notes)
        self.exhaustive = self.exhaustive and other.exhaustive
        return self

    @property
    def n_distinct(self):
        return len(self.distinct) + self.distinct_count

    @property
    def n_outcomes(self):
        return len(self.outcomes) + self.outcomes_count


# --------------------------------------------------------------------------- known findings


def load_findings(prop: str):
    p = Path(os.environ.get("VERIF_KNOWN_FINDINGS") or (VERIF / "known_findings.json"))
    if not p.exists():
        return []
    data = json.loads(p.read_text())
    return [f for f in data.get("findings", []) if f.get("property") == prop and f.get("status") == "known"]


def _match_value(pat, val):
    if isinstance(pat, dict):
        if "re" in pat:
            return isinstance(val, str) and re.fullmatch(pat["re"], val, re.S) is not None
        if "in" in pat:
            return val in pat["in"]
        if "contains" in pat:
            return isinstance(val, (str, list)) and pat["contains"] in val
        return False
    return pat == val


def match_finding(failure: dict, findings):
    for f in findings:
        m = f.get("match", {})
        if not m:
            continue
        ok = True
        for field, pat in m.items():
            cur = failure
            for part in field.split("."):
                if isinstance(cur, dict) and part in cur:
                    cur = cur[part]
                else:
                    cur = None
                    break
            if not _match_value(pat, cur):
                ok = False
                break
        if ok:
            return f
    return None


# --------------------------------------------------------------------------- writers


def write_replay(prop: str, idx: int, failure: dict) -> Path:
    d = OUT / "replays" / prop
    d.mkdir(parents=True, exist_ok=True)
    p = d / f"violation_{idx:03d}.json"
    p.write_text(json.dumps({"property": prop, "failure": failure}, indent=1, sort_keys=True))
    return p


def write_evidence(prop, tier, seed, level, res: Result, wall, rule, assumptions, violations, extra=None):
    cov = {
        "evaluations": int(res.evaluations),
        "distinct_nontrivial": int(res.n_distinct),
        "rule": rule,
        "samples": res.samples[:8] if res.samples else [],
        "states": int(max(res.n_distinct, 0)),
        "transitions": int(res.transitions),
        "traces_validated_against_impl": int(res.evaluations),
        "distinct_outcomes": int(res.n_outcomes),
        "exhaustive": bool(res.exhaustive and not res.caps),
        "caps_hit": res.caps,
        "parts": res.parts,
        "explanation": "bounded-exhaustive exploration executed directly on the implementation; "
        "states = distinct cases/canonical states, transitions = operations or scheduler steps "
        "executed on the real code, traces_validated_against_impl = executions of the real code "
        "(no separate model: the reference model is only an oracle)",
    }
    if res.notes:
        cov["notes"] = res.notes
    if extra:
        cov.update(extra)
    ev = {
        "property_id": prop,
        "tier": tier,
        "seed": int(seed),
        "level": level,
        "coverage": cov,
        "assumptions": assumptions,
        "wall_s": round(wall, 2),
        "violations": int(violations),
    }
    d = OUT / "evidence"
    d.mkdir(parents=True, exist_ok=True)
    tmp = d / f".{prop}.json.tmp{os.getpid()}"
    tmp.write_text(json.dumps(ev, indent=1, sort_keys=True))
    os.replace(tmp, d / f"{prop}.json")
    return ev
