"""Engine B — explicit-state, depth-limited breadth-first search over operation histories.

Small and generic.  A *state* is whatever the caller wants (a history to be replayed on fresh
objects, or live values when those are immutable); the driver only needs

    actions(state)        -> iterable of action labels (hashable, JSON-able), simplest first
    step(state, action)   -> successor state, or None when the action produces no successor
                             (rejected by model and implementation alike, or the caller reported
                             a violation and does not want to go on from a damaged state)
    canon(state)          -> hashable key; states with equal keys are merged (expanded once).
                             canon=None: no merging, every history is its own state.

Oracles live in `step` (the caller reports violations itself, e.g. through Result.fail, and may
raise `Abort` to stop the whole search, e.g. when shared live values were damaged).

Levels are processed breadth-first, so the first violation has a shortest history.  States of the
last level are generated (their `step` runs, with all its checks) but never stored or expanded.
`Stats` reports states, transitions, max depth and whether the frontier was exhausted inside the
depth bound (False only if a cap or an Abort cut the search).
"""
from __future__ import annotations


class Abort(Exception):
    """Raised by `step` to stop the search (the reason is recorded in Stats.aborted)."""


class Stats:
    __slots__ = ("states", "transitions", "max_depth", "per_depth", "merged", "frontier_exhausted", "aborted", "cap")

    def __init__(self):
        self.states = 0  # distinct states (after merging), the initial one included
        self.transitions = 0  # calls of step()
        self.max_depth = 0
        self.per_depth = []  # distinct states per depth
        self.merged = 0  # successors dropped because their canonical key was already known
        self.frontier_exhausted = True
        self.aborted = None
        self.cap = None

    def as_dict(self):
        return {
            "states": self.states,
            "transitions": self.transitions,
            "max_depth": self.max_depth,
            "per_depth": list(self.per_depth),
            "merged": self.merged,
            "frontier_exhausted": bool(self.frontier_exhausted),
            "aborted": self.aborted,
            "cap": self.cap,
        }


def search(init, actions, step, max_depth, canon=None, max_states=None, on_state=None):
    """Explore every history of at most `max_depth` actions from `init`.  Returns Stats.

    on_state(state, depth) is called once per distinct state (after merging), the initial one too.
    max_states: optional cap on stored states per level (sets Stats.cap and frontier_exhausted=False).
    """
    st = Stats()
    seen = set()
    if canon is not None:
        seen.add(canon(init))
    st.states = 1
    st.per_depth.append(1)
    if on_state is not None:
        on_state(init, 0)
    frontier = [init]
    try:
        for depth in range(1, max_depth + 1):
            last = depth == max_depth
            nxt = []
            count = 0
            for state in frontier:
                for a in actions(state):
                    st.transitions += 1
                    s2 = step(state, a)
                    if s2 is None:
                        continue
                    if canon is not None:
                        k = canon(s2)
                        if k in seen:
                            st.merged += 1
                            continue
                        seen.add(k)
                    count += 1
                    if on_state is not None:
                        on_state(s2, depth)
                    if not last:
                        if max_states is not None and len(nxt) >= max_states:
                            st.cap = f"more than {max_states} states at depth {depth}"
                            st.frontier_exhausted = False
                            continue
                        nxt.append(s2)
            st.states += count
            st.per_depth.append(count)
            if count:
                st.max_depth = depth
            frontier = nxt
            if not frontier:
                break
    except Abort as e:
        st.aborted = str(e) or "aborted"
        st.frontier_exhausted = False
    return st
