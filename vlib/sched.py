"""Engine A — stateless, preemption-bounded exploration of real Python threads.

Real `threading.Thread`s, exactly one runnable at a time (semaphore baton).  Scheduling points:
  * `sys.settrace` line events in allow-listed (filename suffix, function) frames,
  * every operation on a cooperative lock / condition (vlib.sched.CoopRLock / CoopCondition),
  * explicit `yield_point(label)` calls in harness bodies.
Exploration is the iterative-preemption-bounding DFS: run(prefix) replays the prefix of choices, then
always takes option 0 (keep running the current thread); alternatives whose accumulated deviation
cost stays within the bound are explored recursively.  Executions run to completion.
"""
from __future__ import annotations

import sys
import threading as _threading
import traceback
from dataclasses import dataclass, field

_real_threading = _threading
_tls = _real_threading.local()

CURRENT = None  # the active Scheduler (one per process at a time)


def _call(fn):
    return fn()


try:
    import types as _types

    # one large evaluation stack per controlled thread (avoids CPython 3.12 data-stack chunk mmap/munmap thrash)
    _big_call = _types.FunctionType(_call.__code__.replace(co_stacksize=(1 << 15) + 64), globals())
except Exception:  # pragma: no cover
    _big_call = _call


class Abort(BaseException):
    """Raised inside controlled threads to tear an execution down (deadlock, spin, horizon)."""


class ReplayDivergence(Exception):
    """A recorded choice is out of range while replaying: harness error, never a violation."""


@dataclass
class Point:
    options: list  # list of (tid, kind) kind in {"run","timeout"}
    chosen: int
    running: int | None  # tid that was running when the point was reached (None at start)
    running_enabled: bool
    label: str = ""


@dataclass
class Execution:
    choices: list = field(default_factory=list)
    points: list = field(default_factory=list)
    steps: int = 0
    outcome: str = "ok"  # ok | deadlock | spin | horizon | error
    detail: str = ""
    results: dict = field(default_factory=dict)  # tid -> ("ok", value) | ("exc", repr)
    log: list = field(default_factory=list)  # harness-supplied event log (ordered by global step)
    trace: list = field(default_factory=list)  # (tid, label) per step, for replay determinism checks

    def cost_before(self, i):
        return sum(self.point_cost(p) for p in self.points[:i])

    @staticmethod
    def point_cost(p: Point):
        if p.chosen == 0:
            return 0
        tid, kind = p.options[p.chosen]
        if kind == "timeout":
            return 1
        return 1 if p.running_enabled else 0


class _T:
    __slots__ = ("tid", "name", "fn", "thread", "gate", "state", "blocked_on", "timeout_ok", "timed_out", "last_label", "spin", "result", "started")

    def __init__(self, tid, name, fn):
        self.tid = tid
        self.name = name
        self.fn = fn
        self.thread = None
        self.gate = _real_threading.Semaphore(0)
        self.state = "new"  # new | ready | blocked | done
        self.blocked_on = None  # callable -> bool (True when can proceed) or None
        self.timeout_ok = False  # blocked with a timeout: a "timeout" transition is enabled
        self.timed_out = False
        self.last_label = None
        self.spin = {}
        self.result = None
        self.started = False


class Scheduler:
    def __init__(self, prefix=(), trace_files=(), trace_funcs=None, horizon=5000, spin_limit=None, opcode_funcs=(), frame_filter=None, lock_yield=True):
        self.prefix = list(prefix)
        self.lock_yield = lock_yield  # False: an uncontended lock acquisition is not a scheduling point (only blocking is)
        self.frame_filter = frame_filter  # callable(frame) -> bool: trace this particular frame? (e.g. only objects under test)
        self.trace_files = tuple(trace_files)
        self.trace_funcs = set(trace_funcs) if trace_funcs else None
        self.opcode_funcs = set(opcode_funcs)
        self.horizon = horizon
        self.spin_limit = spin_limit
        self.threads: list[_T] = []
        self.ctl = _real_threading.Semaphore(0)
        self.ex = Execution()
        self.running: _T | None = None
        self.aborting = False
        self.step = 0
        self._code_cache = {}
        self._error = None

    # ------------------------------------------------------------------ API for harness bodies
    def spawn(self, fn, name=None):
        """Register a controlled thread (may be called before run() or from a running controlled thread)."""
        t = _T(len(self.threads), name or f"t{len(self.threads)}", fn)
        self.threads.append(t)
        if self.running is not None or getattr(self, "_started", False):
            self._start_thread(t)
        return t.tid

    def log(self, *event):
        self.ex.log.append((self.step, current_tid(),) + tuple(event))

    # ------------------------------------------------------------------ thread plumbing
    def _start_thread(self, t: _T):
        t.state = "ready"
        th = _real_threading.Thread(target=self._thread_main, args=(t,), name=f"sched-{t.name}", daemon=True)
        t.thread = th
        t.started = True
        th.start()

    def _thread_main(self, t: _T):
        _tls.tid = t.tid
        _tls.sched = self
        t.gate.acquire()  # wait to be scheduled for the first time
        try:
            if self.aborting:
                raise Abort()
            sys.settrace(self._global_trace)
            try:
                v = _big_call(t.fn)
                t.result = ("ok", v)
            finally:
                sys.settrace(None)
        except Abort:
            t.result = ("abort", None)
        except BaseException as e:  # noqa
            t.result = ("exc", type(e).__name__, str(e)[:200])
        t.state = "done"
        self.ex.results[t.tid] = t.result
        if self.aborting:
            return
        # the finishing thread holds the baton: it takes the next scheduling decision itself
        nxt = self._next()
        if nxt is None:
            self.ctl.release()
        else:
            nxt.gate.release()

    def _global_trace(self, frame, event, arg):
        code = frame.f_code
        want = self._code_cache.get(code)
        if want is None:
            fn = code.co_filename
            want = 0
            if fn.endswith(self.trace_files) and (self.trace_funcs is None or code.co_name in self.trace_funcs):
                want = 2 if code.co_name in self.opcode_funcs else 1
            self._code_cache[code] = want
        if not want:
            return None
        if self.frame_filter is not None and not self.frame_filter(frame):
            return None
        if want == 2:
            frame.f_trace_opcodes = True
        return self._local_trace

    def _local_trace(self, frame, event, arg):
        if event == "line" or event == "opcode":
            code = frame.f_code
            self.yield_point(f"{code.co_name}:{frame.f_lineno}" + (f"@{frame.f_lasti}" if event == "opcode" else ""))
        return self._local_trace

    def yield_point(self, label="", blocked_on=None, timeout_ok=False):
        """Hand the baton back to the controller and wait to be resumed."""
        t = self.threads[_tls.tid]
        if self.aborting:
            raise Abort()
        t.last_label = label
        if blocked_on is not None:
            t.state = "blocked"
            t.blocked_on = blocked_on
            t.timeout_ok = timeout_ok
        # The scheduling decision is taken by the thread that holds the baton (this one); when the decision is
        # "keep running this thread" (the default choice at most points) no OS-level hand-off happens at all.
        nxt = self._next()
        if nxt is not t:
            if nxt is None:
                self.ctl.release()  # execution over: wake the controller, stay parked until teardown aborts us
            else:
                nxt.gate.release()
            t.gate.acquire()
            if self.aborting:
                raise Abort()
        t.state = "ready"
        t.blocked_on = None
        t.timeout_ok = False
        timed_out, t.timed_out = t.timed_out, False
        return timed_out

    # ------------------------------------------------------------------ controller
    def _enabled(self):
        opts = []
        for t in self.threads:
            if t.state == "done" or not t.started:
                continue
            if t.state == "blocked":
                try:
                    ok = t.blocked_on()
                except Exception:
                    ok = False
                if ok:
                    opts.append((t.tid, "run"))
            else:
                opts.append((t.tid, "run"))
        return opts

    def run(self):
        global CURRENT
        if CURRENT is not None:
            raise RuntimeError("nested schedulers")
        CURRENT = self
        self._started = True
        try:
            for t in self.threads:
                if not t.started:
                    self._start_thread(t)
            nxt = self._next()
            if nxt is not None:
                nxt.gate.release()
                self.ctl.acquire()  # released by whichever thread finds the execution over
            if self._error is not None:
                raise self._error
        finally:
            self._teardown()
            CURRENT = None
        return self.ex

    def _next(self):
        try:
            return self._decide()
        except BaseException as e:  # noqa - e.g. ReplayDivergence; re-raised by run() in the controller
            self._error = e
            return None

    def _decide(self):
        """One scheduling decision, taken by whoever holds the baton (a controlled thread at a scheduling point or at
        its end, or run() at the start).  Returns the thread to run next, or None when the execution is over."""
        ex = self.ex
        if all(t.state == "done" for t in self.threads):
            return None
        run_opts = self._enabled()
        cur = self.running
        cur_enabled = cur is not None and any(tid == cur.tid for tid, _ in run_opts)
        # canonical order: the running thread first if still enabled, then ascending ids, then timeouts
        opts = []
        if cur_enabled:
            opts.append((cur.tid, "run"))
        opts += [(tid, k) for tid, k in run_opts if not (cur_enabled and tid == cur.tid)]
        opts += [(t.tid, "timeout") for t in self.threads if t.state == "blocked" and t.timeout_ok]
        if not opts:
            ex.outcome = "deadlock"
            ex.detail = "; ".join(f"{t.name}:{t.state}@{t.last_label}" for t in self.threads if t.state != "done")
            return None
        i = len(ex.points)
        c = 0
        if len(opts) > 1:
            # only real choice points (more than one option) consume the prefix
            if i < len(self.prefix):
                c = self.prefix[i]
                if c >= len(opts):
                    raise ReplayDivergence(f"choice {c} out of range at point {i} ({len(opts)} options)")
            ex.points.append(Point(opts, c, cur.tid if cur else None, cur_enabled, cur.last_label if cur else ""))
            ex.choices.append(c)
        tid, kind = opts[c]
        t = self.threads[tid]
        if kind == "timeout":
            t.timed_out = True
            ex.log.append((self.step + 1, tid, "timeout-fired"))
        # spin detection: same thread, same label, repeatedly, with no other thread stepping in between
        if self.spin_limit is not None:
            if cur is not None and cur.tid == tid:
                n = t.spin.get(t.last_label, 0) + 1
                t.spin[t.last_label] = n
                if n > self.spin_limit:
                    ex.outcome = "spin"
                    ex.detail = f"{t.name} passed {t.last_label} {n} times with no other thread stepping in between"
                    return None
            else:
                for o in self.threads:
                    o.spin.clear()
        self.step += 1
        ex.steps = self.step
        ex.trace.append((tid, t.last_label))
        if self.step > self.horizon:
            ex.outcome = "horizon"
            ex.detail = f"more than {self.horizon} steps"
            return None
        self.running = t
        return t

    def _teardown(self):
        self.aborting = True
        for t in self.threads:
            if t.started and t.state != "done":
                t.gate.release()
        for t in self.threads:
            if t.thread is not None:
                t.thread.join(timeout=5)
                if t.thread.is_alive():
                    self.ex.outcome = "error"
                    self.ex.detail += f" thread {t.name} did not terminate on abort"


def current_tid():
    return getattr(_tls, "tid", None)


def active():
    return CURRENT is not None and getattr(_tls, "sched", None) is CURRENT


def yield_point(label=""):
    """Explicit scheduling point for harness bodies (no-op outside a scheduled execution)."""
    if active():
        CURRENT.yield_point(label)


# ---------------------------------------------------------------------------- cooperative primitives


class CoopRLock:
    """Re-entrant lock.  Inside a scheduled execution it never blocks the OS thread: a thread that
    finds it held parks with the scheduler.  Outside, it is an ordinary RLock."""

    def __init__(self):
        self._real = _real_threading.RLock()
        self._owner = None
        self._count = 0

    def acquire(self, blocking=True, timeout=-1):
        if not active():
            return self._real.acquire(blocking, timeout)
        s = CURRENT
        me = current_tid()
        if s.lock_yield:
            s.yield_point(f"lock.acquire@{id(self) & 0xffff:x}")
        while self._owner is not None and self._owner != me:
            if not blocking:
                return False
            s.yield_point("lock.wait", blocked_on=lambda: self._owner is None)
        self._owner = me
        self._count += 1
        return True

    def release(self):
        if not active():
            return self._real.release()
        if self._owner != current_tid():
            raise RuntimeError("cannot release un-acquired lock")
        self._count -= 1
        if self._count == 0:
            self._owner = None

    __enter__ = acquire

    def __exit__(self, *a):
        self.release()

    def _is_owned(self):
        return self._owner == current_tid() if active() else self._real._is_owned()

    def locked(self):
        return self._owner is not None


class CoopLock(CoopRLock):
    """Non re-entrant flavour (re-acquisition by the owner deadlocks, as with threading.Lock)."""

    def __init__(self):
        super().__init__()
        self._real = _real_threading.Lock()

    def acquire(self, blocking=True, timeout=-1):
        if not active():
            return self._real.acquire(blocking, timeout)
        s = CURRENT
        me = current_tid()
        if s.lock_yield:
            s.yield_point(f"lock.acquire@{id(self) & 0xffff:x}")
        while self._owner is not None:
            if not blocking:
                return False
            s.yield_point("lock.wait", blocked_on=lambda: self._owner is None)
        self._owner = me
        self._count = 1
        return True

    def _is_owned(self):
        return self._owner == current_tid()


class CoopCondition:
    def __init__(self, lock=None):
        self._lock = lock if lock is not None else CoopRLock()
        self._real = None if active() else None
        self._waiters = []  # list of [notified_flag]
        self.acquire = self._lock.acquire
        self.release = self._lock.release

    def __enter__(self):
        return self._lock.acquire()

    def __exit__(self, *a):
        return self._lock.release()

    def wait(self, timeout=None):
        if not active():
            # outside a scheduled execution there is nobody to wait for in these harnesses
            raise RuntimeError("CoopCondition.wait outside a scheduled execution")
        s = CURRENT
        me = current_tid()
        if self._lock._owner != me:
            raise RuntimeError("cannot wait on un-acquired lock")
        saved = self._lock._count
        self._lock._count = 0
        self._lock._owner = None
        w = [False]
        self._waiters.append(w)
        timed_out = s.yield_point("cond.wait", blocked_on=lambda: w[0], timeout_ok=timeout is not None)
        if timed_out and not w[0]:
            # remove *this* waiter (by identity: waiters are equal-looking lists)
            self._waiters[:] = [x for x in self._waiters if x is not w]
        # re-acquire
        while self._lock._owner is not None and self._lock._owner != me:
            s.yield_point("cond.reacquire", blocked_on=lambda: self._lock._owner is None)
        self._lock._owner = me
        self._lock._count = saved
        return w[0]

    def wait_for(self, predicate, timeout=None):
        result = predicate()
        while not result:
            got = self.wait(timeout)
            result = predicate()
            if not got and timeout is not None:
                # a timeout fired: like threading.Condition.wait_for, return the predicate's value now
                return result
        return result

    def notify(self, n=1):
        if active() and self._lock._owner != current_tid():
            raise RuntimeError("cannot notify on un-acquired lock")
        for w in self._waiters[:n]:
            w[0] = True
        del self._waiters[:n]

    def notify_all(self):
        self.notify(len(self._waiters))


class ThreadingShim:
    """Drop-in for a module's `threading` global: cooperative locks, everything else real."""

    def __init__(self):
        self.RLock = CoopRLock
        self.Lock = CoopLock
        self.Condition = CoopCondition

    def __getattr__(self, name):
        return getattr(_real_threading, name)


SHIM = ThreadingShim()


# ---------------------------------------------------------------------------- exploration


class Explorer:
    def __init__(self, make, check, bound, sched_kwargs, max_executions=None):
        """make(sched) -> None registers threads on the scheduler (fresh state per execution);
        check(execution, ctx) is called for every complete execution; ctx is whatever make returned."""
        self.make = make
        self.check = check
        self.bound = bound
        self.kw = sched_kwargs
        self.executions = 0
        self.steps = 0
        self.max_executions = max_executions
        self.capped = False

    def run_one(self, prefix):
        s = Scheduler(prefix=prefix, **self.kw)
        ctx = self.make(s)
        ex = s.run()
        self.executions += 1
        self.steps += ex.steps
        return ex, ctx

    def explore(self, prefix=()):
        """Depth-first exploration below `prefix` (iterative, explicit stack)."""
        stack = [list(prefix)]
        while stack:
            if self.max_executions is not None and self.executions >= self.max_executions:
                self.capped = True
                return
            pfx = stack.pop()
            ex, ctx = self.run_one(pfx)
            self.check(ex, ctx)
            base = len(pfx)
            cost = ex.cost_before(base)
            for i in range(base, len(ex.points)):
                p = ex.points[i]
                for alt in range(len(p.options) - 1, 0, -1):
                    tid, kind = p.options[alt]
                    c = cost + (1 if (kind == "timeout" or p.running_enabled) else 0)
                    if c <= self.bound:
                        stack.append(ex.choices[:i] + [alt])
                cost += Execution.point_cost(p)

    def frontier(self, min_tasks):
        """Expand breadth-first until at least min_tasks open prefixes exist; returns (done_executions, prefixes).
        The executions run here are checked here; the returned prefixes are still to be explored (each including its own run)."""
        open_ = [[]]
        while open_ and len(open_) < min_tasks:
            pfx = open_.pop(0)
            ex, ctx = self.run_one(pfx)
            self.check(ex, ctx)
            base = len(pfx)
            cost = ex.cost_before(base)
            for i in range(base, len(ex.points)):
                p = ex.points[i]
                for alt in range(1, len(p.options)):
                    tid, kind = p.options[alt]
                    c = cost + (1 if (kind == "timeout" or p.running_enabled) else 0)
                    if c <= self.bound:
                        open_.append(ex.choices[:i] + [alt])
                cost += Execution.point_cost(p)
        return open_


def explore_subtree(explorer: Explorer, prefix):
    """Explore the subtree whose root execution is `prefix` *excluding* re-running the parent: used by workers."""
    explorer.explore(prefix)


def staged_explore(env, specs, build, new_result, min_open=24, chunk=2):
    """Explore every spec's schedule tree on all cores.

    Stage 1 (one task per spec): expand breadth-first until >= min_open open subtrees exist (or the
    tree is exhausted).  Stage 2: each group of `chunk` open subtrees is one task.  build(spec, res)
    must return an Explorer whose check() records into res.  Returns the list of per-task results
    (stage-1 results carry .stage1_spec = index)."""

    def stage1(i):
        res = new_result()
        E = build(specs[i], res)
        open_ = E.frontier(min_open)
        res.part("engine-A", schedules=E.executions, steps=E.steps)
        return res.compact(), open_

    def stage2(task):
        i, prefixes = task
        res = new_result()
        E = build(specs[i], res)
        for p in prefixes:
            E.explore(p)
        res.part("engine-A", schedules=E.executions, steps=E.steps)
        return res.compact()

    out = []
    tasks = []
    for i, (r, open_) in enumerate(env.parallel(stage1, list(range(len(specs))), pin=True)):
        out.append(r)
        for k in range(0, len(open_), chunk):
            tasks.append((i, open_[k : k + chunk]))
    out.extend(env.parallel(stage2, tasks, pin=True))
    return out
