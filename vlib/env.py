"""Environment: build + preload the native module from /repo/rust, bootstrap basilisp
from the *current working tree* of /repo, helpers to evaluate Lisp, and a fork pool.

Nothing here writes into /repo.
"""
from __future__ import annotations

import hashlib
import importlib
import importlib.machinery
import importlib.util
import os
import shutil
import subprocess
import sys
import tempfile
import time
import traceback
from pathlib import Path

REPO = Path(os.environ.get("VERIF_REPO", "/repo"))
VERIF = Path(__file__).resolve().parent.parent
CACHE = VERIF / ".cache"
GUARD = "BASILISP_LANG_BASILISP_VERIF"


class HarnessError(Exception):
    """Something is wrong with the harness or the build, not with a property."""


# --------------------------------------------------------------------------- native module


def _rust_fingerprint() -> str:
    h = hashlib.sha256()
    rust = REPO / "rust"
    files = [rust / "Cargo.toml", rust / "Cargo.lock"]
    files += sorted((rust / "src").rglob("*.rs"))
    for f in files:
        h.update(str(f.relative_to(rust)).encode())
        h.update(b"\0")
        h.update(f.read_bytes())
        h.update(b"\0")
    return h.hexdigest()[:24]


def ensure_native(verbose: bool = False) -> Path:
    """Build basilisp._lang from /repo/rust (cached by content hash). Returns the .so path."""
    fp = _rust_fingerprint()
    out = CACHE / "native" / fp / "_lang.abi3.so"
    if out.exists():
        return out
    scratch = Path(tempfile.mkdtemp(prefix="verif-native-", dir="/var/tmp"))
    try:
        shutil.copytree(REPO / "rust" / "src", scratch / "rust" / "src")
        for n in ("Cargo.toml", "Cargo.lock"):
            shutil.copy(REPO / "rust" / n, scratch / "rust" / n)
        env = dict(os.environ)
        env["CARGO_NET_OFFLINE"] = "true"
        env["PYO3_PYTHON"] = sys.executable
        # share compiled dependencies between builds of different source hashes
        target = CACHE / "cargo-target"
        target.mkdir(parents=True, exist_ok=True)
        env["CARGO_TARGET_DIR"] = str(target)
        t0 = time.time()
        p = subprocess.run(
            ["cargo", "build", "--release", "--offline", "--manifest-path", str(scratch / "rust" / "Cargo.toml")],
            env=env,
            capture_output=True,
            text=True,
        )
        if p.returncode != 0:
            raise HarnessError("cargo build failed:\n" + p.stdout[-2000:] + p.stderr[-4000:])
        built = target / "release" / "libbasilisp_native.so"
        if not built.exists():
            raise HarnessError("cargo build produced no libbasilisp_native.so")
        out.parent.mkdir(parents=True, exist_ok=True)
        tmp = out.with_suffix(".tmp%d" % os.getpid())
        shutil.copy(built, tmp)
        os.replace(tmp, out)
        if verbose:
            print(f"[env] built native module {fp} in {time.time()-t0:.1f}s", file=sys.stderr)
    finally:
        shutil.rmtree(scratch, ignore_errors=True)
    return out


def preload_native(so: Path) -> None:
    """Load the freshly built extension as basilisp._lang before basilisp.lang.seq is imported."""
    if "basilisp.lang.seq" in sys.modules:
        cur = getattr(sys.modules.get("basilisp._lang"), "__file__", None)
        if cur and Path(cur).resolve() == Path(so).resolve():
            return  # already pre-loaded from the same artefact
        loaded = sorted(m for m in sys.modules if m.startswith("basilisp"))[:12]
        raise HarnessError(
            f"preload_native called after basilisp.lang.seq was imported (basilisp._lang from {cur}; loaded: {loaded}; "
            f"argv={sys.argv[:3]}; pid={os.getpid()})"
        )
    import basilisp  # the package itself imports nothing native

    loader = importlib.machinery.ExtensionFileLoader("basilisp._lang", str(so))
    spec = importlib.util.spec_from_file_location("basilisp._lang", str(so), loader=loader)
    mod = importlib.util.module_from_spec(spec)
    sys.modules["basilisp._lang"] = mod
    loader.exec_module(mod)
    basilisp._lang = mod  # type: ignore[attr-defined]


# --------------------------------------------------------------------------- big caller frame


def _call(fn, args):
    return fn(*args)


_BIG = None


def big_call(fn, *args):
    """Run fn(*args) under ONE caller frame with a ~1 MiB evaluation stack, so CPython 3.12 allocates a single large
    data-stack chunk instead of mmap/munmap-ing a 16 KiB chunk on every deep call chain (measured: the bootstrap drops
    from 57 s to 11 s wall on a loaded machine, sys time from 28 s to 0.4 s)."""
    global _BIG
    if _BIG is None:
        import types

        try:
            _BIG = types.FunctionType(_call.__code__.replace(co_stacksize=(1 << 17) + 64), globals())
        except Exception:  # pragma: no cover
            _BIG = _call
    return _BIG(fn, args)


# --------------------------------------------------------------------------- bootstrap

_BOOTSTRAPPED = False


def _purge_preloaded_basilisp() -> None:
    """If a `basilispbootstrap.pth` happens to be installed in site-packages (the repository's own CLI tests install one
    for a moment), the interpreter starts with basilisp already initialised from the default native module. Forget that
    copy completely so that the working tree is bootstrapped again with the native module built from /repo/rust."""
    if not any(m == "basilisp" or m.startswith("basilisp.") for m in sys.modules):
        return
    for m in [m for m in sys.modules if m == "basilisp" or m.startswith("basilisp.")]:
        del sys.modules[m]
    sys.meta_path[:] = [f for f in sys.meta_path if not type(f).__module__.startswith("basilisp")]
    sys.path_importer_cache.clear()
    importlib.invalidate_caches()


def bootstrap(native: bool = True, verbose: bool = False) -> None:
    """Import basilisp.core compiled from the current sources (no byte-code cache)."""
    global _BOOTSTRAPPED
    if _BOOTSTRAPPED:
        return
    os.environ["BASILISP_DO_NOT_CACHE_NAMESPACES"] = "true"
    os.environ.setdefault("BASILISP_EMIT_GENERATED_PYTHON", "false")
    src = str(REPO / "src")
    if src not in sys.path:
        sys.path.insert(0, src)
    sys.dont_write_bytecode = True
    t0 = time.time()
    _purge_preloaded_basilisp()
    if native:
        preload_native(ensure_native(verbose))
    import basilisp  # noqa

    if Path(basilisp.__file__).resolve().parent != (REPO / "src" / "basilisp").resolve():
        raise HarnessError(f"basilisp imported from {basilisp.__file__}, not from {REPO}/src")
    from basilisp import main as bmain

    big_call(bmain.init)
    _BOOTSTRAPPED = True
    if verbose:
        print(f"[env] bootstrapped basilisp in {time.time()-t0:.1f}s", file=sys.stderr)


# --------------------------------------------------------------------------- Lisp helpers

_NS_COUNTER = [0]


def fresh_ns(prefix: str = "verif.scratch"):
    """Create a fresh namespace that refers basilisp.core. Returns runtime.Namespace."""
    from basilisp.lang import runtime, symbol as sym

    _NS_COUNTER[0] += 1
    name = f"{prefix}.n{os.getpid()}x{_NS_COUNTER[0]}"
    ns = runtime.Namespace.get_or_create(sym.symbol(name))
    core = runtime.Namespace.get(sym.symbol("basilisp.core"))
    ns.refer_all(core)
    return ns


def drop_ns(ns) -> None:
    from basilisp.lang import runtime, symbol as sym

    runtime.Namespace.remove(sym.symbol(ns.name))
    sys.modules.pop(ns.module.__name__, None)


class Evaluator:
    """Reads and evaluates Lisp text in a namespace with given compiler options."""

    def __init__(self, ns=None, opts=None, filename: str = "<verif>"):
        from basilisp.lang import compiler

        self.ns = ns if ns is not None else fresh_ns()
        self.ctx = compiler.CompilerContext(filename, opts=opts)

    def eval(self, text: str):
        from basilisp.lang import compiler, reader, runtime

        last = None
        with runtime.ns_bindings(self.ns.name):
            for form in reader.read_str(text, resolver=runtime.resolve_alias):
                last = compiler.compile_and_exec_form(form, self.ctx, self.ns)
        return last

    def eval_form(self, form):
        from basilisp.lang import compiler, runtime

        with runtime.ns_bindings(self.ns.name):
            return compiler.compile_and_exec_form(form, self.ctx, self.ns)

    def close(self):
        drop_ns(self.ns)


def core_fn(name: str):
    """Return the root value of basilisp.core/<name>."""
    from basilisp.lang import runtime, symbol as sym

    v = runtime.Namespace.get(sym.symbol("basilisp.core")).find(sym.symbol(name))
    if v is None:
        raise HarnessError(f"basilisp.core/{name} not found")
    return v.value


def core_var(name: str):
    from basilisp.lang import runtime, symbol as sym

    v = runtime.Namespace.get(sym.symbol("basilisp.core")).find(sym.symbol(name))
    if v is None:
        raise HarnessError(f"basilisp.core/{name} not found")
    return v


# --------------------------------------------------------------------------- fork pool


def ncores() -> int:
    try:
        n = len(os.sched_getaffinity(0))
    except Exception:
        n = os.cpu_count() or 1
    return max(1, min(16, int(os.environ.get("VERIF_WORKERS", n))))


def parallel(fn, shards, workers: int | None = None, pin: bool = False):
    """Run fn(shard) for every shard in forked children (inheriting the bootstrapped
    interpreter); returns results in shard order.  A child that dies or raises makes the
    whole run a HarnessError (never a silent pass)."""
    import multiprocessing as mp
    import pickle

    shards = list(shards)
    if not shards:
        return []
    workers = workers or ncores()
    if workers <= 1 or len(shards) == 1:
        return [big_call(fn, s) for s in shards]
    import gc

    gc.collect()
    gc.freeze()  # keep the bootstrapped heap out of the children's collections: avoids copy-on-write storms
    ctx = mp.get_context("fork")
    results: list = [None] * len(shards)
    pending = list(enumerate(shards))
    running: dict = {}
    errors = []

    cpus = sorted(os.sched_getaffinity(0)) if hasattr(os, "sched_getaffinity") else []

    def _child(idx, shard, conn):
        if pin and cpus:
            # baton-passing threads of one worker stay on one core: avoids cross-CPU wake-up latency
            try:
                os.sched_setaffinity(0, {cpus[idx % len(cpus)]})
            except OSError:
                pass
        try:
            res = ("ok", big_call(fn, shard))
        except BaseException:  # noqa
            res = ("err", traceback.format_exc())
        try:
            conn.send_bytes(pickle.dumps(res, protocol=4))
        except BaseException:  # noqa
            conn.send_bytes(pickle.dumps(("err", "unpicklable result:\n" + traceback.format_exc())))
        conn.close()
        os._exit(0)

    from multiprocessing.connection import wait

    try:
        return _parallel_loop(ctx, pending, running, results, errors, workers, _child, wait, pickle)
    finally:
        # never leave children behind (a failing parent would otherwise hang at exit joining children that block on
        # a pipe nobody reads)
        for r, (idx, p) in list(running.items()):
            try:
                p.terminate()
            except Exception:
                pass


def _parallel_loop(ctx, pending, running, results, errors, workers, _child, wait, pickle):
    while pending or running:
        while pending and len(running) < workers:
            idx, shard = pending.pop(0)
            r, w = ctx.Pipe(duplex=False)
            p = ctx.Process(target=_child, args=(idx, shard, w))
            p.start()
            w.close()
            running[r] = (idx, p)
        ready = wait(list(running.keys()), timeout=1.0)
        for r in ready:
            idx, p = running.pop(r)
            try:
                kind, val = pickle.loads(r.recv_bytes())
            except EOFError:
                kind, val = "err", f"worker for shard {idx} died (exit {p.exitcode})"
            r.close()
            p.join()
            if kind == "ok":
                results[idx] = val
            else:
                errors.append((idx, val))
    if errors:
        raise HarnessError("worker failure in shard %d:\n%s" % errors[0])
    return results
