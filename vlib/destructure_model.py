"""Reference model for the destructuring half of C09.

A pattern is a JSON-able tree:

    ["sym", name]
    ["vec", [child, ...], rest | None, as_name | None]          rest is a pattern (symbol, vector or map pattern)
    ["map", [entry, ...], as_name | None]
        entry = ["keys", style, name, default]      style: "plain" `:keys [n]` | "nsname" `:keys [p/n]` | "nsgroup" `:p/keys [n]`
              | ["strs", name, default]             `:strs [n]`
              | ["syms", style, name, default]      style as for keys (`:syms [n]`, `:syms [p/n]`, `:p/syms [n]`)
              | ["ent", pattern, key, default]      `pattern key`; key = ["kw", ns, name] | ["str", s] | ["sym", ns, name] | ["int", i]
        default = None | ["const", valspec] | ["tr", id, valspec]     (`:or {n d}`; "tr" is the effectful default `(tr id d)`)

A value is a JSON-able tree too ("valspec"):  ["int", n] ["nil"] ["false"] ["true"] ["str", s] ["kw", ns, name] ["sym", ns, name]
["vec", [...]] ["list", [...]] ["lazy", [...]] ["map", [[k, v], ...]] ["set", [...]].

The reference destructurer `bind` is the statement of the property: every name is bound to what basilisp's OWN `nth` (with nil
default), `nthnext` and `get` (with the `:or` default) return on the value; those three functions (and `seq?`, `assoc`, `map?` for the
documented keyword-argument rule) are primitives handed in by the caller, not re-implemented here.
"""
from __future__ import annotations

NS = "p"  # the namespace used by namespaced keys / symbols in patterns


class Undecided(Exception):
    """The property / documentation does not fix the outcome for this (pattern, value): observe, do not judge."""


class Unjudged:
    """Marker for a single name whose binding the property does not fix (the other names are still judged)."""

    def __init__(self, why):
        self.why = why

    def __repr__(self):
        return f"<unjudged {self.why}>"


# --------------------------------------------------------------------------- rendering


def show(v):
    """Lisp text of a valspec (as it would be written in source, lists quoted)."""
    return _show(v, True)


def _show(v, top):
    t = v[0]
    if t == "int":
        return str(v[1])
    if t == "nil":
        return "nil"
    if t == "false":
        return "false"
    if t == "true":
        return "true"
    if t == "str":
        return '"' + v[1] + '"'
    if t == "kw":
        return ":" + (v[1] + "/" if v[1] else "") + v[2]
    if t == "sym":
        return ("'" if top else "") + (v[1] + "/" if v[1] else "") + v[2]
    if t == "vec":
        return "[" + " ".join(_show(x, top) for x in v[1]) + "]"
    if t == "list":
        return ("'" if top else "") + "(" + " ".join(_show(x, False) for x in v[1]) + ")"
    if t == "lazy":
        return "(lazy-seq " + _show(["list", v[1]], top) + ")"
    if t == "map":
        return "{" + " ".join(_show(k, top) + " " + _show(x, top) for k, x in v[1]) + "}"
    if t == "set":
        return "#{" + " ".join(_show(x, top) for x in v[1]) + "}"
    raise KeyError(t)


def build(v):
    """The basilisp value of a valspec."""
    from basilisp.lang import keyword as kw, list as llist, map as lmap, seq as lseq, set as lset, symbol as sym, vector as vec

    t = v[0]
    if t == "int":
        return v[1]
    if t == "nil":
        return None
    if t == "false":
        return False
    if t == "true":
        return True
    if t == "str":
        return v[1]
    if t == "kw":
        return kw.keyword(v[2], ns=v[1])
    if t == "sym":
        return sym.symbol(v[2], ns=v[1])
    if t == "vec":
        return vec.vector([build(x) for x in v[1]])
    if t == "list":
        return llist.list([build(x) for x in v[1]])
    if t == "lazy":
        items = [build(x) for x in v[1]]

        def cell(i):
            def thunk():
                if i < len(items):
                    return lseq.Cons(items[i], lseq.LazySeq(cell(i + 1)))
                return None

            return thunk

        return lseq.LazySeq(cell(0))
    if t == "map":
        return lmap.map({build(k): build(x) for k, x in v[1]})
    if t == "set":
        return lset.set([build(x) for x in v[1]])
    raise KeyError(t)


def key_text(k):
    if k[0] == "kw":
        return ":" + (k[1] + "/" if k[1] else "") + k[2]
    if k[0] == "str":
        return '"' + k[1] + '"'
    if k[0] == "sym":
        return "'" + (k[1] + "/" if k[1] else "") + k[2]
    if k[0] == "int":
        return str(k[1])
    raise KeyError(k[0])


def default_text(d):
    if d[0] == "const":
        return _show(d[1], True)
    if d[0] == "tr":
        return f"(tr {d[1]} {_show(d[2], True)})"
    raise KeyError(d[0])


def render(p):
    """Lisp text of a pattern."""
    t = p[0]
    if t == "sym":
        return p[1]
    if t == "vec":
        parts = [render(c) for c in p[1]]
        if p[2] is not None:
            parts += ["&", render(p[2])]
        if p[3] is not None:
            parts += [":as", p[3]]
        return "[" + " ".join(parts) + "]"
    if t == "map":
        groups = {}  # group keyword text -> [names]
        ents = []
        ors = []
        for e in p[1]:
            if e[0] in ("keys", "syms"):
                style, name, d = e[1], e[2], e[3]
                g = f":{NS}/{e[0]}" if style == "nsgroup" else f":{e[0]}"
                groups.setdefault(g, []).append(f"{NS}/{name}" if style == "nsname" else name)
            elif e[0] == "strs":
                name, d = e[1], e[2]
                groups.setdefault(":strs", []).append(name)
            else:
                sub, key, d = e[1], e[2], e[3]
                ents.append(render(sub) + " " + key_text(key))
                name = sub[1] if sub[0] == "sym" else None
            if d is not None:
                ors.append(f"{name} {default_text(d)}")
        parts = ents + [f"{g} [{' '.join(ns)}]" for g, ns in groups.items()]
        if ors:
            parts.append(":or {" + " ".join(ors) + "}")
        if p[2] is not None:
            parts.append(":as " + p[2])
        return "{" + " ".join(parts) + "}"
    raise KeyError(t)


def bound_names(p):
    """Every name the pattern binds, in pattern order."""
    t = p[0]
    if t == "sym":
        return [p[1]]
    out = []
    if t == "vec":
        for c in p[1]:
            out += bound_names(c)
        if p[2] is not None:
            out += bound_names(p[2])
        if p[3] is not None:
            out.append(p[3])
        return out
    for e in p[1]:
        if e[0] in ("keys", "syms"):
            out.append(e[2])
        elif e[0] == "strs":
            out.append(e[1])
        else:
            out += bound_names(e[1])
    if p[2] is not None:
        out.append(p[2])
    return out


def depth(p):
    t = p[0]
    if t == "sym":
        return 0
    if t == "vec":
        subs = list(p[1]) + ([p[2]] if p[2] is not None else [])
    else:
        subs = [e[1] for e in p[1] if e[0] == "ent"]
    return 1 + max([depth(s) for s in subs], default=0)


def entry_key(e):
    """The key an entry looks up, as a valspec."""
    if e[0] == "keys":
        return ["kw", None if e[1] == "plain" else NS, e[2]]
    if e[0] == "strs":
        return ["str", e[1]]
    if e[0] == "syms":
        return ["sym", None if e[1] == "plain" else NS, e[2]]
    return list(e[2])


# --------------------------------------------------------------------------- the reference destructurer


class Prims:
    """basilisp's own functions, used as primitives of the reference."""

    def __init__(self, core_fn):
        self.nth = core_fn("nth")
        self.nthnext = core_fn("nthnext")
        self.get = core_fn("get")
        self.is_seq = core_fn("seq?")
        self.is_map = core_fn("map?")
        self.assoc = core_fn("assoc")
        self.seq = core_fn("seq")
        self.hash_map = core_fn("hash-map")
        self.eq = core_fn("=")


def pour(v, pr: Prims):
    """The keyword-argument rule applied by a map pattern to a seq value: the seq is poured into a map; a seq of one
    element stands for that element.  Returns (map value, as_value_or_Unjudged)."""
    if v is None or not pr.is_seq(v):
        return v, v
    elems = list(v)
    if len(elems) == 0:
        # nothing to look up (every get gives the default); whether :as names nil, {} or the seq is not fixed anywhere
        return None, Unjudged("as-of-empty-seq")
    if len(elems) == 1:
        return elems[0], elems[0]
    if len(elems) % 2:
        # documented only for function keyword arguments (a trailing map is merged); for let / loop / nested values
        # an odd seq is outside the documented rule
        raise Undecided("odd-seq-for-map-pattern")
    m = pr.hash_map()
    for i in range(0, len(elems), 2):
        m = pr.assoc(m, elems[i], elems[i + 1])
    return m, m


def collect_kwargs(args, pr: Prims):
    """Documented rule for `(fn [& {...}])`: key/value arguments are collected into one map; a single trailing map is
    merged into it (and wins)."""
    args = list(args)
    if not args:
        return None
    last = args[-1]
    kvs = args
    trailing = None
    if pr.is_map(last):
        kvs, trailing = args[:-1], last
    if len(kvs) % 2:
        raise Undecided("odd-keyword-arguments")
    m = pr.hash_map()
    for i in range(0, len(kvs), 2):
        m = pr.assoc(m, kvs[i], kvs[i + 1])
    if trailing is not None:
        for k, x in trailing.items():
            m = pr.assoc(m, k, x)
    return m


_MISSING = object()


def bind(p, v, out: dict, pr: Prims, defaults):
    """Bind the names of pattern p against value v into `out` (name -> value).  `defaults(d)` builds a default value."""
    t = p[0]
    if t == "sym":
        out[p[1]] = v
        return
    if t == "vec":
        for i, c in enumerate(p[1]):
            bind(c, pr.nth(v, i, None), out, pr, defaults)
        if p[2] is not None:
            bind(p[2], pr.nthnext(v, len(p[1])), out, pr, defaults)
        if p[3] is not None:
            out[p[3]] = v
        return
    m, as_value = pour(v, pr)
    for e in p[1]:
        k = build(entry_key(e))
        d = e[3] if e[0] != "strs" else e[2]
        x = pr.get(m, k, defaults(d)) if d is not None else pr.get(m, k)
        if e[0] == "ent":
            bind(e[1], x, out, pr, defaults)
        elif e[0] == "strs":
            out[e[1]] = x
        else:
            out[e[2]] = x
    if p[2] is not None:
        out[p[2]] = as_value


def reference(p, site, value, pr: Prims, defaults):
    """Outcome the property demands: ("ok", {name: value}) | ("exc", class name) | ("undecided", why).

    site: "let" / "fn" / "loop" bind the pattern to `value`; "rest" binds the pattern to the rest arguments of a call
    `(apply f value)` (`value` is then a sequential value or nil)."""
    out: dict = {}
    try:
        if site == "rest":
            args = [] if value is None else list(value)
            if p[0] == "map":
                v = collect_kwargs(args, pr)
            else:
                v = pr.seq(args) if args else None
            bind(p, v, out, pr, defaults)
        else:
            bind(p, value, out, pr, defaults)
    except Undecided as e:
        return ("undecided", str(e))
    except Exception as e:  # noqa: the class of the exception nth / nthnext / get raise is the expectation
        return ("exc", type(e).__name__)
    return ("ok", out)


# --------------------------------------------------------------------------- values for a pattern


class Leaves:
    """Distinct leaf values; in falsey mode nil and false alternate (present-but-falsey elements)."""

    def __init__(self, falsey=False, start=100):
        self.n = start
        self.falsey = falsey

    def next(self):
        self.n += 1
        if self.falsey:
            return ["nil"] if self.n % 2 else ["false"]
        return ["int", self.n]


def _tail_elems(spec):
    """Elements a rest pattern sees when the tail of the enclosing vector is written out."""
    if spec[0] in ("vec", "list", "lazy"):
        return list(spec[1])
    if spec[0] == "nil":
        return []
    return None


def _flat_kvs(mapspec):
    out = []
    for k, x in mapspec[1]:
        out += [k, x]
    return out


def conf(p, lv: Leaves, override=None, path=()):
    """A value that conforms to p.  `override` maps a path to the valspec to use at that position instead."""
    if override and path in override:
        return override[path]
    t = p[0]
    if t == "sym":
        return lv.next()
    if t == "vec":
        elems = [conf(c, lv, override, path + (("p", i),)) for i, c in enumerate(p[1])]
        r = p[2]
        if r is not None:
            if r[0] == "sym":
                elems += [lv.next(), lv.next()]
            else:
                sub = conf(r, lv, override, path + (("r",),))
                if sub[0] == "map":
                    elems += _flat_kvs(sub)
                else:
                    tail = _tail_elems(sub)
                    elems += tail if tail is not None else []
        return ["vec", elems]
    return ["map", [[entry_key(e), conf(e[1], lv, override, path + (("e", j),)) if e[0] == "ent" else lv.next()] for j, e in enumerate(p[1])]]


def own_alternatives(p):
    """(label, valspec) alternatives for the value at the position of p itself: conforming, too short, too long, nil,
    wrongly typed, falsey elements, and for map patterns the seq forms of the keyword-argument rule."""
    t = p[0]
    if t == "sym":
        return [("leaf", ["int", 7]), ("nil", ["nil"])]
    c = conf(p, Leaves())
    f = conf(p, Leaves(falsey=True))
    out = [("conforming", c), ("falsey", f), ("nil", ["nil"]), ("string", ["str", "xy"]), ("int", ["int", 5])]
    if t == "vec":
        npos = len(p[1])
        elems = c[1]
        if npos > 0:
            out.append(("short", ["vec", elems[: npos - 1]]))
        out.append(("long", ["vec", elems + [["int", 901], ["int", 902]]]))
        out.append(("empty", ["vec", []]))
        out.append(("as-list", ["list", elems]))
        out.append(("as-lazy", ["lazy", elems]))
        out.append(("empty-list", ["list", []]))
        out.append(("map", ["map", [[["int", 0], ["int", 71]], [["kw", None, "k0"], ["int", 72]]]]))
        out.append(("set", ["set", [["int", 0], ["int", 1]]]))
        r = p[2]
        if r is not None and r[0] == "map":
            head = elems[:npos]
            m = conf(r, Leaves(start=300))
            kvs = _flat_kvs(m)
            out.append(("rest-trailing-map", ["vec", head + kvs + [["map", [[["kw", None, "zz"], ["int", 77]]]]]]))
            out.append(("rest-only-map", ["vec", head + [m]]))
            out.append(("rest-odd", ["vec", head + kvs + [["kw", None, "lone"]]]))
            out.append(("rest-none", ["vec", head]))
    else:
        kvs = c[1]
        out.append(("missing", ["map", []]))
        if len(kvs) > 1:
            out.append(("half", ["map", kvs[:1]]))
        out.append(("extra", ["map", kvs + [[["kw", None, "zz"], ["int", 903]]]]))
        out.append(("vector", ["vec", [["int", 81], ["int", 82]]]))
        out.append(("set", ["set", [k for k, _ in kvs] or [["int", 0]]]))
        flat = _flat_kvs(c)
        out.append(("kv-list", ["list", flat]))
        out.append(("kv-lazy", ["lazy", flat]))
        out.append(("falsey-kv-list", ["list", _flat_kvs(f)]))
        out.append(("list-of-map", ["list", [c]]))
        out.append(("list-of-int", ["list", [["int", 5]]]))
        out.append(("empty-list", ["list", []]))
        out.append(("odd-list", ["list", flat + [["kw", None, "lone"]]]))
        out.append(("kv-list-trailing-map", ["list", flat + [["map", [[["kw", None, "zz"], ["int", 78]]]]]]))
        if kvs:
            out.append(("kv-list-overriding-map", ["list", flat + [["map", [[kvs[0][0], ["int", 79]]]]]]))
    return out


def _subpatterns(p):
    if p[0] == "vec":
        for i, c in enumerate(p[1]):
            if c[0] != "sym":
                yield ("p", i), c
        if p[2] is not None and p[2][0] != "sym":
            yield ("r",), p[2]
    elif p[0] == "map":
        for j, e in enumerate(p[1]):
            if e[0] == "ent" and e[1][0] != "sym":
                yield ("e", j), e[1]


def variants(p):
    """All (label, valspec) for pattern p: its own alternatives, and for every nested pattern every one of *its*
    variants embedded in an otherwise conforming value."""
    out = list(own_alternatives(p))
    for step, sub in _subpatterns(p):
        for label, spec in variants(sub):
            if label == "conforming":
                continue
            if step == ("r",) and _tail_elems(spec) is None and spec[0] != "map":
                continue  # a rest position always holds a seq or nil
            if step == ("r",) and spec[0] == "map":
                spec = ["vec", [spec]]  # a lone map as the only rest element
            out.append((f"{step[0]}{step[1] if len(step) > 1 else ''}/{label}", conf(p, Leaves(), {(step,): spec})))
    return out
