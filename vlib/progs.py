"""Shared program corpus for C01 / C02 / C15: bounded term enumeration of the special-form fragment,
printer (with naming schemes and optional effect markers) and a reference big-step evaluator.

Terms (tuples):
  ("nil",) ("one",) ("var", i) ("throw",)
  ("if", c, t, e) ("do", a, b) ("let", init, body)            ; binder index = de Bruijn level
  ("fn0", body) ("fn1", body) ("call0", f) ("call1", f, a)
  ("loop", init, body) ("recur", e)                            ; recur only in tail position of loop / fn1 body
  ("try", body, handler) ("finally", body, fin) ("def", e) ("vec", a, b)
  ("gref",)   ; a read of the global that def defines (not enumerated by terms(): used by skeleton families only)
The reference evaluator contains no code from basilisp.
"""
from __future__ import annotations

import functools

LEAVES = (("nil",), ("one",), ("throw",))


# ----------------------------------------------------------------------------- enumeration


@functools.lru_cache(maxsize=None)
def terms(n, nvars, tail):
    """all terms with exactly n nodes, nvars variables in scope; tail in {None, 'loop', 'fn1', 'fn0'}:
    whether a recur to the enclosing loop/fn is allowed here (tail position)."""
    out = []
    if n <= 0:
        return ()
    if n == 1:
        out.extend(LEAVES)
        out.extend(("var", i) for i in range(nvars))
        return tuple(out)
    # unary constructors: fn0, fn1, call0, def, recur
    for b in terms(n - 1, nvars, None):
        out.append(("call0", b))
        out.append(("def", b))
    for b in terms(n - 1, nvars, None):
        out.append(("fn0", b))
    for b in terms(n - 1, nvars + 1, "fn1"):
        out.append(("fn1", b))
    if tail in ("loop", "fn1"):
        for a in terms(n - 1, nvars, None):
            out.append(("recur", a))
    # binary constructors
    for k in range(1, n - 1):
        m = n - 1 - k
        for a in terms(k, nvars, None):
            for b in terms(m, nvars, tail):
                out.append(("do", a, b))
            for b in terms(m, nvars, None):
                out.append(("call1", a, b))
                out.append(("vec", a, b))
                out.append(("finally", a, b))  # (try a (finally b)): neither is a tail position
            for b in terms(m, nvars + 1, tail):
                out.append(("let", a, b))
            for b in terms(m, nvars + 1, "loop"):
                out.append(("loop", a, b))
            for b in terms(m, nvars + 1, None):
                out.append(("try", a, b))  # (try a (catch ValueError x b))
    # ternary: if
    for k in range(1, n - 2):
        for l in range(1, n - 1 - k):
            m = n - 1 - k - l
            for c in terms(k, nvars, None):
                for t in terms(l, nvars, tail):
                    for e in terms(m, nvars, tail):
                        out.append(("if", c, t, e))
    return tuple(out)


def prog(n):
    """every closed term with <= n nodes, simplest first"""
    out = []
    for k in range(1, n + 1):
        out.extend(terms(k, 0, None))
    return out


def size(t):
    return 1 + sum(size(c) for c in t[1:] if isinstance(c, tuple))


@functools.lru_cache(maxsize=200000)
def has_tail_recur(t):
    """is there a recur in tail position of t (so t itself must stay in tail position and cannot be wrapped in a marker)?"""
    tag = t[0]
    if tag == "recur":
        return True
    if tag == "if":
        return has_tail_recur(t[2]) or has_tail_recur(t[3])
    if tag in ("do", "let"):
        return has_tail_recur(t[2])
    return False


# ----------------------------------------------------------------------------- printing

NAMING = {
    "plain": ["x", "y", "z", "w", "u", "v"],
    "hostile": ["a-b", "a_b", "x?", "x__Q__", "*v*", "v'"],
    "reserved": ["print", "class", "str", "pass", "import", "lambda"],
}
GLOBAL = {"plain": "g", "hostile": "g-h?", "reserved": "global"}


def to_text(t, naming="plain", trace=False):
    """Lisp text of a term. trace=True wraps every sub-expression in (tr k ...) with k = pre-order index."""
    names = NAMING[naming]
    counter = [0]

    def w(s):
        return s

    def go(t, depth, wrap=True):
        k = counter[0]
        counter[0] += 1
        tag = t[0]
        if tag == "nil":
            s = "nil"
        elif tag == "one":
            s = "1"
        elif tag == "var":
            s = names[t[1]]
        elif tag == "gref":
            s = GLOBAL[naming]
        elif tag == "throw":
            s = "(throw (python/ValueError))"
        elif tag == "if":
            s = f"(if {go(t[1], depth)} {go(t[2], depth)} {go(t[3], depth)})"
        elif tag == "do":
            s = f"(do {go(t[1], depth)} {go(t[2], depth)})"
        elif tag == "let":
            s = f"(let* [{names[depth]} {go(t[1], depth)}] {go(t[2], depth + 1)})"
        elif tag == "loop":
            s = f"(loop* [{names[depth]} {go(t[1], depth)}] {go(t[2], depth + 1)})"
        elif tag == "fn0":
            s = f"(fn* [] {go(t[1], depth)})"
        elif tag == "fn1":
            s = f"(fn* [{names[depth]}] {go(t[1], depth + 1)})"
        elif tag == "call0":
            s = f"({go(t[1], depth)})"
        elif tag == "call1":
            s = f"({go(t[1], depth)} {go(t[2], depth)})"
        elif tag == "recur":
            # recur must stay in tail position: only its argument is wrapped
            return f"(recur {go(t[1], depth)})"
        elif tag == "try":
            s = f"(try {go(t[1], depth)} (catch python/ValueError {names[depth]} {go(t[2], depth + 1)}))"
        elif tag == "finally":
            s = f"(try {go(t[1], depth)} (finally {go(t[2], depth)}))"
        elif tag == "def":
            s = f"(def {GLOBAL[naming]} {go(t[1], depth)})"
        elif tag == "vec":
            s = f"[{go(t[1], depth)} {go(t[2], depth)}]"
        else:
            raise ValueError(t)
        if trace and not has_tail_recur(t):
            return f"(tr {k} {s})"
        return s

    return go(t, 0)


# ----------------------------------------------------------------------------- reference evaluator


class RefExc(Exception):
    def __init__(self, cls):
        self.cls = cls


class Diverges(Exception):
    pass


class Closure:
    __slots__ = ("arity", "body", "env")

    def __init__(self, arity, body, env):
        self.arity, self.body, self.env = arity, body, env


class VarRef:
    __slots__ = ("box",)

    def __init__(self, box):
        self.box = box


class Recur(Exception):
    def __init__(self, val):
        self.val = val


class Ref:
    """Big-step evaluator. trace=True logs the pre-order index of every sub-expression when its value is produced."""

    def __init__(self, budget=400, trace=False):
        self.budget = budget
        self.trace = trace
        self.log = []
        self.glob = [None, False]  # value, defined?
        self.counter = 0

    def tick(self):
        self.budget -= 1
        if self.budget < 0:
            raise Diverges()

    def run(self, t):
        """-> ('ok', value) | ('exc', class-name); raises Diverges"""
        self.counter = 0
        self.index = {}
        self._number(t)
        try:
            return ("ok", self.ev(t, (), None))
        except RefExc as e:
            return ("exc", e.cls)

    def _number(self, t):
        self.index[id(t)] = None

    def ev(self, t, env, _):
        # pre-order numbering identical to to_text(): assign on first visit by structural walk
        return self._ev(t, env, [0])

    def _ev(self, t, env, ctr):
        self.tick()
        k = ctr[0]
        ctr[0] += 1
        tag = t[0]

        def sub(child, env2=env):
            return self._ev(child, env2, ctr)

        def skip(child):
            ctr[0] += size(child)

        def done(v):
            if self.trace and not has_tail_recur(t):
                self.log.append(k)
            return v

        if tag == "nil":
            return done(None)
        if tag == "one":
            return done(1)
        if tag == "var":
            return done(env[t[1]])
        if tag == "throw":
            raise RefExc("ValueError")
        if tag == "if":
            c = sub(t[1])
            if c is not None and c is not False:
                v = sub(t[2])
                skip(t[3])
            else:
                skip(t[2])
                v = sub(t[3])
            return done(v)
        if tag == "do":
            sub(t[1])
            return done(sub(t[2]))
        if tag == "let":
            v = sub(t[1])
            return done(sub(t[2], env + (v,)))
        if tag == "loop":
            v = sub(t[1])
            start = ctr[0]
            while True:
                self.tick()
                ctr[0] = start
                try:
                    r = self._ev(t[2], env + (v,), ctr)
                    break
                except Recur as rc:
                    v = rc.val
            ctr[0] = start + size(t[2])
            return done(r)
        if tag == "fn0":
            skip(t[1])
            return done(Closure(0, (t[1], k + 1), env))
        if tag == "fn1":
            skip(t[1])
            return done(Closure(1, (t[1], k + 1), env))
        if tag == "recur":
            v = sub(t[1])
            raise Recur(v)
        if tag == "call0":
            f = sub(t[1])
            return done(self.call(f, []))
        if tag == "call1":
            f = sub(t[1])
            a = sub(t[2])
            return done(self.call(f, [a]))
        if tag == "try":
            start = ctr[0]
            try:
                v = sub(t[1])
                skip(t[2])
                return done(v)
            except RefExc as e:
                if e.cls != "ValueError":
                    raise
                ctr[0] = start + size(t[1])
                v = sub(t[2], env + (("exc", "ValueError"),))
                return done(v)
        if tag == "finally":
            start = ctr[0]
            try:
                v = sub(t[1])
            except (RefExc, Recur):
                ctr[0] = start + size(t[1])
                sub(t[2])
                raise
            sub(t[2])
            return done(v)
        if tag == "gref":
            if not self.glob[1]:
                raise RefExc("Unbound")
            return done(self.glob[0])
        if tag == "def":
            v = sub(t[1])
            self.glob[0] = v
            self.glob[1] = True
            return done(VarRef(self.glob))
        if tag == "vec":
            a = sub(t[1])
            b = sub(t[2])
            return done(("vec", a, b))
        raise ValueError(t)

    def call(self, f, args):
        self.tick()
        if isinstance(f, VarRef):
            return self.call(f.box[0], args)
        if isinstance(f, Closure):
            if f.arity != len(args):
                raise RefExc("CallError")
            body, k0 = f.body
            env = f.env + tuple(args)
            while True:
                self.tick()
                try:
                    return self._ev(body, env, [k0])
                except Recur as rc:
                    if f.arity != 1:
                        raise RefExc("CallError")
                    env = f.env + (rc.val,)
        if isinstance(f, tuple) and f and f[0] == "vec":
            if len(args) != 1:
                raise RefExc("CallError")
            i = args[0]
            if isinstance(i, int) and not isinstance(i, bool):
                if 0 <= i < 2:
                    return f[1 + i]
                raise RefExc("IndexError")
            raise RefExc("CallError")
        raise RefExc("CallError")  # nil, 1, exception objects are not callable


def canon_ref(v):
    """canonical comparable form of a reference value"""
    if v is None:
        return "nil"
    if v is True or v is False:
        return str(v).lower()
    if isinstance(v, int):
        return f"int:{v}"
    if isinstance(v, Closure):
        return "fn"
    if isinstance(v, VarRef):
        return "var"
    if isinstance(v, tuple) and v and v[0] == "vec":
        return "[" + " ".join(canon_ref(x) for x in v[1:]) + "]"
    if isinstance(v, tuple) and v and v[0] == "exc":
        return "exc:" + v[1]
    if isinstance(v, str):
        return "kw:" + v
    return repr(v)


# ----------------------------------------------------------------------------- model of the known defect F-02


class HoistRef(Ref):
    """Model of the code generator's *dependency hoisting* (known finding F-02).

    The generator emits, for every form, a list of dependency statements plus one residual Python
    expression.  Forms that need statements (if, let* bindings, loop*, try, throw, fn* definitions, recur)
    do their work when the dependency statements run; calls, vector literals, def and the bodies of do/let*
    leave a residual expression that is evaluated later, left to right, when the enclosing statement is
    finally executed.  Consequently a compound argument is evaluated *before* an earlier plain argument
    (or the callee) of the same call.  `_d(t, env, ctr)` runs the dependency phase of t and returns a thunk
    for its residual expression."""

    def run(self, t):
        try:
            th = self._d(t, (), [0])
            return ("ok", th())
        except RefExc as e:
            return ("exc", e.cls)

    def _d(self, t, env, ctr):  # noqa: C901
        self.tick()
        k = ctr[0]
        ctr[0] += 1
        tag = t[0]

        def sub(child, env2=env):
            return self._d(child, env2, ctr)

        def skip(child):
            ctr[0] += size(child)

        def wrap(th):
            if not self.trace or has_tail_recur(t):
                return th

            def logged():
                v = th()
                self.log.append(k)
                return v

            return logged

        def const(v):
            return wrap(lambda: v)

        if tag == "nil":
            return const(None)
        if tag == "one":
            return const(1)
        if tag == "var":
            v = env[t[1]]
            return const(v)
        if tag == "throw":
            raise RefExc("ValueError")
        if tag == "if":
            c = sub(t[1])()
            if c is not None and c is not False:
                v = sub(t[2])()
                skip(t[3])
            else:
                skip(t[2])
                v = sub(t[3])()
            return const(v)
        if tag == "do":
            sub(t[1])()
            th = sub(t[2])
            return wrap(th)
        if tag == "let":
            v = sub(t[1])()
            th = sub(t[2], env + (v,))
            return wrap(th)
        if tag == "loop":
            v = sub(t[1])()
            start = ctr[0]
            while True:
                self.tick()
                ctr[0] = start
                try:
                    r = self._d(t[2], env + (v,), ctr)()
                    break
                except Recur as rc:
                    v = rc.val
            ctr[0] = start + size(t[2])
            return const(r)
        if tag == "fn0":
            skip(t[1])
            return const(Closure(0, (t[1], k + 1), env))
        if tag == "fn1":
            skip(t[1])
            return const(Closure(1, (t[1], k + 1), env))
        if tag == "recur":
            v = sub(t[1])()
            raise Recur(v)
        if tag == "call0":
            f = sub(t[1])
            return wrap(lambda: self.call(f(), []))
        if tag == "call1":
            f = sub(t[1])
            a = sub(t[2])

            def th():
                fv = f()
                av = a()
                return self.call(fv, [av])

            return wrap(th)
        if tag == "try":
            start = ctr[0]
            try:
                v = sub(t[1])()
                skip(t[2])
            except RefExc as e:
                if e.cls != "ValueError":
                    raise
                ctr[0] = start + size(t[1])
                v = sub(t[2], env + (("exc", "ValueError"),))()
            return const(v)
        if tag == "finally":
            start = ctr[0]
            try:
                v = sub(t[1])()
            except (RefExc, Recur):
                ctr[0] = start + size(t[1])
                sub(t[2])()
                raise
            sub(t[2])()
            return const(v)
        if tag == "gref":
            return wrap(lambda: self.glob[0])  # a name: read when the residual expression is evaluated
        if tag == "def":
            v = sub(t[1])()  # the init value is bound by a statement (dependency time)
            self.glob[0] = v
            self.glob[1] = True
            return const(VarRef(self.glob))
        if tag == "vec":
            a = sub(t[1])
            b = sub(t[2])
            return wrap(lambda: ("vec", a(), b()))
        raise ValueError(t)

    def call(self, f, args):
        self.tick()
        if isinstance(f, VarRef):
            return self.call(f.box[0], args)
        if isinstance(f, Closure):
            if f.arity != len(args):
                raise RefExc("CallError")
            body, k0 = f.body
            env = f.env + tuple(args)
            while True:
                self.tick()
                try:
                    return self._d(body, env, [k0])()
                except Recur as rc:
                    if f.arity != 1:
                        raise RefExc("CallError")
                    env = f.env + (rc.val,)
        return super().call(f, args)
