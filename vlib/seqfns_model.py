"""Reference definitions of the 18 sequence functions of property C07 (plain Python generators).

Model values: nil = None, booleans = bool, integers = int, keywords = the interned keyword object,
every sequential value = a Python list.  Truthiness and equality follow the language definition
(only nil and false are falsey; a boolean never equals a number; sequentials compare elementwise),
NOT Python's (where 0 == False).  Each stage takes an *iterator* and is lazy: it pulls an input only
when it needs it, so running a pipeline over an infinite generator shows how many inputs the
definition needs (used to decide which pipelines terminate on an infinite input).

`drain=True` makes the early-terminating stages exhaust their upstream after they are done; that is
only used to find out whether any element that an eager evaluation strategy could meet is ill-typed
for `cat`/`mapcat` (IllTyped), so that such cases are left out instead of judged.
"""
from __future__ import annotations


class IllTyped(Exception):
    """cat/mapcat met an element that is not a collection: the reference is undefined."""


def truthy(x):
    return not (x is None or x is False)


def eq(a, b):
    if isinstance(a, list) or isinstance(b, list):
        return isinstance(a, list) and isinstance(b, list) and len(a) == len(b) and all(eq(x, y) for x, y in zip(a, b))
    if isinstance(a, bool) or isinstance(b, bool):
        return isinstance(a, bool) and isinstance(b, bool) and a is b
    if a is None or b is None:
        return a is b
    return type(a) is type(b) and a == b


def eq_python(a, b):
    """Model of defect F-05b: direct members of a set are compared like Python does (False == 0, True == 1)."""
    if isinstance(a, list) or isinstance(b, list):
        return eq(a, b)
    if a is None or b is None:
        return a is b
    if isinstance(a, (bool, int)) and isinstance(b, (bool, int)):
        return a == b
    return eq(a, b)


def _drain(it):
    for _ in it:
        pass


def m_map(f, it, **kw):
    for x in it:
        yield f(x)


def m_filter(p, it, **kw):
    for x in it:
        if truthy(p(x)):
            yield x


def m_remove(p, it, **kw):
    for x in it:
        if not truthy(p(x)):
            yield x


def m_keep(f, it, **kw):
    for x in it:
        v = f(x)
        if v is not None:
            yield v


def m_keep_indexed(f, it, **kw):
    for i, x in enumerate(it):
        v = f(i, x)
        if v is not None:
            yield v


def m_map_indexed(f, it, **kw):
    for i, x in enumerate(it):
        yield f(i, x)


def m_take(n, it, drain=False, push=False, **kw):
    if n <= 0 and push:
        # a transducer can only end a reduction from inside a step: (take 0) needs one input to say so
        next(it, None)
    if n > 0:
        for i, x in enumerate(it):
            yield x
            if i + 1 >= n:
                break
    if drain:
        _drain(it)


def m_take_while(p, it, drain=False, **kw):
    for x in it:
        if not truthy(p(x)):
            break
        yield x
    if drain:
        _drain(it)


def m_take_nth(n, it, **kw):
    for i, x in enumerate(it):
        if i % n == 0:
            yield x


def m_drop(n, it, **kw):
    for i, x in enumerate(it):
        if i >= n:
            yield x


def m_drop_while(p, it, **kw):
    dropping = True
    for x in it:
        if dropping and truthy(p(x)):
            continue
        dropping = False
        yield x


def m_interpose(sep, it, **kw):
    first = True
    for x in it:
        if not first:
            yield sep
        first = False
        yield x


def m_partition_all(n, it, **kw):
    buf = []
    for x in it:
        buf.append(x)
        if len(buf) == n:
            yield buf
            buf = []
    if buf:
        yield buf


def m_partition_by(f, it, **kw):
    buf, prev = [], None
    for x in it:
        k = f(x)
        if buf and not eq(k, prev):
            yield buf
            buf = []
        buf.append(x)
        prev = k
    if buf:
        yield buf


def m_distinct(it, same=eq, **kw):
    seen = []
    for x in it:
        if not any(same(x, s) for s in seen):
            seen.append(x)
            yield x


def m_dedupe(it, **kw):
    first, prev = True, None
    for x in it:
        if first or not eq(x, prev):
            yield x
        first, prev = False, x


def _items(c):
    if c is None:
        return ()
    if not isinstance(c, list):
        raise IllTyped(repr(c))
    return c


def m_mapcat(f, it, **kw):
    for x in it:
        yield from _items(f(x))


def m_cat(it, **kw):
    for x in it:
        yield from _items(x)


# name -> (reference, takes a parameter)
REFERENCE = {
    "map": (m_map, True),
    "filter": (m_filter, True),
    "remove": (m_remove, True),
    "keep": (m_keep, True),
    "keep-indexed": (m_keep_indexed, True),
    "map-indexed": (m_map_indexed, True),
    "take": (m_take, True),
    "take-while": (m_take_while, True),
    "take-nth": (m_take_nth, True),
    "drop": (m_drop, True),
    "drop-while": (m_drop_while, True),
    "interpose": (m_interpose, True),
    "partition-all": (m_partition_all, True),
    "partition-by": (m_partition_by, True),
    "distinct": (m_distinct, False),
    "dedupe": (m_dedupe, False),
    "mapcat": (m_mapcat, True),
    "cat": (m_cat, False),
}


def run_pipeline(stages, source, drain=False, distinct_same=eq, push=False):
    """stages: [(name, model_param)], applied left to right (= comp order) to the iterator `source`.

    push=True gives the demand of the same pipeline run as a transducer (elements are pushed, so a stage can stop the
    process only when an input reaches it); the produced elements are the same, only (take 0) needs an input."""
    it = iter(source)
    for name, param in stages:
        fn, has_param = REFERENCE[name]
        if name == "distinct":
            it = fn(it, same=distinct_same)
        elif has_param:
            it = fn(param, it, drain=drain, push=push)
        else:
            it = fn(it, drain=drain)
    return it
