#!/venv/bin/python
"""splitcommit.py list | commit "<msg>" <hunk numbers...>
Splits `git diff` of /repo into hunks so a working-tree change can be committed as several small commits."""
import subprocess, sys, re
def hunks():
    d = subprocess.run(["git","-C","/repo","diff","-U3"],capture_output=True,text=True).stdout
    out=[]; header=None
    for part in re.split(r'(?m)^(?=diff --git )', d):
        if not part.strip(): continue
        m = re.search(r'(?m)^@@', part)
        head, body = part[:m.start()], part[m.start():]
        for h in re.split(r'(?m)^(?=@@ )', body):
            if h.strip(): out.append((head,h))
    return out
hs=hunks()
if sys.argv[1]=="list":
    for i,(head,h) in enumerate(hs):
        f=re.search(r'\+\+\+ b/(\S+)',head).group(1)
        lines=[l for l in h.splitlines()[1:] if l[:1] in '+-']
        print(f"--- [{i}] {f} {h.splitlines()[0]}"); print("\n".join(lines[:8]))
else:
    msg=sys.argv[2]; sel=[int(x) for x in sys.argv[3:]]
    byfile={}
    for i in sel:
        head,h=hs[i]; byfile.setdefault(head,[]).append(h)
    patch="".join(head+"".join(v) for head,v in byfile.items())
    p=subprocess.run(["git","-C","/repo","apply","--cached","--recount","-"],input=patch,text=True,capture_output=True)
    if p.returncode: print(p.stderr); sys.exit(1)
    subprocess.run(["git","-C","/repo","commit","-q","-m",msg],check=True)
    print(subprocess.run(["git","-C","/repo","log","--oneline","-1"],capture_output=True,text=True).stdout)
