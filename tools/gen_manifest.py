#!/venv/bin/python
"""Generate MANIFEST.json from the check modules that exist (keeps it valid at all times)."""
import importlib, json, subprocess, sys
from pathlib import Path
HERE = Path(__file__).resolve().parent.parent
sys.path.insert(0, str(HERE))
props = [json.loads(l) for l in (HERE / "properties.jsonl").read_text().splitlines() if l.strip()]
meta = json.loads((HERE / "tools" / "manifest_meta.json").read_text())
checks, na = [], []
for p in props:
    pid = p["id"]
    m = meta["checks"].get(pid)
    if m and (HERE / "checks" / f"{pid.lower()}.py").exists() and not m.get("disabled"):
        checks.append({
            "property_id": pid,
            "quick_cmd": f"/venv/bin/python run.py {pid} --tier quick",
            "thorough_cmd": f"/venv/bin/python run.py {pid} --tier thorough",
            "evidence_file": f"/verif/evidence/{pid}.json",
            "replay_cmd_template": f"/venv/bin/python run.py {pid} --replay {{path}}",
            "engine": m["engine"],
            "level_claimed": {"category": "model_checking", "text": m["text"], "design_ref": m.get("design_ref", f"DESIGN.md §5 {pid}")},
            "level_note": m["note"],
            "technique": m["technique"],
        })
    else:
        na.append({"property_id": pid, "reason": (m or {}).get("na_reason", meta["default_na_reason"])})
hooks = meta["hooks"]
man = {
    "version": 1,
    "setup_cmd": "/venv/bin/python tools/setup.py",
    "hooks": hooks,
    "engines": meta["engines"],
    "checks": checks,
    "notes": meta["notes"],
    "not_applicable": na,
}
(HERE / "MANIFEST.json").write_text(json.dumps(man, indent=1) + "\n")
print(f"{len(checks)} checks, {len(na)} not_applicable")
