#!/bin/bash
# thorough_sweep.sh [ids...] : run the thorough tier of each check in turn, one summary line per check in sweep.log
ids=${@:-C01 C02 C03 C04 C05 C07 C08 C09 C10 C14 C15 C16 C17 C18 C19 C20 C06 C11 C12 C13}
for c in $ids; do
  s=$(date +%s)
  VERIF_REPO=${VP_RUN_REPO:-/repo} /venv/bin/python run.py $c --tier thorough > sweep-$c.out 2>&1; rc=$?
  echo "$c rc=$rc wall=$(( $(date +%s) - s ))s $(tail -1 sweep-$c.out | cut -c1-220)" >> sweep.log
  grep -E "^(VIOLATION|HARNESS-ERROR|KNOWN-FINDING)" sweep-$c.out | cut -c1-300 | head -8 >> sweep.log
done
echo DONE >> sweep.log
