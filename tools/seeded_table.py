#!/venv/bin/python
"""Regenerates the table of seeded changes in DESIGN.md (between the SEEDED_TABLE markers) from seeded/*/meta.json."""
import json, re
from pathlib import Path
rows = []
for d in sorted(Path("/verif/seeded").iterdir(), key=lambda p: (p.name.split("-")[0], p.name)):
    m = json.loads((d / "meta.json").read_text())
    cr = m["check_run"]
    note = cr.get("note", "")
    low = note.lower()
    first = "caught"
    if "harness-error" in low:
        first = "harness error, then missed" if "missed" in low else "harness error"
    elif low.startswith("missed") or " missed" in low[:60] or "missed by the first" in low or "missed at first" in low:
        first = "missed"
    elif "only through part (c)" in low or "only by part (c)" in low:
        first = "caught (1 case)"
    summ = re.sub(r"\s+", " ", (m.get("summary") or "")).strip()
    if len(summ) > 150:
        summ = summ[:147] + "..."
    res = re.sub(r"\s+", " ", cr["result"])
    res = re.sub(r"^\[C\d+\] quick: ", "", res)
    after = res if first != "caught" else ""
    rows.append(f"| {d.name} | {summ.replace('|', '/')} | {first if first != 'caught' else 'caught: ' + res.replace('|', '/')} | {after.replace('|', '/')} |")
p = Path("/verif/DESIGN.md")
s = p.read_text()
block = "<!-- SEEDED_TABLE_BEGIN -->\n" + "\n".join(rows) + "\n<!-- SEEDED_TABLE_END -->"
if "SEEDED_TABLE\n" in s:
    s = s.replace("SEEDED_TABLE\n", block + "\n")
else:
    s = re.sub(r"<!-- SEEDED_TABLE_BEGIN -->.*?<!-- SEEDED_TABLE_END -->", lambda _: block, s, flags=re.S)
p.write_text(s)
print(len(rows), "rows")
