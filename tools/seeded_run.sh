#!/bin/bash
# seeded_run.sh <seeded id> [tier] : run the check of a seeded change against a scratch worktree of /repo HEAD carrying
# the change (never /repo itself); evidence and replays of that run go to /var/tmp/seeded-run-<id>/, removed with the worktree.
id=$1; tier=${2:-quick}; prop=${id%%-*}
wt=/var/tmp/seeded-run-wt-$id; out=/var/tmp/seeded-run-$id
rm -rf $wt $out; git -C /repo worktree prune
git -C /repo worktree add -q --detach $wt HEAD || exit 2
git -C $wt apply /verif/seeded/$id/patch.diff || { echo "PATCH DOES NOT APPLY"; exit 2; }
cd /verif && VERIF_REPO=$wt VERIF_OUT=$out /venv/bin/python run.py $prop --tier $tier; rc=$?
git -C /repo worktree remove --force $wt; rm -rf $out
exit $rc
