#!/venv/bin/python
"""Run the repository's pinned test suite (guard off) and compare with /root/.vp/BASELINE.json.
usage: suite.py [-n WORKERS] [pytest args...]   exit 0 iff every stable-baseline test passed."""
import ast, json, os, subprocess, sys, tempfile, xml.etree.ElementTree as ET

def main():
    n = "8"
    args = sys.argv[1:]
    if args[:1] == ["-n"]:
        n = args[1]; args = args[2:]
    base = json.load(open("/root/.vp/BASELINE.json"))
    stable = base["stable_pass"]
    if isinstance(stable, str):
        stable = ast.literal_eval(stable)
    stable = set(stable)
    out = tempfile.mktemp(suffix=".xml", dir="/var/tmp")
    env = dict(os.environ)
    env.pop("BASILISP_LANG_BASILISP_VERIF", None)
    cmd = ["/venv/bin/python", "-m", "pytest", "-q", "-p", "no:cacheprovider", "--timeout=900",
           "--continue-on-collection-errors", f"--junitxml={out}", "-n", n] + args
    p = subprocess.run(cmd, cwd="/repo", env=env, capture_output=True, text=True)
    print(p.stdout[-3000:])
    passed = set(); failed = set()
    for tc in ET.parse(out).getroot().iter("testcase"):
        name = f"{tc.get('classname')}::{tc.get('name')}"
        bad = any(c.tag in ("failure", "error", "skipped") for c in tc)
        (failed if bad else passed).add(name)
    os.unlink(out)
    missing = sorted(stable - passed)
    print(f"baseline={len(stable)} passed_now={len(passed)} baseline_not_passed={len(missing)}")
    for m in missing[:60]:
        print("  MISSING", m)
    return 1 if missing else 0

sys.exit(main())
