#!/bin/bash
# seeded_all.sh [ids...] : run the quick tier of the owning check against a scratch tree carrying each seeded change;
# one line per change in /var/tmp/seeded-all.log (DETECTED = the check exited 1 with VIOLATION lines)
ids=${@:-$(ls /verif/seeded)}
for id in $ids; do
  out=$(/verif/tools/seeded_run.sh $id quick 2>&1); rc=$?
  n=$(echo "$out" | grep -c '^VIOLATION')
  echo "$id rc=$rc $([ $rc -eq 1 ] && [ $n -gt 0 ] && echo DETECTED || echo NOT-DETECTED) $(echo "$out" | tail -1 | cut -c1-200)" >> /var/tmp/seeded-all.log
done
echo DONE >> /var/tmp/seeded-all.log
