#!/bin/bash
# seeded_confirm.sh <id> <dir with patch.diff demo.py meta.json>  -> /var/tmp/seeded-<id>.log
# Confirms an independent property-breaking change: demo passes on the clean tree, fails with the patch,
# and the pinned suite still passes with the patch. Uses a scratch worktree of /repo HEAD, removed afterwards.
id=$1; src=$2
wt=/var/tmp/seeded-wt-$id
log=/var/tmp/seeded-$id.log
rm -rf $wt; git -C /repo worktree prune
git -C /repo worktree add -q --detach $wt HEAD || exit 2
native() { so=$(cd /verif && VERIF_REPO=$wt /venv/bin/python -c "from vlib import env; print(env.ensure_native())" | tail -1); cp $so $wt/src/basilisp/_lang.abi3.so; }  # built from the tree's own rust sources
native
mkdir -p $wt/OUT; cp $src/demo.py $wt/OUT/
cd $wt
{
echo "== demo on clean tree"; PYTHONPATH=$wt/src timeout 1800 /venv/bin/python OUT/demo.py 2>&1 | tail -2; echo "exit=${PIPESTATUS[0]}"
git apply $src/patch.diff || echo "PATCH DOES NOT APPLY"
native
echo "== demo with patch"; PYTHONPATH=$wt/src timeout 1800 /venv/bin/python OUT/demo.py 2>&1 | tail -2; echo "exit=${PIPESTATUS[0]}"
echo "== suite with patch"
} > $log 2>&1
unset BASILISP_LANG_BASILISP_VERIF
PYTHONPATH=$wt/src /venv/bin/python -m pytest -q -p no:cacheprovider --timeout=2400 --continue-on-collection-errors --junitxml=/var/tmp/seeded-$id.xml > /var/tmp/seeded-$id.out 2>&1
/venv/bin/python - "$id" <<'PY' >> $log 2>&1
import ast, json, sys, xml.etree.ElementTree as ET
i = sys.argv[1]
base = json.load(open("/root/.vp/BASELINE.json")); stable = base["stable_pass"]
if isinstance(stable, str): stable = ast.literal_eval(stable)
stable = set(stable); passed = set()
for tc in ET.parse(f"/var/tmp/seeded-{i}.xml").getroot().iter("testcase"):
    if not any(c.tag in ("failure", "error", "skipped") for c in tc):
        passed.add(f"{tc.get('classname')}::{tc.get('name')}")
missing = sorted(stable - passed)
print(f"baseline={len(stable)} passed_now={len(passed)} baseline_not_passed={len(missing)}")
for m in missing[:20]: print("  MISSING", m)
PY
tail -1 /var/tmp/seeded-$id.out >> $log
cd /; git -C /repo worktree remove --force $wt; rm -f /var/tmp/seeded-$id.xml /var/tmp/seeded-$id.out
