#!/bin/bash
# seeded_intake.sh <prop> <n> : take a sub-agent's OUT dir from /var/tmp/seed<n>-<prop>, drop its worktree, start the
# confirmation (demo clean/patched + whole suite) and the owning check against a scratch tree, both in the background.
p=$1; n=${2:-3}; id=$p-$n; wt=/var/tmp/seed$n-$p; out=/var/tmp/seed$n-out-$p
rm -rf $out; cp -r $wt/OUT $out || exit 2
git -C /repo worktree remove --force $wt
mkdir -p /verif/seeded/$id; cp $out/patch.diff $out/demo.py /verif/seeded/$id/
nohup /verif/tools/seeded_confirm.sh $id $out > /dev/null 2>&1 &
nohup bash -c "/verif/tools/seeded_run.sh $id quick > /var/tmp/seeded-check-$id.log 2>&1; echo rc=\$? >> /var/tmp/seeded-check-$id.log" > /dev/null 2>&1 &
echo started $id
