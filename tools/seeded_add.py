#!/venv/bin/python
"""seeded_add.py <id> <src OUT dir> <check result line> [strengthened note]
Copies an independent property-breaking change into /verif/seeded/<id>/ and records what was run."""
import json, shutil, sys, os, re
from pathlib import Path
i, src, result = sys.argv[1], Path(sys.argv[2]), sys.argv[3]
note = sys.argv[4] if len(sys.argv) > 4 else ""
prop = i.split("-")[0]  # "C03-2" = second independent change for C03
dst = Path("/verif/seeded") / i
dst.mkdir(parents=True, exist_ok=True)
shutil.copy(src / "patch.diff", dst / "patch.diff")
shutil.copy(src / "demo.py", dst / "demo.py")
meta = json.loads((src / "meta.json").read_text()) if (src / "meta.json").exists() else {}
log = Path(f"/var/tmp/seeded-{i}.log")
confirm = log.read_text() if log.exists() else "(confirmation run pending)"
meta = {
    "breaks_property": prop,
    "author": "fresh sub-agent given only the property text and its own worktree (nothing from /verif)",
    "summary": meta.get("summary"),
    "needs_to_manifest": meta.get("needs"),
    "files": meta.get("files"),
    "agent_tests_run": meta.get("tests_run"),
    "agent_demo_with_change": meta.get("demo_with_change"),
    "agent_demo_without_change": meta.get("demo_without_change"),
    "lead_confirmation": {
        "how": "tools/seeded_confirm.sh: scratch worktree of /repo HEAD; demo on the clean tree, demo with the patch, whole pinned suite with the patch (compared with /root/.vp/BASELINE.json)",
        "log": confirm[-1500:],
    },
    "check_run": {
        "how": f"git -C /repo apply seeded/{i}/patch.diff; /venv/bin/python run.py {prop} --tier quick; git -C /repo checkout -- .",
        "result": result,
        "note": note,
    },
}
(dst / "meta.json").write_text(json.dumps(meta, indent=1))
print("wrote", dst)
