#!/bin/bash
# seeded_retest.sh <id> <src dir> <pytest node ids...> : re-run single tests with a seeded patch applied and append the result to
# /var/tmp/seeded-<id>.log.  For tests that only failed because another pytest session ran in the same venv at the same time
# (the repository's CLI tests install a transient basilispbootstrap.pth, which makes the basilisp pytest plugin push thread bindings
# in pytest_configure; tests.basilisp.runtime_test::test_pop_thread_bindings then finds a frame to pop).
id=$1; src=$2; shift 2
wt=/var/tmp/seeded-wt-$id-re
rm -rf $wt; git -C /repo worktree prune
git -C /repo worktree add -q --detach $wt HEAD || exit 2
cp /repo/src/basilisp/_lang.abi3.so $wt/src/basilisp/ 2>/dev/null
cd $wt; git apply $src/patch.diff || echo "PATCH DOES NOT APPLY" >> /var/tmp/seeded-$id.log
unset BASILISP_LANG_BASILISP_VERIF
echo "== re-run alone (no other pytest session in the venv): $*" >> /var/tmp/seeded-$id.log
PYTHONPATH=$wt/src /venv/bin/python -m pytest -q -p no:cacheprovider "$@" 2>&1 | tail -1 >> /var/tmp/seeded-$id.log
cd /; git -C /repo worktree remove --force $wt
