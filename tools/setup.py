#!/venv/bin/python
"""setup_cmd: build the native module of /repo's current tree into /verif/.cache (offline) and
make sure the framework imports.  Everything else is plain Python and needs no build."""
import sys
from pathlib import Path
sys.path.insert(0, str(Path(__file__).resolve().parent.parent))
from vlib import env
so = env.ensure_native(verbose=True)
print("native module:", so)
