#!/bin/bash
# Run the pinned suite against a snapshot of /repo HEAD in a scratch worktree (so /repo can be edited meanwhile).
# usage: suite_wt.sh <tag>   -> log in /var/tmp/suite-<tag>.log
tag=${1:-x}
wt=/var/tmp/suite-wt-$tag
rm -rf $wt; git -C /repo worktree prune
git -C /repo worktree add -q --detach $wt HEAD || exit 2
cp /repo/src/basilisp/_lang.abi3.so $wt/src/basilisp/ 2>/dev/null
cd $wt
unset BASILISP_LANG_BASILISP_VERIF
start=$(date +%s)
PYTHONPATH=$wt/src /venv/bin/python -m pytest -q -p no:cacheprovider --timeout=900 --continue-on-collection-errors --junitxml=/var/tmp/suite-$tag.xml > /var/tmp/suite-$tag.out 2>&1
/venv/bin/python - "$tag" <<'PY' > /var/tmp/suite-$tag.log 2>&1
import ast, json, sys, xml.etree.ElementTree as ET
tag = sys.argv[1]
base = json.load(open("/root/.vp/BASELINE.json"))
stable = base["stable_pass"]
if isinstance(stable, str): stable = ast.literal_eval(stable)
stable = set(stable)
passed = set()
for tc in ET.parse(f"/var/tmp/suite-{tag}.xml").getroot().iter("testcase"):
    if not any(c.tag in ("failure", "error", "skipped") for c in tc):
        passed.add(f"{tc.get('classname')}::{tc.get('name')}")
missing = sorted(stable - passed)
print(f"baseline={len(stable)} passed_now={len(passed)} baseline_not_passed={len(missing)}")
for m in missing[:80]: print("  MISSING", m)
PY
echo "head=$(git rev-parse --short HEAD) wall=$(( $(date +%s) - start ))s" >> /var/tmp/suite-$tag.log
tail -3 /var/tmp/suite-$tag.out >> /var/tmp/suite-$tag.log
cd /; git -C /repo worktree remove --force $wt
