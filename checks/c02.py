"""C02 — sub-expressions are evaluated left to right, exactly once.

Engine C: the program corpus of C01 with EVERY sub-expression wrapped in an effect marker `(tr k e)`
(k = pre-order index); the trace observed on the real compiler output must equal the trace of the
reference evaluator (order, exactly-once, never on untaken branches).  Plus the table of compound forms
in every argument position of calls / collection literals / recur / interop calls against every sibling kind.
"""
from __future__ import annotations

import itertools

from vlib import env, progs
from vlib.evidence import Result
from checks import c01

PROPERTY = "C02"
LEVEL = "model_checking"
BOUNDS = {
    "quick": "traced PROG(4) in 3 contexts + traced PROG(5) at top level (default options); compound-form x position x sibling table for calls (fn value, Var, Python builtin, interop method) with 1-3 args, vector and list construction and recur (7 forms x 3 positions x 4 sibling kinds per arity); traced skeleton families (holes <=2)",
    "thorough": "traced PROG(5) in 7 contexts under 2 option sets + traced PROG(6) at top level; table with 1-4 args; families (holes <=3)",
}
RULE = (
    "engine C: every term of the corpus with all sub-expressions wrapped in (tr k .) is compiled and run; the list of k's logged must equal the reference "
    "evaluator's list (left-to-right, each sub-expression on the taken path once, none on untaken branches); distinct = (term, context, options); "
    "non-trivial = at least two markers logged"
)
ASSUMPTIONS = [
    "reference evaluator vlib/progs.py; a marker logs when the wrapped sub-expression has produced its value",
    "only the order of markers is compared (nothing is assumed about when constants or locals are loaded)",
    "known finding F-02 (dependency hoisting) is recognised by a model of the generator's statement/expression split (progs.HoistRef): only traces equal to that model's trace are attributed to it",
]

_LOGS = {}


def run_traced(text, optkey):
    ev = c01.evaluator(optkey)
    log = _LOGS.get(optkey)
    if log is None:
        from basilisp.lang import symbol as sym

        log = _LOGS[optkey] = ev.ns.find(sym.symbol("trlog")).value
    del log[:]
    try:
        v = ("ok", c01.canon_impl(ev.eval(text)))
    except BaseException as e:  # noqa
        if isinstance(e, (KeyboardInterrupt, SystemExit)):
            raise
        v = ("exc", c01.exc_class(e))
    return v, list(log)


def ref_traced(term, cls=progs.Ref):
    try:
        R = cls(trace=True)
        r = R.run(term)
    except (progs.Diverges, RecursionError):
        return None
    r = ("ok", progs.canon_ref(r[1])) if r[0] == "ok" else r
    return r, list(R.log)


# context wrappers for traced programs: markers of the context itself use keys >= 900
TCONTEXTS = {
    "top": ("{P}", lambda log, r: log),
    "fn-body": ("((fn* [] {P}))", lambda log, r: log),
    "statement": ("(do {P} (tr 901 :after))", lambda log, r: log + ([901] if r[0] == "ok" else [])),
    "call-arg-mid": ("(vector (tr 900 :l) {P} (tr 902 :r))", lambda log, r: [900] + log + ([902] if r[0] == "ok" else [])),
    "let-init": ("(let* [q9 {P}] (tr 901 q9))", lambda log, r: log + ([901] if r[0] == "ok" else [])),
    "if-test": ("(if {P} (tr 901 :t) (tr 902 :f))", lambda log, r: log + ([] if r[0] != "ok" else ([902] if r[1] in ("nil", "false") else [901]))),
    "call-arg": ("(id {P})", lambda log, r: log),
}


def check_term(res, term, contexts, optsets, family):
    ref = ref_traced(term)
    if ref is None:
        res.part("skipped", diverging_in_reference=1)
        return
    r, rlog = ref
    hoist = None
    text = progs.to_text(term, "plain", trace=True)
    for ctx in contexts:
        tmpl, fexp = TCONTEXTS[ctx]
        full = tmpl.replace("{P}", text)
        exp_log = fexp(rlog, r)
        for opts in optsets:
            optkey = tuple(sorted(opts.items()))
            got, glog = run_traced(full, optkey)
            res.evaluations += 1
            res.transitions += len(glog)
            if len(exp_log) >= 2:
                res.distinct_count += 1
            res.outcomes.add((got[0], len(glog)))
            if glog != exp_log:
                if hoist is None:
                    hoist = ref_traced(term, progs.HoistRef) or ()
                expl = ""
                if hoist:
                    hr, hlog = hoist
                    if ctx == "call-arg-mid":
                        # in (vector (tr 900 :l) P (tr 902 :r)) P's dependency statements run before (tr 900 :l)
                        hexp = _hoist_mid(term, hr)
                    else:
                        hexp = fexp(hlog, hr)
                    if hexp is not None and glog == hexp:
                        expl = "dependency-hoisting(F-02)"
                if not expl and c01.has_closure_under_recur_target(term):
                    late = ref_traced(term, c01.LateRef)
                    if late is None:
                        if got == ("exc", "RecursionError"):
                            expl = "closure-sees-loop-local-rebound-by-later-recur"
                    elif glog == fexp(late[1], late[0]):
                        expl = "closure-sees-loop-local-rebound-by-later-recur"
                kind = "effect-trace-differs"
                res.fail(kind, {"term": repr(term), "text": full, "context": ctx, "options": dict(opts), "family": family},
                         got=glog, expected=exp_log, outcome=list(got), explained_by=expl)


def _hoist_mid(term, hr):
    """trace predicted by the hoisting model for (vector (tr 900 :l) P (tr 902 :r))"""
    try:
        R = progs.HoistRef(trace=True)
        th = R._d(term, (), [0])
        deps_log = list(R.log)
        R.log.append(900)
        try:
            th()
            R.log.append(902)
        except progs.RefExc:
            pass
        return list(R.log)
    except progs.RefExc:
        return list(R.log)
    except (progs.Diverges, RecursionError):
        return None


# ----------------------------------------------------------------------------- position table

FORMS = {
    "if": "(if (tr {a} true) (tr {b} :x) (tr {c} :y))",
    "let": "(let* [q (tr {a} 1)] (tr {b} q))",
    "do": "(do (tr {a} 1) (tr {b} 2))",
    "try": "(try (tr {a} 1) (catch python/ValueError _ (tr {b} 2)))",
    "try-finally": "(try (tr {a} 1) (finally (tr {b} 2)))",
    "loop": "(loop* [q (tr {a} nil)] (if q (tr {b} q) (recur (tr {c} 1))))",
    "letfn": "(letfn* [ff (fn* ff [] (tr {a} 1))] (tr {b} (ff)))",
}
FORM_TRACE = {
    "if": lambda a, b, c: [a, b],
    "let": lambda a, b, c: [a, b],
    "do": lambda a, b, c: [a, b],
    "try": lambda a, b, c: [a],
    "try-finally": lambda a, b, c: [a, b],
    "loop": lambda a, b, c: [a, c, b],
    "letfn": lambda a, b, c: [a, b],
}
SIBLINGS = {
    "const": ("7", lambda k: []),
    "local": ("loc", lambda k: []),
    "call": ("(tr {k} 5)", lambda k: [k]),
    "compound": ("(if (tr {k} nil) 1 (tr {k2} 2))", lambda k: [k, k + 1]),
}
HOSTS = {
    "call": lambda args: "(hostf " + " ".join(args) + ")",
    "var-call": lambda args: "((var hostf) " + " ".join(args) + ")",
    "vector": lambda args: "[" + " ".join(args) + "]",
    "list": lambda args: "(list " + " ".join(args) + ")",
    "interop-method": lambda args: "(.hostm hostobj " + " ".join(args) + ")",
    # the first element is the TARGET of the method call (wrapped so that it evaluates to the host object), the rest its arguments
    "interop-target": lambda args: "(.hostm (do " + args[0] + " hostobj) " + " ".join(args[1:]) + ")",
    "python-fn": lambda args: "(python/max 0 " + " ".join(f"(do {a} 1)" for a in args) + ")",
    "recur": lambda args: "(loop* [go true " + " ".join(f"r{i} nil" for i in range(len(args))) + "] (if go (recur false " + " ".join(args) + ") :done))",
}


class _Host:
    def hostm(self, *xs):
        return len(xs)


def ensure_host(ev):
    from basilisp.lang import runtime, symbol as sym

    ev.eval("(def hostf (fn* [& xs] (count xs)))")
    runtime.Var.intern(ev.ns, sym.symbol("hostobj"), _Host())


def table_cases(max_arity):
    for host in HOSTS:
        for arity in range(1, max_arity + 1):
            for pos in range(arity):
                for form in FORMS:
                    for sibs in itertools.product(SIBLINGS, repeat=arity - 1):
                        yield host, arity, pos, form, sibs


def build_table_case(host, arity, pos, form, sibs):
    k = 10
    args = []
    exp = []
    sib_iter = iter(sibs)
    for i in range(arity):
        if i == pos:
            a, b, c = k, k + 1, k + 2
            k += 3
            args.append(FORMS[form].format(a=a, b=b, c=c))
            exp += FORM_TRACE[form](a, b, c)
        else:
            sk = next(sib_iter)
            tmpl, f = SIBLINGS[sk]
            args.append(tmpl.format(k=k, k2=k + 1))
            exp += f(k)
            k += 2
    text = f"(let* [loc 3] {HOSTS[host](args)})"
    return text, exp


def table_hoist_prediction(host, arity, pos, form, sibs):
    """F-02 model for the table: every compound argument (the form under test and 'compound' siblings) runs completely, in
    order, before any plain-call sibling; then the plain calls run in order."""
    k = 10
    first, later = [], []
    sib_iter = iter(sibs)
    for i in range(arity):
        if i == pos:
            a, b, c = k, k + 1, k + 2
            k += 3
            tr = FORM_TRACE[form](a, b, c)
            if host == "interop-target" and i == 0:
                first += tr  # statement position inside the wrapping (do .. hostobj): everything is a dependency statement
            elif form == "letfn":
                # letfn* only defines functions in its dependency statements: its body stays a residual expression
                later += tr
            elif form in ("do", "let"):
                # do / let* leave their last expression as the residual: only the earlier part is hoisted
                first += tr[:-1]
                later += tr[-1:]
            else:
                first += tr
        else:
            sk = next(sib_iter)
            tr = SIBLINGS[sk][1](k)
            if sk == "compound" or (host == "interop-target" and i == 0):
                first += tr
            else:
                later += tr
            k += 2
    return first + later


def table_shard(args):
    shard, nshards, max_arity, optsets = args
    res = Result()
    n = 0
    for idx, case in enumerate(table_cases(max_arity)):
        if idx % nshards != shard:
            continue
        host, arity, pos, form, sibs = case
        text, exp = build_table_case(*case)
        for opts in optsets:
            optkey = tuple(sorted(opts.items()))
            ev = c01.evaluator(optkey)
            if not getattr(ev.ns, "_c02_host", False):
                ensure_host(ev)
                ev.ns._c02_host = True
            got, glog = run_traced(text, optkey)
            n += 1
            res.evaluations += 1
            res.transitions += len(glog)
            res.distinct_count += 1
            res.outcomes.add((host, got[0], tuple(glog) == tuple(exp)))
            if got[0] != "ok":
                res.fail("table-form-raises", {"text": text, "host": host, "arity": arity, "pos": pos, "form": form, "siblings": list(sibs), "options": dict(opts)}, outcome=list(got))
            elif glog != exp:
                expl = "dependency-hoisting(F-02)" if glog == table_hoist_prediction(*case) and host != "python-fn" else ""
                res.fail("effect-trace-differs", {"text": text, "host": host, "arity": arity, "pos": pos, "form": form, "siblings": list(sibs), "options": dict(opts)},
                         got=glog, expected=exp, explained_by=expl)
    res.part(f"table/arity<={max_arity}", cases=n)
    return res.compact()


def corpus_shard(args):
    kind, shard, nshards, n, contexts, optsets = args
    res = Result()
    items = [("prog", t) for t in progs.prog(n)] if kind == "prog" else c01.families(n)
    for idx, (family, t) in enumerate(items):
        if idx % nshards != shard:
            continue
        check_term(res, t, contexts, optsets, family)
    res.part(f"traced-{kind}({n})/ctx={len(contexts)}/opts={len(optsets)}", terms=len(items) if shard == 0 else 0)
    if shard == 0 and kind == "prog":
        t = items[-1][1]
        res.sample({"text": progs.to_text(t, "plain", True), "reference_trace": (ref_traced(t) or [None, None])[1]})
    return res.compact()


def _job(j):
    return table_shard(j[1]) if j[0] == "table" else corpus_shard(j[1])


def run(tier, seed):
    res = Result()
    default = [c01.OPTION_SETS[0]]
    two = [c01.OPTION_SETS[0], c01.OPTION_SETS[-1]]
    jobs = []
    if tier == "quick":
        nsh = 32
        jobs += [("corpus", ("prog", s, nsh, 4, ["top", "fn-body", "call-arg-mid"], default)) for s in range(nsh)]
        jobs += [("corpus", ("prog", s, nsh, 5, ["top"], default)) for s in range(nsh)]
        jobs += [("corpus", ("fam", s, 8, 2, ["top", "statement"], default)) for s in range(8)]
        jobs += [("table", (s, 16, 3, default)) for s in range(16)]
    else:
        nsh = 64
        jobs += [("corpus", ("prog", s, nsh, 5, list(TCONTEXTS), two)) for s in range(nsh)]
        jobs += [("corpus", ("prog", s, nsh, 6, ["top"], default)) for s in range(nsh)]
        jobs += [("corpus", ("fam", s, 32, 3, list(TCONTEXTS), two)) for s in range(32)]
        jobs += [("table", (s, 64, 4, two)) for s in range(64)]
    k = seed % len(jobs)
    jobs = jobs[k:] + jobs[:k]
    for r in env.parallel(_job, jobs):
        res.merge(r)
    return res


def replay(failure):
    case = failure["case"]
    optkey = tuple(sorted(case["options"].items()))
    ev = c01.evaluator(optkey)
    if "host" in case and not getattr(ev.ns, "_c02_host", False):
        ensure_host(ev)
        ev.ns._c02_host = True
    got, glog = run_traced(case["text"], optkey)
    if failure["kind"] == "table-form-raises":
        return dict(failure) if got[0] != "ok" else None
    if glog != failure["expected"]:
        f = dict(failure)
        f["got"] = glog
        return f
    return None
