"""C09 — syntax-quote is hygienic and destructuring binds what nth / nthnext / get would return.

Engine C (finite program universes), two halves:

  destructure   every pattern of a bounded grammar (vector patterns with 0-2 positional sub-patterns, `& rest` as a symbol or a
                pattern, `:as`; map patterns with `:keys` / `:strs` / `:syms` plain and namespaced (`:keys [p/n]`, `:p/keys [n]`),
                explicit `pattern key` entries with keyword / string / symbol / integer keys, `:or` defaults, `:as`), nested to depth
                2 / 3, compiled at four binding sites (let, fn parameter, loop with one recur, fn rest parameter = keyword
                arguments for map patterns) as the form itself AND as its `macroexpand`, and called on every value of a family
                derived from the pattern (conforming, too short, too long, nil, wrongly typed, falsey elements, seq forms of the
                keyword-argument rule, and each of these at every nested position).  Oracle: vlib/destructure_model.bind, a
                recursive walk of the pattern over basilisp's OWN nth / nthnext / get.
  syntax-quote  every template of a bounded grammar (symbols of six kinds, auto-gensyms, ~u, ~'sym, ~@s, a nested template with
                its own gensym environment, constants; inside list / vector / set / map) read in three namespace states, compiled
                there into a function, called while a FOURTH namespace (in which every involved name means something else) is
                current, compared with the reference quasi-quote evaluator (vlib/syntaxquote_model.expect), and — for the
                evaluable fragment — evaluated as code in that fourth namespace.
"""
from __future__ import annotations

import itertools
import logging
import os

from vlib import destructure_model as dm
from vlib import env
from vlib import syntaxquote_model as sq
from vlib.evidence import Result

PROPERTY = "C09"
LEVEL = "model_checking"
BOUNDS = {
    "quick": (
        "destructuring, 2,037 patterns: the symbol pattern; ALL depth-1 patterns = 12 vector patterns (0-2 positional x [& rest] x [:as]) + 552 "
        "map patterns (every multiset of <= 2 entries over 22 entry variants {:keys [n], :keys [p/n], :p/keys [n], :strs [n], :syms [n], "
        ":syms [p/n], :p/syms [n], n :k, n \"s\", n 'q, n 0} x {no default, :or default}, x [:as]); depth 2 = all 202 one-hole contexts (hole at "
        "any positional / rest / entry position of a depth-1 pattern) x 2 patterns + 2 two-hole contexts x 8 x 8 patterns (532) + 16 contexts x "
        "58 depth-1 patterns (896); 44 patterns with an effectful :or default.  Binding sites: let, fn parameter, loop with one recur, fn rest "
        "parameter (keyword arguments for map patterns), each as form and as macroexpansion, for the 1-entry patterns; let + fn (+ macroexpansion "
        "at let) for 2-entry maps; 4 sites (+ macroexpansion at let) for the 532; let only for the 896.  12-60 values per pattern and site.  "
        "syntax-quote, 2,398 templates: 22 leaves alone; all list / vector / set / map templates of width <= 2 over 12 main leaves (538) + 10 "
        "further leaves alone and next to 3 siblings (240); depth 2 = 17 one-hole contexts (alone, before / after x# and ~@s) x 94 inner "
        "collections; each read in 3 namespace states (+ a second read for templates with gensyms), called with 3 value variants while a 4th "
        "namespace is current, evaluable ones also evaluated there"
    ),
    "thorough": (
        "destructuring, 48,463 patterns: depth <= 1 as quick (all 4 sites, form and macroexpansion); depth 2 = 202 contexts x 58 depth-1 "
        "patterns + two-hole contexts (11,844; 4 sites + macroexpansion at let) + 16 contexts x all 564 depth-1 patterns (8,096; let + fn + "
        "macroexpansion at let); depth 3 = 16 x 16 contexts x 58 patterns + 202 x 6 contexts x 4 patterns (19,440) + 4 x 4 contexts x 564 "
        "patterns (8,474), at the let site.  syntax-quote, 33,794 templates: depth 1 adds width-3 lists / vectors / sets over the 12 main "
        "leaves and 2-entry maps over 6 leaves (5,534); depth 2 = 31 contexts (alone, before / after each of 4 siblings) x all 538 depth-1 "
        "collections of width <= 2 (16,678); depth 3 = 17 x 17 contexts x 40 collections of width <= 1 (11,560)"
    ),
}
RULE = (
    "engine C: a destructuring case is (pattern, binding site, form | macroexpansion, value); a pattern is distinct by its text after "
    "canonical renaming; every case inside the bound is executed on the compiled form and compared, name by name, with the reference "
    "destructurer (identity or basilisp = with equal type); a wrongly-typed value must raise the exception class nth / nthnext raise on it. "
    "A syntax-quote case is (template, namespace state, value variant); the expanded form is compared structurally with the reference "
    "quasi-quote evaluator (qualified symbols, one fresh symbol per x# per read, unquoted objects by identity, collection types) and, when "
    "evaluable, its value in a foreign namespace with the value the reference assigns.  non-trivial = every case (each pattern / template "
    "reaches the expander with a different shape)"
)
ASSUMPTIONS = [
    "nth (with nil default), nthnext, get (with the :or default), seq?, map?, assoc and hash-map of basilisp.core are primitives of the reference destructurer",
    "names in a pattern are pairwise distinct (a pattern binding one name twice is not generated)",
    "a map pattern applied to a seq value pours the seq into a map (one element: that element); an odd seq of > 1 elements outside a function rest "
    "parameter, odd keyword arguments, and the :as binding for an EMPTY seq are not fixed by the property or the documentation: observed, not judged",
    "effect counts of :or default expressions are observed (evidence part or-default-effects), not judged; the effect trace of a form and of its macroexpansion must agree",
    "syntax-quote: special forms and `&` stay unqualified; a qualified symbol whose namespace part is not an alias stays as written; a list template "
    "may evaluate to any ISeq; a list whose elements all vanish through empty splices may be nil or empty, a literally empty list must be an empty list",
    "gensym freshness is judged per read of a template (two reads of one text give different symbols); one compiled template giving the same "
    "symbol at every call is measured and accepted (read-time gensyms, as in Clojure)",
]

# ============================================================================================================================
# destructuring: the pattern universe
# ============================================================================================================================

H = ["hole"]
S_ = ["sym", "_"]
KEYS = {"kw": ["kw", None, "k"], "str": ["str", "s"], "sym": ["sym", None, "q"], "int": ["int", 0]}


def entry_variants():
    out = []
    for d in (None, "const"):
        out += [
            ["keys", "plain", "_", d], ["keys", "nsname", "_", d], ["keys", "nsgroup", "_", d], ["strs", "_", d],
            ["syms", "plain", "_", d], ["syms", "nsname", "_", d], ["syms", "nsgroup", "_", d],
        ]  # fmt: skip
        out += [["ent", S_, KEYS[k], d] for k in ("kw", "str", "sym", "int")]
    return out


def vec1():
    return [["vec", [S_] * n, r, a] for n in (0, 1, 2) for r in (None, S_) for a in (None, "_")]


def maps_upto(n_entries):
    ev = entry_variants()
    out = []
    for k in range(n_entries + 1):
        for combo in itertools.combinations_with_replacement(ev, k):
            for a in (None, "_"):
                out.append(["map", [list(e) for e in combo], a])
    return out


def rich1():
    return vec1() + maps_upto(2)


def mid1():
    return vec1() + maps_upto(1)


def lean1():
    return [
        ["vec", [S_], None, None],
        ["vec", [S_, S_], None, None],
        ["vec", [S_], S_, None],
        ["vec", [], S_, "_"],
        ["map", [["keys", "plain", "_", None]], None],
        ["map", [["ent", S_, KEYS["kw"], "const"]], None],
        ["map", [["strs", "_", None]], "_"],
        ["map", [["ent", S_, KEYS["sym"], None]], None],
    ]


def lean4():
    return [
        ["vec", [S_, S_], None, None],
        ["vec", [S_], S_, "_"],
        ["map", [["keys", "plain", "_", "const"]], None],
        ["map", [["ent", S_, KEYS["sym"], None]], "_"],
    ]


def ctx16():
    e = lambda k: ["ent", H, KEYS[k], None]  # noqa
    return [
        ["vec", [H], None, None], ["vec", [H, S_], None, None], ["vec", [S_, H], None, None], ["vec", [H], S_, None],
        ["vec", [S_], H, None], ["vec", [], H, None], ["vec", [H], None, "_"], ["vec", [], H, "_"], ["vec", [S_, S_], H, None],
        ["map", [e("kw")], None], ["map", [e("str")], None], ["map", [e("sym")], None], ["map", [e("int")], None],
        ["map", [e("kw")], "_"], ["map", [e("kw"), ["keys", "plain", "_", None]], None], ["map", [e("kw"), ["keys", "plain", "_", "const"]], None],
    ]  # fmt: skip


def ctxlean6():
    e = lambda k: ["ent", H, KEYS[k], None]  # noqa
    return [
        ["vec", [H], None, None], ["vec", [S_, H], None, None], ["vec", [], H, None],
        ["map", [e("kw")], None], ["map", [e("int")], "_"], ["map", [e("str"), ["keys", "plain", "_", "const"]], None],
    ]  # fmt: skip


def ctxlean4():
    c = ctxlean6()
    return [c[0], c[2], c[3], c[4]]


def allctx():
    out = []
    for n in (1, 2):
        for pos in range(n):
            for r in (None, S_):
                for a in (None, "_"):
                    out.append(["vec", [H if i == pos else S_ for i in range(n)], r, a])
    for n in (0, 1, 2):
        for a in (None, "_"):
            out.append(["vec", [S_] * n, H, a])
    for k in ("kw", "str", "sym", "int"):
        for other in [None] + entry_variants():
            for a in (None, "_"):
                out.append(["map", [["ent", H, KEYS[k], None]] + ([list(other)] if other else []), a])
    return out


def twohole():
    return [["vec", [H, H], None, None], ["map", [["ent", H, KEYS["kw"], None], ["ent", H, KEYS["str"], None]], None]]


def fill(ctx, subs):
    """Replace the holes of ctx (in order) by the patterns in subs (a list that is consumed)."""
    if ctx == H:
        return subs.pop(0)
    t = ctx[0]
    if t == "sym":
        return ctx
    if t == "vec":
        ch = [fill(c, subs) for c in ctx[1]]
        r = fill(ctx[2], subs) if ctx[2] is not None else None
        return ["vec", ch, r, ctx[3]]
    ents = []
    for e in ctx[1]:
        if e[0] == "ent":
            ents.append(["ent", fill(e[1], subs), e[2], e[3]])
        else:
            ents.append(list(e))
    return ["map", ents, ctx[2]]


def rename(p, st=None):
    """Canonical names x1, x2, ... in pattern order; explicit keys get distinct indices; defaults become keywords :d-<name>."""
    st = st if st is not None else {"n": 0, "k": 0}

    def name():
        st["n"] += 1
        return f"x{st['n']}"

    def dflt(d, nm):
        if d is None:
            return None
        kind = d if isinstance(d, str) else d[0]
        spec = ["kw", None, f"d-{nm}"]
        return ["const", spec] if kind == "const" else ["tr", st["n"], spec]

    t = p[0]
    if t == "sym":
        return ["sym", name()]
    if t == "vec":
        ch = [rename(c, st) for c in p[1]]
        r = rename(p[2], st) if p[2] is not None else None
        return ["vec", ch, r, name() if p[3] is not None else None]
    ents = []
    for e in p[1]:
        if e[0] in ("keys", "syms"):
            nm = name()
            ents.append([e[0], e[1], nm, dflt(e[3], nm)])
        elif e[0] == "strs":
            nm = name()
            ents.append(["strs", nm, dflt(e[2], nm)])
        else:
            st["k"] += 1
            j = st["k"]
            key = list(e[2])
            if key[0] == "int":
                key = ["int", (j - 1) % 3]
            else:
                key[-1] = f"{key[-1]}{j}"
            sub = rename(e[1], st)
            ents.append(["ent", sub, key, dflt(e[3], sub[1]) if sub[0] == "sym" else None])
    return ["map", ents, name() if p[2] is not None else None]


def lean2():
    return [["vec", [S_], S_, "_"], ["map", [["ent", S_, KEYS["sym"], "const"]], "_"]]


ALL_SITES = ("let", "fn", "loop", "rest")
# family -> (binding sites, sites at which the macroexpansion is compiled and compared as well)
PLAN = {
    "quick": {
        "depth0": (ALL_SITES, ALL_SITES),
        "depth1-small": (ALL_SITES, ALL_SITES),
        "effects": (ALL_SITES, ALL_SITES),
        "depth1-pairs": (("let", "fn"), ("let",)),
        "depth2-allctx": (ALL_SITES, ("let",)),
        "depth2-ctx16": (("let",), ()),
    },
    "thorough": {
        "depth0": (ALL_SITES, ALL_SITES),
        "depth1-small": (ALL_SITES, ALL_SITES),
        "effects": (ALL_SITES, ALL_SITES),
        "depth1-pairs": (ALL_SITES, ALL_SITES),
        "depth2-allctx": (ALL_SITES, ("let",)),
        "depth2-ctx16": (("let", "fn"), ("let",)),
        "depth3-ctx16": (("let",), ()),
        "depth3-lean": (("let",), ()),
    },
}


def pattern_universe(tier):
    """[(family, pattern)] simplest first, distinct by text (a pattern belongs to the first family that produces it)."""
    fams = [("depth0", [S_]), ("depth1-small", mid1()), ("depth1-pairs", rich1())]
    if tier == "quick":
        d2a = [fill(c, [p]) for c in allctx() for p in lean2()]
        d2a += [fill(c, [p, q]) for c in twohole() for p in lean1() for q in lean1()]
        d2b = [fill(c, [p]) for c in ctx16() for p in mid1()]
    else:
        d2a = [fill(c, [p]) for c in allctx() for p in mid1()]
        d2a += [fill(c, [p, q]) for c in twohole() for p in lean1() for q in lean1()]
        d2b = [fill(c, [p]) for c in ctx16() for p in rich1()]
    fams += [("depth2-allctx", d2a), ("depth2-ctx16", d2b)]
    if tier == "thorough":
        d3a = [fill(c, [fill(c2, [p])]) for c in ctx16() for c2 in ctx16() for p in mid1()]
        d3a += [fill(c, [fill(c2, [p])]) for c in allctx() for c2 in ctxlean6() for p in lean4()]
        d3b = [fill(c, [fill(c2, [p])]) for c in ctxlean4() for c2 in ctxlean4() for p in rich1()]
        fams += [("depth3-ctx16", d3a), ("depth3-lean", d3b)]
    seen = set()
    out = []
    for fam, ps in fams:
        for p in ps:
            q = rename(p)
            txt = dm.render(q)
            if txt in seen:
                continue
            seen.add(txt)
            out.append((fam, q))
    return out


def effect_universe():
    """Patterns with an effectful :or default `(tr i d)` for each entry variant, at nesting depth 0, 1 and 2."""
    out = []
    for e in entry_variants():
        if (e[3] if e[0] != "strs" else e[2]) is None:
            continue
        e = list(e)
        e[-1] = "tr"
        base = ["map", [e], None]
        for ctx in (H, ["vec", [H], None, None], ["map", [["ent", H, KEYS["kw"], None]], None], ["vec", [["vec", [S_, H], None, None]], None, None]):
            out.append(("effects", rename(fill(ctx, [base]))))
    return out


# ============================================================================================================================
# destructuring: execution
# ============================================================================================================================

_D: dict = {}
SITES = ALL_SITES


def d_state():
    if "ns" not in _D:
        from basilisp.lang import symbol as sym

        logging.getLogger("basilisp").setLevel(logging.ERROR)
        ns = env.fresh_ns("verif.c09.d")
        env.Evaluator(ns=ns).eval("(def LOG (python/list)) (defn tr [i v] (.append LOG i) v)")
        _D["ns"] = ns
        _D["LOG"] = ns.find(sym.symbol("LOG")).value
        _D["pr"] = dm.Prims(env.core_fn)
        _D["macroexpand"] = env.core_fn("macroexpand")
    return _D


def site_text(p, site):
    """(wrapper head or None, form text) — the form is what `macroexpand` is applied to."""
    names = " ".join(dm.bound_names(p))
    pt = dm.render(p)
    if site == "let":
        return "[v]", f"(let [{pt} v] [{names}])"
    if site == "fn":
        return None, f"(fn [{pt}] [{names}])"
    if site == "loop":
        return "[i v]", f"(loop [{pt} i n 0] (if (< n 1) (recur v (inc n)) [{names}]))"
    if site == "rest":
        return None, f"(fn [& {pt}] [{names}])"
    raise KeyError(site)


def compile_site(p, site, expanded):
    from basilisp.lang import list as llist, reader, runtime, symbol as sym

    st = d_state()
    ns = st["ns"]
    head, text = site_text(p, site)
    ev = env.Evaluator(ns=ns)
    if not expanded:
        return ev.eval(f"(fn* {head} {text})" if head else text)
    with runtime.ns_bindings(ns.name):
        form = next(iter(reader.read_str(text, resolver=runtime.resolve_alias)))
        exp = st["macroexpand"](form)
        if head:
            params = next(iter(reader.read_str(head)))
            exp = llist.l(sym.symbol("fn*"), params, exp)
    return ev.eval_form(exp)


def call_site(f, site, value):
    st = d_state()
    log = st["LOG"]
    del log[:]
    try:
        if site == "loop":
            r = f(None, value)
        elif site == "rest":
            r = f(*([] if value is None else list(value)))
        else:
            r = f(value)
        out = ("ok", list(r))
    except Exception as e:  # noqa
        out = ("exc", type(e).__name__)
    trace = tuple(log)
    del log[:]
    return out, trace


def strict_eq(a, b, pr):
    from basilisp.lang.interfaces import ISeq

    if a is b:
        return True
    if a is None or b is None:
        return False
    if isinstance(a, ISeq) and isinstance(b, ISeq):
        return bool(pr.eq(a, b))
    if type(a) is not type(b):
        return False
    try:
        return bool(pr.eq(a, b))
    except Exception:  # noqa
        return False


def brief(x):
    try:
        s = env.core_fn("pr-str")(x)
    except Exception:  # noqa
        s = repr(x)
    return s[:120]


def site_values(p, site):
    vals = dm.variants(p)
    if site == "rest":
        vals = [(l, s) for l, s in vals if s[0] in ("vec", "list", "lazy", "nil")]
    return vals


def default_value(d):
    return dm.build(d[1] if d[0] == "const" else d[2])


def check_pattern(res, fam, p, sites=SITES, only=None, expand_sites=SITES):
    """Compile p at each site (form and macroexpansion) and run every value.  `only` = (site, value label) for replay."""
    st = d_state()
    pr = st["pr"]
    names = dm.bound_names(p)
    text = dm.render(p)
    res.distinct.add(("d", text))
    for site in sites:
        if site == "rest" and p[0] == "sym":
            continue
        if only and only[0] != site:
            continue
        case0 = {"part": "destructure", "family": fam, "pattern": p, "text": text, "site": site}
        fns = {}
        failed = False
        for expanded in (False, True):
            if expanded and site not in expand_sites:
                continue
            try:
                fns[expanded] = compile_site(p, site, expanded)
                res.transitions += 1
            except Exception as e:  # noqa
                res.fail("compile-error", dict(case0, value=None, label="-"), expanded=expanded, exc=type(e).__name__, msg=str(e)[:160])
                res.outcomes.add(("compile-error", type(e).__name__))
                failed = True
                break
        if failed:
            continue
        nfail = 0
        for label, spec in site_values(p, site):
            if only and only[1] != label:
                continue
            case = dict(case0, value=spec, label=label, value_text=dm.show(spec))
            ref = dm.reference(p, site, dm.build(spec), pr, default_value)
            got, trace = call_site(fns[False], site, dm.build(spec))
            res.evaluations += 1
            res.outcomes.add((site, label.split("/")[-1], ref[0], got[0], got[1] if got[0] == "exc" else len(got[1])))
            bad = None
            if ref[0] == "undecided":
                res.part("destructure/undecided", **{ref[1] + ":" + (got[0] if got[0] == "ok" else got[1]): 1})
            elif ref[0] == "exc":
                if got != ref:
                    bad = ("exception-mismatch", {"expected": f"raises {ref[1]}", "got": got[1] if got[0] == "exc" else [brief(x) for x in got[1]]})
            elif got[0] == "exc":
                bad = ("binding-mismatch", {"expected": {n: brief(ref[1][n]) for n in names}, "got": f"raises {got[1]}"})
            else:
                wrong = [n for n, x in zip(names, got[1]) if not isinstance(ref[1][n], dm.Unjudged) and not strict_eq(x, ref[1][n], pr)]
                if len(got[1]) != len(names):
                    wrong = names
                if wrong:
                    bad = (
                        "binding-mismatch",
                        {"names": wrong, "expected": {n: brief(ref[1][n]) for n in wrong}, "got": {n: brief(x) for n, x in zip(names, got[1]) if n in wrong}},
                    )
            if bad and nfail < 3:
                nfail += 1
                res.fail(bad[0], case, **bad[1])
            if trace:
                res.part("or-default-effects", **{f"{fam}:{len(trace)}-evaluations-of-one-default": 1})
            if True in fns:
                got2, trace2 = call_site(fns[True], site, dm.build(spec))
                res.evaluations += 1
                same = got2[0] == got[0] and trace2 == trace
                if same and got[0] == "exc":
                    same = got2[1] == got[1]
                elif same:
                    same = len(got2[1]) == len(got[1]) and all(strict_eq(x, y, pr) for x, y in zip(got[1], got2[1]))
                if not same and nfail < 3:
                    nfail += 1
                    res.fail(
                        "macroexpansion-differs",
                        case,
                        form=[brief(x) for x in got[1]] if got[0] == "ok" else got[1],
                        expansion=[brief(x) for x in got2[1]] if got2[0] == "ok" else got2[1],
                        traces=[list(trace), list(trace2)],
                    )


_UNI: dict = {}


def get_universe(kind, tier):
    """Computed once (in the parent, before forking)."""
    if (kind, tier) not in _UNI:
        _UNI[(kind, tier)] = (pattern_universe(tier) + effect_universe()) if kind == "d" else template_universe(tier)
    return _UNI[(kind, tier)]


def site_plan(tier, fam):
    return PLAN[tier][fam]


def d_shard(arg):
    tier, idx, n = arg
    res = Result()
    uni = get_universe("d", tier)
    mine = uni[idx::n]
    counts: dict = {}
    for fam, p in mine:
        sites, expand_sites = site_plan(tier, fam)
        check_pattern(res, fam, p, sites=sites, expand_sites=expand_sites)
        counts[fam] = counts.get(fam, 0) + 1
    for fam, c in counts.items():
        res.part(f"destructure/{fam}", patterns=c)
    if idx == 0:
        fam, p = mine[min(40, len(mine) - 1)]
        res.sample({"pattern": dm.render(p), "sites": list(SITES), "values": [dm.show(s) for _, s in dm.variants(p)][:6]})
    return res.compact()


# ============================================================================================================================
# syntax-quote: the template universe
# ============================================================================================================================

MAIN = [
    ["sym", "vector"], ["sym", "loc"], ["sym", "al/x"], ["sym", "if"], ["sym", "zzz"], ["sym", "rname"],
    ["gs", "x"], ["gs", "y"], ["uq", ["param", 0]], ["uq", ["qsym", "loc"]], ["splice", 0], ["const", "7"],
]  # fmt: skip
EXTRA = [
    ["sym", "map"], ["sym", "basilisp.core/first"], ["sym", "&"], ["sym", "let*"], ["uq", ["param", 1]], ["splice", 1],
    ["uq", ["inner", "x"]], ["const", ":k"], ["const", '"s"'], ["const", "nil"],
]  # fmt: skip
SIB3 = [["gs", "x"], ["splice", 0], ["sym", "loc"]]
SIB2 = [["gs", "x"], ["splice", 0]]
SIB4 = SIB2 + [["sym", "loc"], ["uq", ["param", 0]]]
LEANL = [["sym", "loc"], ["gs", "x"], ["uq", ["param", 0]], ["splice", 0]]
TYPES = ("list", "vec", "set", "map")


def _ok(kind, elems):
    """Readable: no textual duplicates among set members / map keys, maps have an even number of forms."""
    if kind == "set":
        return len({sq.render(e) for e in elems}) == len(elems)
    if kind == "map":
        if len(elems) % 2:
            return False
        ks = [sq.render(e) for e in elems[0::2]]
        return len(set(ks)) == len(ks)
    return True


def colls(leaves, widths, kinds=TYPES):
    out = []
    for kind in kinds:
        for w in widths:
            if kind == "map" and w % 2:
                continue
            it = itertools.combinations(leaves, w) if kind == "set" else itertools.product(leaves, repeat=w)
            for elems in it:
                elems = [list(e) for e in elems]
                if _ok(kind, elems):
                    out.append([kind, elems])
    return out


def with_extra(extra, sibs):
    out = []
    for kind in TYPES:
        for e in extra:
            if kind != "map":
                out.append([kind, [e]])
            for s in sibs:
                for elems in ([e, s], [s, e]):
                    if kind == "set" and elems[0] is s:
                        continue
                    if _ok(kind, elems):
                        out.append([kind, [list(x) for x in elems]])
    return out


def contexts(sibs):
    """One-hole collection contexts: the hole alone, and next to each sibling at every position."""
    out = []
    for kind in TYPES:
        if kind != "map":
            out.append([kind, [H]])
        for s in sibs:
            if kind in ("list", "vec"):
                out += [[kind, [H, s]], [kind, [s, H]]]
            elif kind == "set":
                out.append([kind, [H, s]])
            else:
                out += [[kind, [H, s]], [kind, [s, H]]]
    return out


def tfill(ctx, sub):
    return [ctx[0], [sub if e == H else e for e in ctx[1]]]


def template_universe(tier):
    fams = [("depth0", [list(x) for x in MAIN + EXTRA])]
    d1 = colls(MAIN, (0, 1, 2)) + with_extra(EXTRA, SIB3)
    if tier == "thorough":
        d1 += colls(MAIN, (3,), ("list", "vec", "set")) + colls(LEANL + [["sym", "vector"], ["const", "7"]], (4,), ("map",))
    fams.append(("depth1", d1))
    inner110 = colls(MAIN, (0, 1)) + colls(LEANL, (2,))
    if tier == "quick":
        d2 = [tfill(c, i) for c in contexts(SIB2) for i in inner110]
    else:
        d2 = [tfill(c, i) for c in contexts(SIB4) for i in colls(MAIN, (0, 1, 2))]
    fams.append(("depth2", d2))
    if tier == "thorough":
        cs = contexts(SIB2)
        fams.append(("depth3", [tfill(c, tfill(c2, i)) for c in cs for c2 in cs for i in colls(MAIN, (0, 1))]))
    seen = set()
    out = []
    for fam, ts in fams:
        for t in ts:
            if t[0] in TYPES and not _ok(t[0], t[1]):
                continue
            txt = sq.render(t)
            if txt in seen:
                continue
            seen.add(txt)
            out.append((fam, t))
    return out


# ============================================================================================================================
# syntax-quote: execution
# ============================================================================================================================

_S: dict = {}
CORE_NAMES = ["vector", "map", "first", "seq", "concat", "list", "apply", "hash-map", "hash-set"]
STATE_NAMES = ("plain", "alias+refer", "shadow", "renamed-refer")


def s_state():
    """Namespaces (built through the runtime API, with the model written down next to each call):
    O, O2, OC: library namespaces holding x (and rname);   A1 plain, A2 alias+refer, A3 local Var shadowing a core name;
    C: the foreign namespace in which every involved name means something else."""
    if _S:
        return _S
    from basilisp.lang import keyword as kw, runtime, symbol as sym, vector as vec

    logging.getLogger("basilisp").setLevel(logging.ERROR)

    def tagged(tag):
        k = kw.keyword(tag)

        def f(*args):
            return vec.vector([k] + list(args))

        f.__name__ = "tagged_" + tag.replace("/", "_").replace(".", "_")
        return f

    def mk(prefix):
        return env.fresh_ns(prefix)

    def intern(ns, name):
        return runtime.Var.intern(ns, sym.symbol(name), tagged(f"{ns.name}/{name}"))

    O, O2, OC = mk("verif.c09.o"), mk("verif.c09.o2"), mk("verif.c09.oc")
    for o in (O, O2, OC):
        intern(o, "x")
        intern(o, "rname")
    A1, A2, A3, C = mk("verif.c09.a1"), mk("verif.c09.a2"), mk("verif.c09.a3"), mk("verif.c09.c")
    states = []
    # A1: plain — refers basilisp.core, one interned Var
    intern(A1, "loc")
    states.append({"ns": A1, "model": {"name": A1.name, "interned": ["loc"], "refers": {}, "aliases": {}, "core": CORE_NAMES}})
    # A2: alias al -> O, rname referred from O
    intern(A2, "loc")
    A2.add_alias(O, sym.symbol("al"))
    A2.add_refer(sym.symbol("rname"), O.find(sym.symbol("rname")))
    states.append({"ns": A2, "model": {"name": A2.name, "interned": ["loc"], "refers": {"rname": O.name}, "aliases": {"al": O.name}, "core": CORE_NAMES}})
    # A3: local Vars `vector` (shadowing the core name) and `rname`; alias al -> O2
    for n in ("loc", "vector", "rname"):
        intern(A3, n)
    A3.add_alias(O2, sym.symbol("al"))
    states.append({"ns": A3, "model": {"name": A3.name, "interned": ["loc", "vector", "rname"], "refers": {}, "aliases": {"al": O2.name}, "core": CORE_NAMES}})
    # A4: `rname` is a refer of O/x under ANOTHER name (as (refer 'o :rename '{x rname}) makes): in a template it denotes the Var O/x
    A4 = mk("verif.c09.a4")
    intern(A4, "loc")
    A4.add_alias(O, sym.symbol("al"))
    A4.add_refer(sym.symbol("rname"), O.find(sym.symbol("x")))
    states.append({"ns": A4, "model": {"name": A4.name, "interned": ["loc"], "refers": {"rname": (O.name, "x")}, "aliases": {"al": O.name}, "core": CORE_NAMES}})
    # C: everything means something else
    for n in ("loc", "vector", "rname", "zzz", "x", "map", "first"):
        intern(C, n)
    C.add_alias(OC, sym.symbol("al"))
    _S.update(states=states, C=C, tagged=tagged, seen=set(), same_across_calls=0, differs_across_calls=0)
    return _S


def variant_values(i):
    """(params, splices) — fresh objects at every call (lazy seqs are consumed)."""
    from basilisp.lang import keyword as kw, list as llist, symbol as sym, vector as vec

    if i == 0:  # self-evaluating values: the expansion can also be evaluated as code
        return [70001, kw.keyword("uk")], [llist.l(81, 82), vec.v(91)]
    if i == 1:
        return [sym.symbol("usym"), llist.l(sym.symbol("a"), sym.symbol("b"))], [None, dm.build(["lazy", [["int", 83], ["int", 84]]])]
    return [None, vec.v(1, vec.v(2))], [vec.v(), llist.l(None, sym.symbol("c"), 85)]


NVARIANTS = 3


def read_template(t, state):
    """Read `(fn* [u0 u1 s0 s1] `TEMPLATE)` in the namespace of `state`; returns the form."""
    from basilisp.lang import reader, runtime

    with runtime.ns_bindings(state["ns"].name):
        return next(iter(reader.read_str(f"(fn* [u0 u1 s0 s1] `{sq.render(t)})", resolver=runtime.resolve_alias)))


def resolved_duplicates(t, model):
    """True if some set literal (or the keys of some map literal) in template t has two symbol members that resolve to the
    same symbol in the namespace state `model`."""
    if not isinstance(t, (list, tuple)) or not t:
        return False
    if not isinstance(t[0], str):
        return any(resolved_duplicates(c, model) for c in t)
    if t[0] in ("set", "map") and len(t) > 1 and isinstance(t[1], (list, tuple)):
        members = list(t[1])[0::2] if t[0] == "map" else list(t[1])
        syms = [sq.resolve(m[1], model) for m in members if isinstance(m, (list, tuple)) and m and m[0] == "sym"]
        if len(syms) != len(set(syms)):
            return True
    return any(resolved_duplicates(c, model) for c in t[1:])


def lookup_var(ns, name):
    from basilisp.lang import runtime, symbol as sym

    n = runtime.Namespace.get(sym.symbol(ns))
    v = n.find(sym.symbol(name)) if n is not None else None
    if v is None:
        raise sq.NotEvaluable(f"no Var {ns}/{name}")
    return v.value


def check_template(res, fam, t, only=None, batch=None):
    """Read t in every namespace state (twice in the first, for freshness), compile, call with every value variant while C is
    current, compare with the reference; evaluate the evaluable ones in C.  `only` = (state name, variant) for replay."""
    from basilisp.lang import runtime, symbol as sym

    st = s_state()
    C = st["C"]
    text = sq.render(t)
    res.distinct.add(("s", text))
    has_gs = "#" in text
    reads = [(i, sname, False) for i, sname in enumerate(STATE_NAMES)] + ([(0, STATE_NAMES[0], True)] if has_gs else [])
    for si, sname, reread in reads:
        if only and only[0] != sname:
            continue
        state = st["states"][si]
        case0 = {"part": "syntax-quote", "family": fam, "template": t, "text": "`" + text, "state": sname}
        model = state["model"]
        # ---- read
        try:
            form = read_template(t, state)
            read_exc = None
        except Exception as e:  # noqa
            form, read_exc = None, type(e).__name__
        res.evaluations += 1
        if t[0] == "splice":
            res.outcomes.add(("read", read_exc))
            if read_exc != "SyntaxError":
                res.fail("splice-outside-collection-accepted", dict(case0, variant=None), got=read_exc)
            continue
        if read_exc == "SyntaxError" and resolved_duplicates(t, model):
            # two members of a set (or keys of a map) literal denote the same symbol in this state (`al/x` and a refer
            # renamed to the same Var): the literal has duplicate members once resolved, which the reader rejects, rightly
            res.outcomes.add(("read", "duplicate-after-resolution"))
            continue
        if read_exc:
            res.fail("read-error", dict(case0, variant=None), exc=read_exc)
            continue
        try:
            f = env.Evaluator(ns=state["ns"]).eval_form(form)
            res.transitions += 1
        except Exception as e:  # noqa
            res.fail("compile-error", dict(case0, variant=None), exc=type(e).__name__, msg=str(e)[:160])
            continue
        first_log = None
        for vi in range(NVARIANTS):
            if only and only[1] is not None and only[1] != vi:
                continue
            if reread and vi > 0:
                continue
            case = dict(case0, variant=vi, reread=reread)
            params, splices = variant_values(vi)
            try:
                exp = sq.expect(t, model, params, splices)
            except sq.SpliceError:
                exp = None
            try:
                with runtime.ns_bindings(C.name):
                    real = f(params[0], params[1], splices[0], splices[1])
                real_exc = None
            except Exception as e:  # noqa
                real, real_exc = None, type(e).__name__
            res.evaluations += 1
            if exp is None:
                res.outcomes.add(("must-raise", real_exc))
                if real_exc is None:
                    res.fail("malformed-expansion-accepted", case, got=brief(real))
                continue
            if real_exc:
                res.fail("expansion-raises", case, exc=real_exc)
                continue
            g = sq.match(real, exp)
            log = sorted(g.items()) if g is not None else []
            res.outcomes.add((t[0], sname, vi, g is not None, len(log)))
            if g is None:
                res.fail("expansion-mismatch", case, got=brief(real), expected=describe(exp))
                continue
            if first_log is None:
                first_log = log
                names = {n for _, n in log}
                stale = names & st["seen"]
                if stale:
                    res.fail("gensym-not-fresh", case, reused=sorted(stale))
                st["seen"] |= names
            else:
                if log == first_log:
                    st["same_across_calls"] += 1 if log else 0
                else:
                    st["differs_across_calls"] += 1
            # ---- hygiene: evaluate the form as code in C
            if vi == 0 and not reread:
                try:
                    want = realize(sq.evaluate(exp, lookup_var_with_zzz(state)))
                except sq.NotEvaluable:
                    continue
                except Exception:  # noqa: the reference value itself is an error (e.g. `(first 7)`): nothing to compare
                    continue
                zzz = sym.symbol("zzz")
                runtime.Var.intern(state["ns"], zzz, st["zzz_fn"][state["ns"].name])
                try:
                    got = realize(env.Evaluator(ns=C).eval_form(real))
                    got_exc = None
                except Exception as e:  # noqa
                    got, got_exc = None, f"{type(e).__name__}: {str(e)[:120]}"
                finally:
                    state["ns"].unmap(zzz)
                res.evaluations += 1
                res.part("syntax-quote/evaluated-in-foreign-ns", cases=1)
                if got_exc is None and callable(want) and hasattr(want, "__qualname__") and want is not got:
                    # a fresh closure (e.g. the transducer `(map f)`): only its origin can be compared
                    same = getattr(got, "__qualname__", None) == want.__qualname__
                else:
                    same = got_exc is None and type(got) is type(want) and env.core_fn("=")(got, want)
                if not same:
                    res.fail("hygiene", case, got=got_exc or brief(got), expected=brief(want), form=brief(real))


def realize(x):
    """Force lazy seqs (an error hidden in one surfaces here)."""
    from basilisp.lang import list as llist
    from basilisp.lang.interfaces import ISeq

    if isinstance(x, ISeq):
        return llist.list([realize(y) for y in x])
    return x


def lookup_var_with_zzz(state):
    """zzz is unresolvable when the template is read; it is defined (in the template's namespace) only while the
    expansion is evaluated — the forward reference a macro may make."""
    st = s_state()
    if "zzz_fn" not in st:
        st["zzz_fn"] = {s["ns"].name: st["tagged"](f"{s['ns'].name}/zzz") for s in st["states"]}
    ns_name = state["ns"].name

    def lookup(ns, name):
        if ns == ns_name and name == "zzz":
            return st["zzz_fn"][ns_name]
        return lookup_var(ns, name)

    return lookup


def describe(exp):
    k = exp[0]
    if k == "sym":
        return (exp[1] + "/" if exp[1] else "") + exp[2]
    if k == "gensym":
        return f"<gensym {exp[1]}>"
    if k in ("obj", "const"):
        return brief(exp[1])
    if k == "map":
        return "{" + " ".join(describe(e) for e in exp[1][0]) + "}"
    o, c = {"list": "()", "vec": "[]", "set": ("#{", "}")}[k]
    return o + " ".join(describe(e) for e in exp[1]) + c


def s_shard(arg):
    tier, idx, n = arg
    res = Result()
    uni = get_universe("s", tier)
    mine = uni[idx::n]
    counts: dict = {}
    for fam, t in mine:
        check_template(res, fam, t)
        counts[fam] = counts.get(fam, 0) + 1
    for fam, c in counts.items():
        res.part(f"syntax-quote/{fam}", templates=c)
    st = s_state()
    res.part(
        "syntax-quote/gensym-observations",
        distinct_gensyms=len(st["seen"]),
        same_symbol_at_every_call_of_one_compiled_template=st["same_across_calls"],
        different_symbol_between_calls=st["differs_across_calls"],
    )
    if idx == 0 and mine:
        fam, t = mine[min(30, len(mine) - 1)]
        res.sample({"template": "`" + sq.render(t), "states": list(STATE_NAMES), "variants": NVARIANTS})
    return res.compact()


# ============================================================================================================================


def both(arg):
    import resource
    import time

    t0 = time.time()
    r = d_shard(arg)
    t1 = time.time()
    r.merge(s_shard(arg))
    if os.environ.get("VERIF_C09_TIMING"):
        ru = resource.getrusage(resource.RUSAGE_SELF)
        r.notes.append(f"shard {arg[1]}: destructure {t1 - t0:.1f}s syntax-quote {time.time() - t1:.1f}s user {ru.ru_utime:.1f} sys {ru.ru_stime:.1f} minflt {ru.ru_minflt}")
    return r.compact()


def worker(arg):
    """One shard = the idx-th residue class of both universes: a forked child pays seconds of copy-on-write page faults for
    the inherited heap, so there is exactly one child per worker (env.parallel runs it under one large interpreter frame)."""
    return both(arg)


def run(tier, seed):
    res = Result()
    res.part("destructure/universe", patterns=len(get_universe("d", tier)))
    res.part("syntax-quote/universe", templates=len(get_universe("s", tier)))
    n = env.ncores()
    shards = [(tier, (i + seed) % n, n) for i in range(n)]
    for r in env.parallel(worker, shards):
        res.merge(r)
    return res


def replay(failure):
    case = failure["case"]
    r = Result()
    if case["part"] == "destructure":
        only = (case["site"], case["label"]) if case.get("label") not in (None, "-") else (case["site"], None)
        if only[1] is None:
            only = (case["site"], "\0none")  # compile only
        check_pattern(r, case["family"], case["pattern"], only=only)
    else:
        check_template(r, case["family"], case["template"], only=(case["state"], case.get("variant")))
    for f in r.failures:
        if f["kind"] == failure["kind"]:
            return f
    return None
