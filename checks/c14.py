"""C14 — cached namespace bytecode is transparent and never used when invalid.

Engine C (finite enumeration), executed in CHILD interpreters because the subject is the on-disk
cache and the string-hash seed of the loading process:

 (a) decoding layer: every prefix length 0..len of real cache files and every header perturbation is fed
     to the real `importer._get_basilisp_bytecode`; the outcome must be one of the exception types the
     loader's fallback catches (read from the source of `exec_module`), never a code list.
 (b) full import path: crash states of the cache are produced by the real `set_data` running against a
     byte-budgeted file (crash after k bytes), then a real `importlib.import_module` runs; a trace
     sentinel in every generated namespace tells whether the code that ran came from the cache or from
     the source (the source is swapped for a same-size/same-mtime variant with another tag).
 (c) hash seeds: writer seed x reader seed; the snapshot of a namespace loaded from the writer's cache in
     a process with the reader's seed must equal the snapshot of a from-source load under the reader's seed.

The parent process never imports basilisp (BOOTSTRAP = False).  Children run this very file:
`python c14.py child <job.json>` with PYTHONDONTWRITEBYTECODE/BASILISP_DO_NOT_CACHE_NAMESPACES unset and
PYTHONPYCACHEPREFIX pointing into a scratch directory under /var/tmp, so nothing is written under the repo.
The native module is the one built from <repo>/rust by vlib.env.ensure_native(), preloaded in each child.
"""
from __future__ import annotations

import os
import sys

_HERE = os.path.dirname(os.path.abspath(__file__))
if os.path.dirname(_HERE) not in sys.path:
    sys.path.insert(0, os.path.dirname(_HERE))

import atexit
import json
import marshal
import shutil
import struct
import subprocess
import tempfile
import time
from pathlib import Path

from vlib import env
from vlib.evidence import Result

PROPERTY = "C14"
LEVEL = "model_checking"
BOOTSTRAP = False  # run.py: do not bootstrap basilisp in the parent; children do the real work

BOUNDS = {
    "quick": "decoding layer: every prefix length + 57 header perturbations of the caches of 13 generated and 4 small bundled namespaces, "
    "basilisp.core (2.9 MB): every length in the first/last 4 KiB and every top-level code-object boundary; "
    "full import path: 2 small generated namespaces (one of them truncated underneath a valid cache of its requirer), every 23rd crash point "
    "plus all of the first 16 / last 8 bytes and all header perturbations and stale-source cases; hash seeds {0,1}^2 x (14 bundled + 13 generated namespaces)",
    "thorough": "decoding layer: every prefix length + header perturbations of all 13 generated and all bundled namespaces except core (21 files, 2.2 MB of prefixes), "
    "core: first/last 4 KiB, every marshal object boundary (all nesting levels) and every 997th byte; "
    "full import path: 5 small generated namespaces + 1 nested-require scenario at EVERY crash point, 8 rich generated namespaces (+1 nested-require scenario) at every 331st crash point + first 32/last 16 bytes, "
    "all header perturbations and stale-source cases for all; hash seeds {0,1,2,3}^2 x (22 bundled + 13 generated namespaces)",
}
RULE = (
    "engine C: a case is (namespace, crash point k | header perturbation | stale-source edit | (writer seed, reader seed)); crash states are produced by the real "
    "set_data running against a file that fails after k bytes; distinct = distinct (namespace, case) pairs; non-trivial = the cache file differs from a valid one, "
    "or the reader seed differs from the writer seed"
)
ASSUMPTIONS = [
    "a crash during cache writing leaves what the real set_data had written to the file so far (byte-budgeted file object); the file system does not reorder or lose completed writes",
    "'stale' is judged at the header's resolution, as the loader defines it: whole seconds of mtime and the size modulo 2^32 (a same-second same-size edit is out of scope, as for CPython's .pyc)",
    "whether code ran from the cache or the source is observed by a sentinel form in generated namespaces (source swapped for a same-size, same-mtime variant carrying another tag); "
    "for bundled namespaces counting wrappers around the loader's two execution paths are used only as a vacuity guard",
    "snapshots compare Var names, metadata (minus :file), values printed with sorted collections, results of probe expressions and identity of every keyword with the freshly interned one; "
    "the debugging Var *generated-python* and Vars holding per-process objects are excluded; unordered collections are compared as sets",
    "the native extension is not the subject: children preload the module built from <repo>/rust",
]

QUICK_SEEDS = (0, 1)
THOROUGH_SEEDS = (0, 1, 2, 3)

BUNDLED_QUICK = [
    "basilisp.core",
    "basilisp.core.protocols",
    "basilisp.string",
    "basilisp.set",
    "basilisp.walk",
    "basilisp.io",
    "basilisp.template",
    "basilisp.test",
    "basilisp.csv",
    "basilisp.stacktrace",
    "basilisp.repl",
    "basilisp.json",
    "basilisp.reflect",
    "basilisp.contrib.bencode",
]
BUNDLED_ALL = BUNDLED_QUICK + [
    "basilisp.test.fixtures",
    "basilisp.shell",
    "basilisp.data",
    "basilisp.url",
    "basilisp.process",
    "basilisp.edn",
    "basilisp.contrib.nrepl-server",
    "basilisp.pprint",
]
DECODE_BUNDLED_QUICK = ["basilisp.template", "basilisp.csv", "basilisp.stacktrace", "basilisp.core.protocols"]
BIG = "basilisp.core"  # strided at the decoding layer

# --------------------------------------------------------------------------- generated namespaces
# "@" in the trace form is replaced by the variant tag (A or B): both variants have the same size.

GEN = {}

GEN["c14s.data"] = """(ns c14s.data)
(.append python/c14_trace "c14s.data:@")
(def ^{:c14-m :c14-v} d {:c14-k #{1 :c14-e} "s" [1/2 'q]})
(defn probe [] [(identical? (:c14-m (meta #'d)) :c14-v) (get d "s") (contains? (:c14-k d) :c14-e)])
"""

GEN["c14s.func"] = """(ns c14s.func)
(.append python/c14_trace "c14s.func:@")
(defn f ([x] (fn [y] [x y :c14-f])) ([x & r] (apply + x r)))
(defn probe [] [((f 1) 2) (f 1 2 3)])
"""

GEN["c14s.mac"] = """(ns c14s.mac)
(.append python/c14_trace "c14s.mac:@")
(defmacro m [x] `(vector ~x :c14-m))
(defn probe [] [(m 1) (m (m 2))])
"""

GEN["c14s.typ"] = """(ns c14s.typ)
(.append python/c14_trace "c14s.typ:@")
(deftype T [a] (__call__ [this] [a :c14-t]))
(defn probe [] [((T. 1)) (.-a (T. :c14-a))])
"""

GEN["c14s.user"] = """(ns c14s.user (:require [c14s.data :as d]))
(.append python/c14_trace "c14s.user:@")
(def got (:c14-k d/d))
(defn probe [] [got (d/probe) (identical? d/d (deref (resolve 'c14s.data/d)))])
"""

GEN["c14g.kws"] = """(ns c14g.kws)
(.append python/c14_trace "c14g.kws:@")
(def plain :c14-plain-kw)
(def qualified :c14g.other/qualified-kw)
(def auto ::auto-kw)
(defn get-plain [] :c14-plain-kw)
(defn get-auto [] ::auto-kw)
(def in-coll {:c14-a [:c14-b #{:c14-c :c14-d}] :c14-e '(:c14-f)})
(def ^{:c14-meta-key :c14-meta-val} with-meta-kw :c14-g)
(defn lookup [m] (:c14-a m))
(defn same? [x] (identical? x :c14-plain-kw))
(def quoted-sym 'c14g.kws/some-sym)
"""

GEN["c14g.colls"] = """(ns c14g.colls
  (:import datetime uuid))
(.append python/c14_trace "c14g.colls:@")
(def a-set #{1 2 3 :c14-s "str" \\c 4.5})
(def a-map {:c14-k1 1 "two" 2 3 [3 4] nil :c14-nil 'sym {:nested #{:deep}}})
(def big-map {:k0 0 :k1 1 :k2 2 :k3 3 :k4 4 :k5 5 :k6 6 :k7 7 :k8 8 :k9 9 :k10 10 :k11 11})
(def a-vec [1 [2 [3 [4 #{5}]]] '(6 7) {} #{} [] '()])
(def a-list '(a b (c d) :c14-e "f" 7 8.5 nil true false))
(def nums [0 -1 12345678901234567890123 1/3 -7/2 1.5 -0.0 1e100 3.14M 2r101 0x1F 017 1N 1.0e-7])
(def specials [##Inf ##-Inf])
(def nan ##NaN)
(def strs ["" "plain" "esc\\n\\t\\"q\\"\\\\" "uni-\u00e9-\u4e2d"])
(def chars [\\a \\newline \\space \\u00e9])
(def a-bytes #b "bytes\\x00\\xff")
(def a-regex #"a+b*[c-d]\\d")
(def a-uuid #uuid "6f3c4a1e-2b7d-4c8e-9f01-23456789abcd")
(def an-inst #inst "2020-01-02T03:04:05.678-00:00")
(def a-queue #queue [1 2 :c14-q])
(def py-list #py [1 2 :c14-pl])
(def py-dict #py {:c14-pk 1 "s" 2})
(def py-set #py #{1 2})
(def py-tuple #py (1 :c14-pt))
(def with-meta-coll ^{:c14-m 1 :tag 'x} [1 2 3])
(def quoted-meta '^:c14-qm sym-with-meta)
(defn fresh-set [x] #{x :c14-s 1})
(defn fresh-map [x] {:c14-k1 x x :c14-k1})
"""

GEN["c14g.fns"] = """(ns c14g.fns)
(.append python/c14_trace "c14g.fns:@")
(defn add
  "Adds things."
  ([] 0)
  ([a] a)
  ([a b] (+ a b))
  ([a b & more] (reduce + (+ a b) more)))
(defn- hidden [x] [:c14-hidden x])
(defn call-hidden [x] (hidden x))
(defn make-adder [n] (fn adder [m] (fn [k] (+ n m k))))
(def add3 (((make-adder 1) 1) 1))
(defn destructure-it [{:keys [a b] :or {b :c14-default} :as m} [x & ys]]
  {:a a :b b :m m :x x :ys ys})
(defn looper [n]
  (loop [i 0 acc []]
    (if (< i n) (recur (inc i) (conj acc (* i i))) acc)))
(defn with-letfn [n]
  (letfn [(ev? [k] (if (zero? k) true (od? (dec k))))
          (od? [k] (if (zero? k) false (ev? (dec k))))]
    [(ev? n) (od? n)]))
(defn catcher [f]
  (try (f)
       (catch python/ZeroDivisionError e :c14-zde)
       (catch python/Exception e [:c14-other (python/type e)])
       (finally nil)))
(defn lazy-squares [n] (map #(* % %) (range n)))
(def counter (atom 0))
(defn bump! [] (swap! counter inc))
(def computed (mapv (comp keyword str) [1 2 3]))
(defn kw-args [& {:keys [x y] :as opts}] [x y opts])
(def anon #(vector %1 %2 %&))
(defn ^:c14-flag flagged [x] (if (pos? x) :c14-pos (if (neg? x) :c14-neg :c14-zero)))
(defn str-case [x]
  (case x
    :c14-one 1
    (:c14-two :c14-too) 2
    "three" 3
    [4] 4
    :c14-default))
(defn cond-it [x] (cond (nil? x) :c14-nil (string? x) :c14-str :else (condp = x 1 :c14-1 2 :c14-2 :c14-many)))
(def ^:dynamic *dyn* :c14-root)
(defn read-dyn [] *dyn*)
(defn bound-dyn [] (binding [*dyn* :c14-bound] (read-dyn)))
(def once (delay (bump!) :c14-delayed))
"""

GEN["c14g.macros"] = """(ns c14g.macros)
(.append python/c14_trace "c14g.macros:@")
(defmacro unless [test & body] `(if ~test nil (do ~@body)))
(defmacro with-tmp [v & body] `(let [tmp# ~v] [tmp# ~@body :c14-with-tmp]))
(defmacro def-kw [nm] `(def ~nm ~(keyword "c14g.macros" (name nm))))
(defmacro env-keys [] (vec (sort (map str (keys &env)))))
(defmacro form-meta [] (select-keys (meta &form) [:line]))
(def-kw made-by-macro)
(def used-unless [(unless false :c14-ran) (unless true :c14-not)])
(def used-tmp (with-tmp 1 2 3))
(defn uses-env [a b] (env-keys))
(def form-line (form-meta))
(defmacro nested-quote [x] `(list '~x `(inner ~'~x) ::c14-auto))
(def nq (nested-quote foo))
(defmacro ^:c14-mmeta mm [] :c14-mm)
"""

GEN["c14g.types"] = """(ns c14g.types)
(.append python/c14_trace "c14g.types:@")
(defprotocol Shape
  (area [this] "Area of the shape.")
  (scale [this k]))
(defrecord Rect [w h]
  Shape
  (area [this] (* w h))
  (scale [this k] (->Rect (* w k) (* h k))))
(deftype Circle [r]
  Shape
  (area [this] (* 3 r r))
  (scale [this k] (Circle. (* r k)))
  (__eq__ [this other] (and (instance? Circle other) (= r (.-r other))))
  (__hash__ [this] (hash r)))
(def a-rect (->Rect 2 3))
(def a-rect-map (map->Rect {:w 1 :h 2 :c14-extra 3}))
(def a-circle (Circle. 2))
(extend-protocol Shape
  python/int
  (area [this] this)
  (scale [this k] (* this k)))
(defmulti describe (fn [x] (:c14-kind x)))
(defmethod describe :c14-dog [x] [:c14-woof (:name x)])
(defmethod describe :c14-cat [x] [:c14-meow (:name x)])
(defmethod describe :default [x] :c14-unknown)
(def reified (reify Shape (area [this] :c14-reified) (scale [this k] k)))
(derive ::c14-child ::c14-parent)
(defmulti by-hier identity)
(defmethod by-hier ::c14-parent [_] :c14-via-parent)
(definterface Named (get-name [this]))
"""

GEN["c14g.meta"] = """(ns ^{:c14-ns-meta #{:x :y} :doc "Namespace docstring."} c14g.meta)
(.append python/c14_trace "c14g.meta:@")
(def ^:private priv 1)
(def ^:dynamic ^:c14-both *d* 2)
(def ^{:doc "Documented." :c14-custom {:k #{1 2} :v [:c14-a "s"]} :added "1.0"} documented 3)
(def ^python/str tagged "t")
(def with-docstring "The docstring." 4)
(def ^:redef redefable 5)
(def ^:const konst 6)
(defn ^{:c14-fn-meta 'sym} f "Doc of f." {:c14-attr-map true} ([x] x) ([x y] [x y]))
(def meta-of-f (dissoc (meta #'f) :file :ns))
(def m-vec (with-meta [1 2] {:c14-wm :runtime}))
(def m-literal ^{:c14-lit {:nested ^:c14-inner [1]}} {:a 1})
(def m-sym '^{:c14-on-sym 1} s)
(def m-fn (with-meta (fn [] :c14-mfn) {:c14-on-fn true}))
(declare declared-only)
(def unbound-later)
"""

GEN["c14g.dep"] = """(ns c14g.dep)
(.append python/c14_trace "c14g.dep:@")
(def dep-const {:c14-dep-k [:c14-dep-v]})
(defn dep-fn [x] [:c14-dep-fn x])
(defmacro dep-macro [x] `(dep-fn [~x :c14-from-macro]))
(defrecord DepRec [a])
(defprotocol DepProto (dep-method [this]))
"""

GEN["c14g.req"] = """(ns c14g.req
  (:require [c14g.dep :as d :refer [dep-fn dep-macro]]
            [basilisp.string :as str]))
(.append python/c14_trace "c14g.req:@")
(def via-alias (d/dep-fn 1))
(def via-refer (dep-fn 2))
(def via-macro (dep-macro 3))
(def via-const (:c14-dep-k d/dep-const))
(def rec (d/->DepRec :c14-in-rec))
(def mapped-rec (d/map->DepRec {:a 5 :c14-x 6}))
(extend-protocol d/DepProto c14g.dep/DepRec (dep-method [this] [:c14-impl (:a this)]))
(def via-proto (d/dep-method rec))
(defn upper [s] (str/upper-case s))
(defn same-const? [] (identical? d/dep-const (deref (resolve 'c14g.dep/dep-const))))
"""

GEN_SMALL = ["c14s.data", "c14s.func", "c14s.mac", "c14s.typ", "c14s.user"]
GEN_RICH = ["c14g.kws", "c14g.colls", "c14g.fns", "c14g.macros", "c14g.types", "c14g.meta", "c14g.dep", "c14g.req"]
GEN_ORDER = ["c14s.data", "c14s.func", "c14s.mac", "c14s.typ", "c14s.user"] + GEN_RICH  # requirers after their dependencies
GEN_DEPS = {"c14s.user": ["c14s.data"], "c14g.req": ["c14g.dep"]}

# probe expressions: evaluated (read + compiled + run) in the loading process, after the namespaces were loaded
PROBES = {
    "c14s.data": ["(c14s.data/probe)", "(identical? (:c14-m (meta #'c14s.data/d)) :c14-v)"],
    "c14s.func": ["(c14s.func/probe)"],
    "c14s.mac": ["(c14s.mac/probe)", "(c14s.mac/m 5)"],
    "c14s.typ": ["(c14s.typ/probe)"],
    "c14s.user": ["(c14s.user/probe)"],
    "c14g.kws": [
        "(identical? (c14g.kws/get-plain) :c14-plain-kw)",
        "(c14g.kws/same? :c14-plain-kw)",
        "(identical? c14g.kws/auto :c14g.kws/auto-kw)",
        "(identical? (c14g.kws/get-auto) :c14g.kws/auto-kw)",
        "(identical? c14g.kws/qualified :c14g.other/qualified-kw)",
        "(c14g.kws/lookup {:c14-a 1})",
        "(get c14g.kws/in-coll :c14-a)",
        "(contains? (second (:c14-a c14g.kws/in-coll)) :c14-c)",
        "(:c14-meta-key (meta #'c14g.kws/with-meta-kw))",
        "(identical? (:c14-meta-key (meta #'c14g.kws/with-meta-kw)) :c14-meta-val)",
        "(= c14g.kws/plain :c14-plain-kw)",
        "(= (hash c14g.kws/plain) (hash :c14-plain-kw))",
        "(case c14g.kws/plain :c14-plain-kw :hit :miss)",
        "(identical? (keyword \"c14-plain-kw\") c14g.kws/plain)",
    ],
    "c14g.colls": [
        "(contains? c14g.colls/a-set :c14-s)",
        "(get c14g.colls/a-map [3 4] :nf)",
        "(get c14g.colls/a-map {:nested #{:deep}} :nf)",
        "(get c14g.colls/big-map :k7)",
        "(= c14g.colls/a-vec [1 [2 [3 [4 #{5}]]] '(6 7) {} #{} [] '()])",
        "(mapv python/type c14g.colls/nums)",
        "(c14g.colls/fresh-set 9)",
        "(c14g.colls/fresh-map :c14-z)",
        "(re-matches c14g.colls/a-regex \"aabc1\")",
        "(python/type c14g.colls/an-inst)",
        "(meta c14g.colls/with-meta-coll)",
        "(meta c14g.colls/quoted-meta)",
        "(peek c14g.colls/a-queue)",
        "(.get c14g.colls/py-dict :c14-pk)",
        "(not= c14g.colls/nan c14g.colls/nan)",
        "(identical? (first (filter keyword? c14g.colls/a-set)) :c14-s)",
    ],
    "c14g.fns": [
        "(c14g.fns/add)",
        "(c14g.fns/add 1 2 3 4)",
        "(c14g.fns/call-hidden 1)",
        "c14g.fns/add3",
        "(c14g.fns/destructure-it {:a 1} [1 2 3])",
        "(c14g.fns/looper 4)",
        "(c14g.fns/with-letfn 5)",
        "(c14g.fns/catcher #(/ 1 0))",
        "(c14g.fns/catcher #(throw (python/ValueError \"x\")))",
        "(vec (c14g.fns/lazy-squares 4))",
        "[(c14g.fns/bump!) (c14g.fns/bump!) @c14g.fns/counter]",
        "(c14g.fns/kw-args :x 1 :y 2)",
        "(c14g.fns/anon 1 2 3)",
        "(mapv c14g.fns/flagged [-1 0 1])",
        "(mapv c14g.fns/str-case [:c14-one :c14-too \"three\" [4] 5])",
        "(mapv c14g.fns/cond-it [nil \"s\" 1 2 3])",
        "[(c14g.fns/read-dyn) (c14g.fns/bound-dyn) (binding [c14g.fns/*dyn* 1] (c14g.fns/read-dyn))]",
        "[@c14g.fns/once @c14g.fns/once @c14g.fns/counter]",
        "(:arglists (meta #'c14g.fns/add))",
        "(:doc (meta #'c14g.fns/add))",
        "(identical? (c14g.fns/flagged 1) :c14-pos)",
    ],
    "c14g.macros": [
        "(c14g.macros/unless false 1 2)",
        "(c14g.macros/with-tmp 1 2)",
        "(macroexpand-1 '(c14g.macros/unless a b))",
        "(let [zz 1] (c14g.macros/env-keys))",
        "c14g.macros/made-by-macro",
        "(identical? c14g.macros/made-by-macro :c14g.macros/made-by-macro)",
        "(c14g.macros/uses-env 1 2)",
        "(c14g.macros/nested-quote bar)",
        "(c14g.macros/mm)",
        "(:macro (meta #'c14g.macros/unless))",
        "c14g.macros/used-tmp",
    ],
    "c14g.types": [
        "(c14g.types/area c14g.types/a-rect)",
        "(c14g.types/area (c14g.types/scale c14g.types/a-rect 2))",
        "(= c14g.types/a-rect (c14g.types/->Rect 2 3))",
        "(:c14-extra c14g.types/a-rect-map)",
        "(c14g.types/area c14g.types/a-circle)",
        "(c14g.types/area (c14g.types/scale c14g.types/a-circle 2))",
        "(c14g.types/area 7)",
        "(c14g.types/describe {:c14-kind :c14-dog :name \"rex\"})",
        "(c14g.types/describe {})",
        "(c14g.types/area c14g.types/reified)",
        "(c14g.types/by-hier :c14g.types/c14-child)",
        "(isa? :c14g.types/c14-child :c14g.types/c14-parent)",
        "(satisfies? c14g.types/Shape c14g.types/a-rect)",
        "(instance? c14g.types/Rect c14g.types/a-rect)",
        "(record? c14g.types/a-rect)",
    ],
    "c14g.meta": [
        "(meta #'c14g.meta/documented)",
        "(:private (meta #'c14g.meta/priv))",
        "(binding [c14g.meta/*d* 9] c14g.meta/*d*)",
        "(meta c14g.meta/m-vec)",
        "(meta c14g.meta/m-literal)",
        "(meta (:nested (:c14-lit (meta c14g.meta/m-literal))))",
        "(meta c14g.meta/m-sym)",
        "(meta c14g.meta/m-fn)",
        "(c14g.meta/m-fn)",
        "(c14g.meta/f 1 2)",
        "c14g.meta/meta-of-f",
        "(dissoc (meta (the-ns 'c14g.meta)) :file)",
        "(.-is-bound #'c14g.meta/declared-only)",
    ],
    "c14g.dep": ["(c14g.dep/dep-macro 9)", "(c14g.dep/dep-fn 1)", "(c14g.dep/->DepRec 2)"],
    "c14g.req": [
        "c14g.req/via-alias",
        "c14g.req/via-macro",
        "(c14g.req/upper \"abc\")",
        "(c14g.req/same-const?)",
        "c14g.req/via-proto",
        "(c14g.dep/dep-method c14g.req/mapped-rec)",
        "(sort (map str (keys (ns-aliases (the-ns 'c14g.req)))))",
        "(contains? (ns-refers (the-ns 'c14g.req)) 'dep-fn)",
    ],
    "basilisp.core": [
        "(reduce + (map inc (range 10)))",
        "(sort-by - [3 1 2])",
        "(pr-str {:a #{1}})",
        "(into {} (map (fn [[k v]] [v k]) {:a 1 :b 2}))",
        "(frequencies \"aab\")",
        "(apply str (interpose \",\" [1 2 3]))",
        "(let [{:keys [a] :or {a 5}} {}] a)",
        "(macroexpand-1 '(when a b))",
        "(macroexpand-1 '(-> a b c))",
        "(for [x [1 2] y [:a :b]] [x y])",
        "(condp = 2 1 :one 2 :two)",
        "(try (assert false \"x\") (catch python/AssertionError e :asserted))",
        "(keyword \"a\" \"b\")",
        "(identical? (keyword \"c14-core-probe\") :c14-core-probe)",
        "(update-in {:a {:b 1}} [:a :b] inc)",
        "(group-by odd? (range 6))",
        "(partition 2 1 [1 2 3 4])",
        "(transduce (comp (filter odd?) (map inc)) + (range 10))",
        "(with-out-str (println :x \"y\"))",
        "(format \"%d-%s\" 1 \"a\")",
        "(:arglists (meta #'map))",
        "(re-seq #\"\\d+\" \"a1b22\")",
        "(some #{:b} [:a :b])",
        "(merge-with + {:a 1} {:a 2 :b 3})",
        "(ex-data (ex-info \"m\" {:k 1}))",
        "(identical? (ffirst (meta #'map)) (ffirst (meta #'map)))",
        "(every? (fn [k] (identical? k (keyword (namespace k) (name k)))) (keys (meta #'map)))",
        "(let [m (meta #'reduce)] (identical? (first (filter #(= % :arglists) (keys m))) :arglists))",
        "(defrecord C14ProbeRec [a])",
        "(get (->C14ProbeRec 1) :a)",
        "(deref (future 1))",
        "(let [a (atom {})] (swap! a assoc :k 1) @a)",
    ],
    "basilisp.string": [
        "(basilisp.string/upper-case \"ab\")",
        "(basilisp.string/split \"a,b\" #\",\")",
        "(basilisp.string/join \"-\" [1 2])",
        "(basilisp.string/blank? \" \")",
        "(basilisp.string/replace \"aaa\" \"a\" \"b\")",
        "(basilisp.string/trim \" x \")",
    ],
    "basilisp.set": [
        "(basilisp.set/union #{1} #{2})",
        "(basilisp.set/difference #{1 2} #{2})",
        "(basilisp.set/rename-keys {:a 1} {:a :b})",
        "(basilisp.set/index #{{:a 1 :b 2}} [:a])",
        "(basilisp.set/map-invert {:a 1})",
        "(basilisp.set/join #{{:a 1}} #{{:a 1 :b 2}})",
    ],
    "basilisp.walk": [
        "(basilisp.walk/postwalk #(if (number? %) (inc %) %) [1 {:a 2}])",
        "(basilisp.walk/keywordize-keys {\"a\" 1})",
        "(basilisp.walk/stringify-keys {:a 1})",
        "(basilisp.walk/macroexpand-all '(when a (when b c)))",
    ],
    "basilisp.edn": [
        "(basilisp.edn/read-string \"{:a #{1 2} :b [1.5 \\\"s\\\"]}\")",
        "(basilisp.edn/write-string {:a [1 \"s\" :k]})",
        "(identical? (basilisp.edn/read-string \":c14-edn\") :c14-edn)",
    ],
    "basilisp.json": [
        "(basilisp.json/read-str \"{\\\"a\\\": [1, 2]}\")",
        "(basilisp.json/write-str {:a [1 2]})",
        "(basilisp.json/read-str \"{\\\"a\\\": 1}\" :key-fn keyword)",
    ],
    "basilisp.data": ["(basilisp.data/diff {:a 1 :b 2} {:a 1 :b 3})"],
    "basilisp.template": ["(basilisp.template/apply-template '[x] '(+ x x) [2])"],
    "basilisp.pprint": [
        "(with-out-str (basilisp.pprint/pprint {:a [1 2 3]}))",
        "(with-out-str (basilisp.pprint/print-table [:a :b] [{:a 1 :b 2}]))",
    ],
    "basilisp.contrib.bencode": [
        "(basilisp.contrib.bencode/encode {:a [1 \"s\"]})",
        "(basilisp.contrib.bencode/decode (basilisp.contrib.bencode/encode {:a [1 \"s\"]}) {:keywordize-keys true})",
    ],
    "basilisp.url": ["(str (basilisp.url/url \"http://ex.com/a?b=1\"))"],
}


def gen_source(ns: str, tag: str) -> str:
    return GEN[ns].replace('c14_trace "%s:@"' % ns, 'c14_trace "%s:%s"' % (ns, tag))


def ns_relpath(ns: str) -> str:
    return ns.replace(".", "/").replace("-", "_") + ".lpy"


def write_gen_tree(root, names=None, tag="A"):
    for ns in names or GEN_ORDER:
        p = Path(root) / ns_relpath(ns)
        p.parent.mkdir(parents=True, exist_ok=True)
        p.write_text(gen_source(ns, tag), encoding="utf-8")


# --------------------------------------------------------------------------- marshal walker (parent side, pure Python)


def marshal_boundaries(p: bytes):
    """Offsets in `p` (a marshal dump) at which an object starts: (all offsets, offsets of the elements of
    the top-level list, end offset).  Supports the CPython 3.11-3.13 layout of code objects; the caller
    validates `end == len(p)` and the element count against marshal.loads."""
    starts, top = [], []

    def i32(o):
        return struct.unpack_from("<i", p, o)[0]

    def obj(pos, depth):
        starts.append(pos)
        if depth == 1:
            top.append(pos)
        c = chr(p[pos] & 0x7F)
        pos += 1
        if c in "0NFTS.":
            return pos
        if c in "ir":
            return pos + 4
        if c == "g":
            return pos + 8
        if c == "y":
            return pos + 16
        if c == "l":
            return pos + 4 + 2 * abs(i32(pos))
        if c in "sutaA":
            return pos + 4 + i32(pos)
        if c in "zZ":
            return pos + 1 + p[pos]
        if c == ")":
            k = p[pos]
            pos += 1
            for _ in range(k):
                pos = obj(pos, depth + 1)
            return pos
        if c in "([<>":
            k = i32(pos)
            pos += 4
            for _ in range(k):
                pos = obj(pos, depth + 1)
            return pos
        if c == "{":
            while True:
                if chr(p[pos] & 0x7F) == "0":
                    return obj(pos, depth + 1)
                pos = obj(pos, depth + 1)
                pos = obj(pos, depth + 1)
        if c == "c":
            pos += 20
            for _ in range(8):
                pos = obj(pos, depth + 1)
            pos += 4
            for _ in range(2):
                pos = obj(pos, depth + 1)
            return pos
        raise ValueError("unknown marshal type %r at %d" % (c, pos - 1))

    end = obj(0, 0)
    return starts, top, end


# =========================================================================== CHILD SIDE
# Everything below until "PARENT SIDE" runs inside a child interpreter that imports the real basilisp.

_LOG = []  # (fullname, "cached"|"source", "ok"|exception type name)
_TRACE = []  # appended to by the sentinel form of generated namespaces
_PREINIT = []


def _child_boot(job):
    import builtins
    import importlib.machinery
    import importlib.util

    builtins.c14_trace = _TRACE
    # a `basilispbootstrap.pth` in site-packages (the repo's CLI tests install one temporarily) initialises basilisp at
    # interpreter start-up, i.e. before the counting wrappers below exist: harmless for the oracles, reported as a note
    _PREINIT.append("basilisp.core" in sys.modules)
    repo_src = os.path.join(job["repo"], "src")
    import basilisp

    if os.path.realpath(os.path.dirname(basilisp.__file__)) != os.path.realpath(os.path.join(repo_src, "basilisp")):
        raise RuntimeError("basilisp imported from %s, not from %s" % (basilisp.__file__, repo_src))
    so = job.get("native")
    if so:
        loader = importlib.machinery.ExtensionFileLoader("basilisp._lang", so)
        spec = importlib.util.spec_from_file_location("basilisp._lang", so, loader=loader)
        mod = importlib.util.module_from_spec(spec)
        sys.modules["basilisp._lang"] = mod
        loader.exec_module(mod)
        basilisp._lang = mod
    if sys.dont_write_bytecode or os.environ.get("BASILISP_DO_NOT_CACHE_NAMESPACES"):
        raise RuntimeError("child environment still disables cache writing")
    from basilisp import importer

    cls = importer.BasilispImporter
    orig_cached, orig_source = cls._exec_cached_module, cls._exec_module

    def counted(kind, orig):
        def wrapper(self, fullname, *a, **kw):
            try:
                r = orig(self, fullname, *a, **kw)
            except BaseException as e:  # noqa
                _LOG.append((fullname, kind, type(e).__name__))
                raise
            _LOG.append((fullname, kind, "ok"))
            return r

        return wrapper

    cls._exec_cached_module = counted("cached", orig_cached)
    cls._exec_module = counted("source", orig_source)
    from basilisp import main as bmain

    bmain.init()


def _fallback_exceptions():
    """The exception types caught around `_exec_cached_module` in the real `exec_module` (read from its source)."""
    import ast
    import builtins
    import inspect
    import textwrap

    from basilisp import importer

    try:
        tree = ast.parse(textwrap.dedent(inspect.getsource(importer.BasilispImporter.exec_module)))
        for node in ast.walk(tree):
            if isinstance(node, ast.Try) and any(
                isinstance(n, ast.Attribute) and n.attr == "_exec_cached_module" for b in node.body for n in ast.walk(b)
            ):
                names = []
                for h in node.handlers:
                    t = h.type
                    elts = t.elts if isinstance(t, ast.Tuple) else [t]
                    for e in elts:
                        if isinstance(e, ast.Name):
                            names.append(e.id)
                types_ = tuple(getattr(builtins, n) for n in names if isinstance(getattr(builtins, n, None), type))
                if types_:
                    return types_, "source"
    except Exception:  # noqa
        pass
    return (EOFError, ImportError, OSError), "default"


def _munge(ns: str) -> str:
    return ns.replace("-", "_")


# ---- canonical rendering of values (independent of hash order, addresses, gensym counters)

_SKIP_VARS = {"*generated-python*"}


def _canon(x, depth=0):
    import datetime
    import decimal
    import fractions
    import re
    import types
    import uuid

    from basilisp.lang import atom, keyword as kw, runtime, symbol as sym
    from basilisp.lang import interfaces as I

    if depth > 12:
        return "<deep>"
    if x is None:
        return "nil"
    if isinstance(x, bool):
        return "true" if x else "false"
    if isinstance(x, int):
        return "i:%d" % x
    if isinstance(x, float):
        return "f:%r" % x
    if isinstance(x, str):
        return "s:" + x
    if isinstance(x, (bytes, bytearray)):
        return "b:" + bytes(x).hex()
    if isinstance(x, fractions.Fraction):
        return "r:%s" % x
    if isinstance(x, decimal.Decimal):
        return "M:%s" % x
    if isinstance(x, complex):
        return "c:%r" % x
    if isinstance(x, kw.Keyword):
        s = "k:" + (x.ns + "/" if x.ns else "") + x.name
        if x is not kw.keyword(x.name, ns=x.ns):
            s += " !NOT-THE-INTERNED-KEYWORD"
        return s
    d = depth + 1

    def meta_of(v):
        try:
            m = v.meta
        except Exception:  # noqa
            return None
        if m is None or not isinstance(m, I.IPersistentMap):
            return None
        return _canon_map(m, d, drop_file=True)

    def with_meta(tag, body, v):
        m = meta_of(v)
        return [tag, body] if m is None else [tag, body, {"meta": m}]

    if isinstance(x, sym.Symbol):
        return with_meta("sym", (x.ns + "/" if x.ns else "") + x.name, x)
    if isinstance(x, runtime.Var):
        return "var:%s/%s" % (x.ns.name, x.name.name)
    if isinstance(x, runtime.Namespace):
        return "ns:" + x.name
    if isinstance(x, I.IRecord):
        return ["rec", _tname(type(x)), _canon_map(dict(x.items()) if hasattr(x, "items") else {}, d)]
    if isinstance(x, (I.IPersistentMap, dict)):
        return with_meta("map", _canon_map(x, d), x)
    if isinstance(x, (I.IPersistentSet, set, frozenset)):
        return with_meta("set", sorted((_canon(e, d) for e in x), key=_skey), x)
    if isinstance(x, I.IPersistentVector):
        return with_meta("vec", [_canon(e, d) for e in x], x)
    if isinstance(x, tuple):
        return ["tuple", [_canon(e, d) for e in x]]
    if isinstance(x, list):
        return ["pylist", [_canon(e, d) for e in x]]
    if isinstance(x, (I.ISeq, I.IPersistentList)) or type(x).__name__ == "PersistentQueue":
        out = []
        for i, e in enumerate(x):
            if i >= 200:
                out.append("<more>")
                break
            out.append(_canon(e, d))
        return with_meta("seq" if not type(x).__name__ == "PersistentQueue" else "queue", out, x)
    if isinstance(x, atom.Atom):
        return ["atom", _canon(x.deref(), d)]
    if isinstance(x, re.Pattern):
        return ["re", x.pattern if isinstance(x.pattern, str) else repr(x.pattern), x.flags]
    if isinstance(x, (uuid.UUID, datetime.datetime, datetime.date, datetime.time)):
        return "o:%r" % (x,)
    if isinstance(x, type):
        return "class:" + _tname(x)
    if isinstance(x, types.ModuleType):
        return "module:" + x.__name__
    if isinstance(x, I.IType):
        fields = []
        for f in getattr(type(x), "__attrs_attrs__", ()):
            try:
                fields.append([f.name, _canon(getattr(x, f.name), d)])
            except Exception:  # noqa
                pass
        return ["type", _tname(type(x)), fields]
    if callable(x):
        ar = getattr(x, "arities", None)
        try:
            ar = sorted((_canon(a, d) for a in ar), key=_skey) if ar is not None else None
        except Exception:  # noqa
            ar = None
        body = {"arities": ar, "is_basilisp_fn": bool(getattr(x, "_basilisp_fn", False))}
        m = meta_of(x)
        if m is not None:
            body["meta"] = m
        return ["fn", body]
    return "obj:" + _tname(type(x))


def _tname(t):
    import re

    # reified / anonymous types carry gensym counters in their names
    return re.sub(r"_\d+\b", "_N", "%s.%s" % (getattr(t, "__module__", "?"), getattr(t, "__qualname__", "?")))


def _skey(c):
    return json.dumps(c, sort_keys=True, default=str)


def _canon_map(m, depth, drop_file=False):
    from basilisp.lang import keyword as kw

    items = []
    for k, v in m.items():
        if drop_file and isinstance(k, kw.Keyword) and k.name == "file" and k.ns is None:
            continue
        items.append([_canon(k, depth), _canon(v, depth)])
    items.sort(key=_skey)
    return items


def _snapshot_ns(ns_name: str):
    from basilisp.lang import runtime, symbol as sym

    ns = runtime.Namespace.get(sym.symbol(ns_name))
    if ns is None:
        return {"missing": True}
    snap = {"vars": {}, "meta": None}
    if ns.meta is not None:
        snap["meta"] = _canon_map(ns.meta, 1, drop_file=True)
    for s, v in ns.interns.items():
        if s.name in _SKIP_VARS:
            continue
        ent = {"meta": _canon_map(v.meta, 1, drop_file=True) if v.meta is not None else None, "dynamic": bool(v.dynamic)}
        if not v.is_bound:
            ent["value"] = "<unbound>"
        else:
            try:
                ent["value"] = _canon(v.root, 1)
            except Exception as e:  # noqa
                ent["value"] = "<canon-error %s>" % type(e).__name__
        snap["vars"][s.name] = ent
    snap["aliases"] = sorted("%s->%s" % (a.name, n.name) for a, n in ns.aliases.items())
    snap["imports"] = sorted(s.name for s in ns.imports.keys())
    snap["import_aliases"] = sorted("%s->%s" % (a.name, n.name) for a, n in ns.import_aliases.items())
    import hashlib

    refers = sorted("%s->%s/%s" % (s.name, v.ns.name, v.name.name) for s, v in ns.refers.items())
    snap["refers"] = {
        "n": len(refers),
        "sha1": hashlib.sha1("\n".join(refers).encode()).hexdigest(),
        "non_core": [r for r in refers if "->basilisp.core/" not in r],
    }
    return snap


_PROBE_NS = [0]


def _run_probes(texts):
    from basilisp.lang import compiler, reader, runtime, symbol as sym

    _PROBE_NS[0] += 1
    name = "c14.probe.n%d" % _PROBE_NS[0]
    ns = runtime.Namespace.get_or_create(sym.symbol(name))
    ns.refer_all(runtime.Namespace.get(sym.symbol("basilisp.core")))
    out = []
    for t in texts:
        try:
            ctx = compiler.CompilerContext("<c14 probe>")
            last = None
            with runtime.ns_bindings(name):
                for form in reader.read_str(t, resolver=runtime.resolve_alias):
                    last = compiler.compile_and_exec_form(form, ctx, ns)
            out.append([t, _canon(last)])
        except BaseException as e:  # noqa
            out.append([t, "EXC:" + type(e).__name__])
    runtime.Namespace.remove(sym.symbol(name))
    return out


def _source_of(ns_name):
    mod = sys.modules.get(_munge(ns_name))
    return getattr(mod, "__file__", None) if mod is not None else None


def _cache_state(src_path):
    """Independent validity check of the cache file that belongs to `src_path` (plain marshal/struct)."""
    import types

    from basilisp import importer

    cp = importer._cache_from_source(src_path)
    st = {"path": cp, "exists": os.path.exists(cp)}
    if not st["exists"]:
        st["valid"] = False
        st["why"] = "missing"
        return st
    data = open(cp, "rb").read()
    s = os.stat(src_path)
    st["len"] = len(data)
    why = None
    if data[:4] != importer.MAGIC_NUMBER:
        why = "magic"
    elif len(data) < 12:
        why = "short-header"
    elif int.from_bytes(data[4:8], "little") != (int(s.st_mtime) & 0xFFFFFFFF):
        why = "mtime"
    elif int.from_bytes(data[8:12], "little") != (s.st_size & 0xFFFFFFFF):
        why = "size"
    else:
        try:
            code = marshal.loads(data[12:])
            if not isinstance(code, list) or not all(isinstance(c, types.CodeType) for c in code):
                why = "payload-type"
            else:
                st["n_code"] = len(code)
        except Exception as e:  # noqa
            why = "payload-" + type(e).__name__
    st["valid"] = why is None
    if why:
        st["why"] = why
    return st


def _reset(names):
    import importlib

    from basilisp.lang import runtime, symbol as sym

    for n in names:
        sys.modules.pop(_munge(n), None)
        runtime.Namespace.remove(sym.symbol(n))
    importlib.invalidate_caches()


# ---- job: load namespaces, report how each was served + snapshot + probes


def _job_load(job):
    import importlib

    out = {"ns": {}, "seed": os.environ.get("PYTHONHASHSEED")}
    for n in job["names"]:
        ent = {}
        del _TRACE[:]
        try:
            importlib.import_module(_munge(n))
        except BaseException as e:  # noqa
            import traceback

            ent["error"] = type(e).__name__ + ": " + str(e)[:300] + " | " + traceback.format_exc()[-600:]
            out["ns"][n] = ent
            continue
        ent["trace"] = list(_TRACE)
        out["ns"][n] = ent
    for n in job["names"]:
        ent = out["ns"][n]
        if "error" in ent:
            continue
        ent["served"] = [[k, o] for (f, k, o) in _LOG if f == _munge(n)]
        src = _source_of(n)
        ent["cache"] = _cache_state(src) if src else {"valid": False, "why": "no-source"}
        ent["snapshot"] = _snapshot_ns(n)
    for n in job["names"]:
        ent = out["ns"][n]
        if "error" not in ent:
            ent["probes"] = _run_probes(job.get("probes", {}).get(n, []))
    return out


# ---- job: decoding layer


def _header_perturbations(data, mtime, size):
    """(label, bytes, mtime argument, size argument, expected-valid)"""
    import importlib.util

    out = []
    head = bytearray(data[:12])
    for i in range(min(12, len(data))):
        for label, f in (("flip-low", lambda b: b ^ 1), ("flip-high", lambda b: b ^ 0x80), ("zero", lambda b: 0), ("ff", lambda b: 0xFF)):
            nb = f(head[i])
            d2 = data[:i] + bytes([nb]) + data[i + 1 :]
            out.append(("byte%d-%s" % (i, label), d2, mtime, size, nb == head[i]))
    out.append(("mtime+1", data, mtime + 1, size, False))
    out.append(("mtime-1", data, mtime - 1, size, False))
    out.append(("size+1", data, mtime, size + 1, False))
    out.append(("size-1", data, mtime, size - 1, False))
    out.append(("magic-cpython", importlib.util.MAGIC_NUMBER + data[4:], mtime, size, False))
    out.append(("magic-number+1", (int.from_bytes(data[:2], "little") + 1).to_bytes(2, "little") + data[2:], mtime, size, False))
    out.append(("magic-number-1", (int.from_bytes(data[:2], "little") - 1).to_bytes(2, "little") + data[2:], mtime, size, False))
    out.append(("empty", b"", mtime, size, False))
    out.append(("header-only", data[:12], mtime, size, False))
    return out


def _job_decode(job):
    import types

    from basilisp import importer

    caught, caught_from = _fallback_exceptions()
    loader = importer.BasilispImporter()
    out = {"items": [], "caught": [t.__name__ for t in caught], "caught_from": caught_from}
    for item in job["items"]:
        data = open(item["cache"], "rb").read()
        stats = loader.path_stats(item["source"])
        mtime, size = stats["mtime"], stats["size"]
        name = _munge(item["ns"])
        outcomes = {}
        fails = {}
        n = 0

        def bad(kind, label, detail):
            f = fails.setdefault(kind, {"count": 0, "first": [], "detail": detail})
            f["count"] += 1
            if len(f["first"]) < 5:
                f["first"].append(label)

        def attempt(label, d, mt, sz, expect_valid):
            try:
                r = importer._get_basilisp_bytecode(name, mt, sz, d)
            except caught as e:
                oc = type(e).__name__
                if expect_valid:
                    bad("valid-cache-rejected", label, oc + ": " + str(e)[:120])
            except BaseException as e:  # noqa
                oc = "UNCAUGHT-" + type(e).__name__
                bad("exception-not-caught-by-fallback", label, type(e).__name__ + ": " + str(e)[:120])
            else:
                oc = "decoded"
                if not expect_valid:
                    bad("invalid-cache-decoded", label, "returned %s of %d" % (type(r).__name__, len(r) if hasattr(r, "__len__") else -1))
                elif not (isinstance(r, list) and all(isinstance(c, types.CodeType) for c in r)):
                    bad("valid-cache-bad-payload", label, type(r).__name__)
            outcomes[oc] = outcomes.get(oc, 0) + 1

        total = len(data)
        if item["mode"] == "range":
            for L in range(item["lo"], min(item["hi"], total + 1), item.get("step", 1)):
                attempt(L, data[:L], mtime, size, L == total)
                n += 1
        elif item["mode"] == "list":
            for L in item["lengths"]:
                if 0 <= L <= total:
                    attempt(L, data[:L], mtime, size, L == total)
                    n += 1
        elif item["mode"] == "header":
            for label, d2, mt, sz, ev in _header_perturbations(data, mtime, size):
                attempt(label, d2, mt, sz, ev)
                n += 1
        out["items"].append({"ns": item["ns"], "mode": item["mode"], "n": n, "len": total, "outcomes": outcomes, "fails": fails})
    return out


# ---- job: full import path with crash states produced by the real writer


class _Crash(BaseException):
    pass


class _BudgetFile:
    def __init__(self, f, budget, stats):
        self._f, self._left, self._stats = f, budget, stats

    def write(self, b):
        b = bytes(b)
        self._stats["writes"] += 1
        n = min(len(b), self._left)
        if n:
            self._f.write(b[:n])
        self._left -= n
        if n < len(b):
            self._f.flush()
            self._f.close()
            raise _Crash()
        return len(b)

    def __enter__(self):
        return self

    def __exit__(self, *a):
        if not self._f.closed:
            self._f.close()
        return False

    def __getattr__(self, name):
        return getattr(self._f, name)


def _crash_write(loader, src, cache_path, data, budget, stats):
    """Run the loader's real cache writer; the file it opens accepts `budget` bytes, then the 'process dies'."""
    import builtins

    from basilisp import importer

    def budget_open(path, mode="r", *a, **kw):
        f = builtins.open(path, mode, *a, **kw)
        if any(c in mode for c in "wax+"):
            stats["opens"] += 1
            return _BudgetFile(f, budget, stats)
        return f

    importer.open = budget_open
    try:
        loader._cache_bytecode(src, cache_path, data)
    except _Crash:
        stats["crashes"] += 1
    finally:
        del importer.open


def _job_fullpath(job):
    import importlib

    from basilisp import importer

    target = job["target"]  # namespace whose cache is damaged
    top = job["top"]  # namespace that is imported (== target, or a namespace that requires it)
    reset = job["reset"]  # namespaces forgotten before every import
    gen = job["gen"]
    src = os.path.join(gen, ns_relpath(target))
    loader = importer.BasilispImporter()
    out = {"target": target, "top": top, "n": 0, "imports": 0, "outcomes": {}, "fails": {}, "harness": [], "parts": {}}
    wstats = {"opens": 0, "writes": 0, "crashes": 0}

    def bad(kind, label, detail):
        f = out["fails"].setdefault(kind, {"count": 0, "first": [], "detail": detail})
        f["count"] += 1
        if len(f["first"]) < 5:
            f["first"].append(label)

    def oc(k):
        out["outcomes"][k] = out["outcomes"].get(k, 0) + 1

    def put_source(tag, extra="", mtime=None):
        with open(src, "w", encoding="utf-8") as f:
            text = gen_source(target, tag)
            f.write(text[:-1] if extra == "<drop-last-byte>" else text + extra)
        os.utime(src, (mtime if mtime is not None else T, mtime if mtime is not None else T))

    def do_import():
        _reset(reset)
        del _TRACE[:]
        out["imports"] += 1
        try:
            importlib.import_module(_munge(top))
        except BaseException as e:  # noqa
            return "EXC:" + type(e).__name__ + ": " + str(e)[:160]
        return None

    def snap():
        s = {n: _snapshot_ns(n) for n in reset}
        for n in reset:
            mod = sys.modules.get(_munge(n))
            pf = getattr(mod, "probe", None)
            if pf is not None:
                try:
                    s[n]["probe()"] = _canon(pf())
                except BaseException as e:  # noqa
                    s[n]["probe()"] = "EXC:" + type(e).__name__
        return json.dumps(s, sort_keys=True)

    def trace_of(ns):
        return [t.split(":", 1)[1] for t in _TRACE if t.split(":", 1)[0] == ns]

    def others_ok():
        return all(len(trace_of(n)) == 1 for n in reset if n != target)

    # -- reference: everything from source (variant A), real caches written by the real importer
    T = int(os.stat(src).st_mtime) - 10
    os.utime(src, (T, T))
    err = do_import()
    if err or trace_of(target) != ["A"]:
        out["harness"].append("initial from-source import failed: %s trace=%s" % (err, _TRACE))
        return out
    ref = snap()
    cache_path = importer._cache_from_source(src)
    st = _cache_state(src)
    if not st["valid"]:
        bad("no-valid-cache-after-compile", "initial", json.dumps(st))
        return out
    C = open(cache_path, "rb").read()
    out["cache_len"] = len(C)
    # anchor: the valid cache IS used (source now says B, same size and mtime) and is transparent
    put_source("B")
    err = do_import()
    if err or trace_of(target) != ["A"]:
        out["harness"].append("valid cache was not served: %s trace=%s" % (err, _TRACE))
        return out
    if snap() != ref:
        bad("valid-cache-load-differs-from-source", "anchor", "")
    oc("valid-cache-served")

    def case(label, cache_bytes_or_budget, src_tag="B", extra="", mtime=None, expect_valid=False):
        """Install a cache state + source state, import, judge; then check the cache left behind."""
        out["n"] += 1
        other = "A" if src_tag == "B" else "B"
        put_source(src_tag, extra, mtime)
        if isinstance(cache_bytes_or_budget, int):
            if os.path.exists(cache_path):
                os.unlink(cache_path)
            _crash_write(loader, src, cache_path, C, cache_bytes_or_budget, wstats)
            if wstats["writes"] == 0:  # the writer no longer goes through importer.open: fall back to a plain prefix
                with open(cache_path, "wb") as f:
                    f.write(C[:cache_bytes_or_budget])
                out["parts"]["crash_states_by_slicing"] = out["parts"].get("crash_states_by_slicing", 0) + 1
            elif open(cache_path, "rb").read() == C[:cache_bytes_or_budget]:
                out["parts"]["crash_state_is_prefix"] = out["parts"].get("crash_state_is_prefix", 0) + 1
            else:
                out["parts"]["crash_state_not_a_prefix"] = out["parts"].get("crash_state_not_a_prefix", 0) + 1
        else:
            with open(cache_path, "wb") as f:
                f.write(cache_bytes_or_budget)
        before = open(cache_path, "rb").read()
        err = do_import()
        if err:
            bad("import-failed", label, err)
            oc("import-failed")
            return
        tr = trace_of(target)
        if expect_valid:
            if tr != ["A"] or not others_ok():
                bad("valid-cache-not-used-or-rerun", label, "trace=%s" % _TRACE)
            elif snap() != ref:
                bad("valid-cache-load-differs-from-source", label, "")
            oc("valid-cache-served")
            return
        if tr != [src_tag] or not others_ok():
            kind = "invalid-cache-executed" if "A" in tr and src_tag != "A" else "unexpected-execution-trace"
            bad(kind, label, "trace=%s" % _TRACE)
            oc(kind)
            return
        if snap() != ref:
            bad("namespace-differs-after-fallback", label, "")
        st = _cache_state(src)
        if not st["valid"]:
            bad("no-valid-cache-left-behind", label, json.dumps({k: v for k, v in st.items() if k != "path"}))
            oc("fallback-ok-but-cache-invalid")
            return
        # served from the cache left behind?  swap the source for the other variant (same size, same mtime)
        put_source(other, extra, mtime)
        err = do_import()
        tr = trace_of(target)
        if err:
            bad("import-from-rewritten-cache-failed", label, err)
        elif tr != [src_tag] or not others_ok():
            bad("rewritten-cache-not-served", label, "trace=%s" % _TRACE)
        elif snap() != ref:
            bad("rewritten-cache-load-differs-from-source", label, "")
        oc("recompiled+valid-cache-left")

    Ls = set()
    spec = job.get("lengths") or {}
    for lo, hi, step in spec.get("ranges", []):
        Ls.update(range(lo, min(hi, len(C) + 1), step))
    if spec.get("tail"):
        Ls.update(range(max(0, len(C) - spec["tail"] + 1), len(C) + 1))
    for L in spec.get("list", []):
        if 0 <= L <= len(C):
            Ls.add(L)
    out["lengths_done"] = len(Ls)
    for L in sorted(Ls):
        case(L, L, expect_valid=(L == len(C)))
    if job.get("perturb"):
        loader_stats = loader.path_stats(src)
        for label, d2, mt, sz, ev in _header_perturbations(C, loader_stats["mtime"], loader_stats["size"]):
            if label in ("empty", "header-only"):
                case(label, d2)
            elif label == "mtime+1":  # the header says one second LATER than the source: source mtime = T-1
                case("source-mtime-1", C, mtime=T - 1)
            elif label == "mtime-1":
                case("source-mtime+1", C, mtime=T + 1)
            elif label == "size+1":  # the header says one byte MORE than the source (trailing newline dropped)
                case("source-size-1", C, extra="<drop-last-byte>")
            elif label == "size-1":
                case("source-size+1", C, extra="\n")
            else:
                case(label, d2, expect_valid=ev)
        # a far-apart edit as well
        case("source-size+7-mtime+3600", C, extra=" ;; x\n\n", mtime=T + 3600)
        # a source dated beyond the 32-bit range of the header's mtime field (file systems allow it)
        case("source-mtime+2^32", C, mtime=2**32 + T % 100000)
    out["writer"] = wstats
    return out


def child_main(jobfile):
    job = json.loads(Path(jobfile).read_text())
    t0 = time.time()
    try:
        _child_boot(job)
        boot = time.time() - t0
        fn = {"load": _job_load, "decode": _job_decode, "fullpath": _job_fullpath}[job["kind"]]
        res = fn(job)
        res["boot_s"] = round(boot, 2)
        res["wall_s"] = round(time.time() - t0, 2)
        res["core_served"] = [[k, o] for (f, k, o) in _LOG if f == "basilisp.core"]
        res["preinit"] = bool(_PREINIT and _PREINIT[0])
        payload = {"ok": res}
    except BaseException:  # noqa
        import traceback

        payload = {"err": traceback.format_exc()[-3000:]}
    tmp = job["out"] + ".tmp"
    Path(tmp).write_text(json.dumps(payload))
    os.replace(tmp, job["out"])


# =========================================================================== PARENT SIDE

_STATE: dict = {}


def _state():
    if "dir" not in _STATE:
        d = tempfile.mkdtemp(prefix="verif-c14-%d-" % os.getpid(), dir="/var/tmp")
        _STATE["dir"] = d
        _STATE["pid"] = os.getpid()
        _STATE["writers"] = {}
        _STATE["n"] = 0
        gen = os.path.join(d, "gen")
        write_gen_tree(gen)
        t = int(time.time()) - 100
        for ns in GEN_ORDER:
            os.utime(os.path.join(gen, ns_relpath(ns)), (t, t))
        _STATE["gen"] = gen
        _STATE["native"] = str(env.ensure_native())

        def _cleanup(d=d, pid=os.getpid()):
            if os.getpid() == pid and not os.environ.get("VERIF_C14_KEEP"):
                shutil.rmtree(d, ignore_errors=True)

        atexit.register(_cleanup)
    return _STATE


def _child_environ(seed, prefix, gen):
    e = dict(os.environ)
    for k in ("PYTHONDONTWRITEBYTECODE", "BASILISP_DO_NOT_CACHE_NAMESPACES"):
        e.pop(k, None)
    e["PYTHONHASHSEED"] = str(seed)
    e["PYTHONPYCACHEPREFIX"] = prefix
    e["PYTHONPATH"] = "%s:%s" % (env.REPO / "src", gen)
    e["VERIF_REPO"] = str(env.REPO)
    e["BASILISP_EMIT_GENERATED_PYTHON"] = "false"
    return e


def _mkjob(kind, seed, prefix, gen, **kw):
    st = _state()
    st["n"] += 1
    base = os.path.join(st["dir"], "job%04d" % st["n"])
    job = dict(kw)
    job.update(kind=kind, repo=str(env.REPO), native=st["native"], out=base + ".out.json", gen=gen)
    return {"job": job, "file": base + ".json", "seed": seed, "prefix": prefix, "gen": gen, "log": base + ".log"}


def _run_children(specs, workers=None):
    """Run child interpreters (at most `workers` at a time); returns their result dicts in order."""
    workers = workers or env.ncores()
    pending = list(enumerate(specs))
    running = {}
    results = [None] * len(specs)
    while pending or running:
        while pending and len(running) < workers:
            i, sp = pending.pop(0)
            Path(sp["file"]).write_text(json.dumps(sp["job"]))
            if isinstance(sp["prefix"], _LazyPrefix) and not os.path.exists(sp["prefix"]):
                shutil.copytree(sp["prefix"].src, sp["prefix"])
            logf = open(sp["log"], "wb")
            p = subprocess.Popen(
                [sys.executable, os.path.abspath(__file__), "child", sp["file"]],
                env=_child_environ(sp["seed"], sp["prefix"], sp["gen"]),
                stdout=logf,
                stderr=subprocess.STDOUT,
                cwd="/var/tmp",
            )
            running[i] = (p, sp, logf, time.time())
        time.sleep(0.05)
        for i in list(running):
            p, sp, logf, t0 = running[i]
            rc = p.poll()
            if rc is None:
                if time.time() - t0 > 2400:
                    for q, _, _, _ in running.values():
                        q.kill()
                    raise env.HarnessError("C14 child timed out: %s" % sp["job"]["kind"])
                continue
            logf.close()
            del running[i]
            outp = Path(sp["job"]["out"])
            if rc != 0 or not outp.exists():
                for q, _, _, _ in running.values():
                    q.kill()
                raise env.HarnessError("C14 child (%s) exited %s: %s" % (sp["job"]["kind"], rc, Path(sp["log"]).read_text(errors="replace")[-1500:]))
            payload = json.loads(outp.read_text())
            if "err" in payload:
                for q, _, _, _ in running.values():
                    q.kill()
                raise env.HarnessError("C14 child (%s) failed:\n%s" % (sp["job"]["kind"], payload["err"]))
            results[i] = payload["ok"]
            outp.unlink()
            for d in sp.get("cleanup", ()):
                shutil.rmtree(d, ignore_errors=True)
    return results


class _LazyPrefix(str):
    """path of a private copy of a writer's cache prefix; the copy is made when the child is spawned"""

    src = None


def _fresh_prefix(src_prefix):
    st = _state()
    st["n"] += 1
    dst = _LazyPrefix(os.path.join(st["dir"], "pc%04d" % st["n"]))
    dst.src = src_prefix
    return dst


def _fresh_gen():
    st = _state()
    st["n"] += 1
    dst = os.path.join(st["dir"], "gen%04d" % st["n"])
    write_gen_tree(dst)
    return dst


def _writer_spec(seed, names):
    st = _state()
    prefix = os.path.join(st["dir"], "pc-w%d-%d" % (seed, st["n"]))
    os.makedirs(prefix)
    sp = _mkjob("load", seed, prefix, st["gen"], names=names, probes={n: PROBES.get(n, []) for n in names})
    return sp


def _ensure_writers(seeds, names):
    """from-source loads (one child per seed) that leave real caches in a prefix of their own"""
    st = _state()
    need = [s for s in seeds if s not in st["writers"] or not set(names) <= set(st["writers"][s]["names"])]
    specs = [_writer_spec(s, names) for s in need]
    for s, sp, out in zip(need, specs, _run_children(specs)):
        st["writers"][s] = {"names": list(names), "prefix": sp["prefix"], "out": out}
    return st["writers"]


def _source_path(ns):
    if ns in GEN:
        return os.path.join(_state()["gen"], ns_relpath(ns))
    rel = ns_relpath(ns)
    for cand in (rel, rel[:-4] + "/__init__.lpy"):
        p = env.REPO / "src" / cand
        if p.exists():
            return str(p)
    raise env.HarnessError("no source for %s" % ns)


def _diff(a, b, path, out, limit=6):
    if len(out) >= limit:
        return
    if type(a) != type(b):
        out.append([path, _short(a), _short(b)])
    elif isinstance(a, dict):
        for k in sorted(set(a) | set(b)):
            if k not in a:
                out.append([path + "/" + str(k), "<absent>", _short(b[k])])
            elif k not in b:
                out.append([path + "/" + str(k), _short(a[k]), "<absent>"])
            else:
                _diff(a[k], b[k], path + "/" + str(k), out, limit)
            if len(out) >= limit:
                return
    elif isinstance(a, list):
        if len(a) != len(b):
            out.append([path + "#len", len(a), len(b)])
        for i, (x, y) in enumerate(zip(a, b)):
            _diff(x, y, path + "[%d]" % i, out, limit)
            if len(out) >= limit:
                return
    elif a != b:
        out.append([path, _short(a), _short(b)])


def _short(x):
    s = x if isinstance(x, str) else json.dumps(x, sort_keys=True, default=str)
    return s if len(s) <= 160 else s[:157] + "..."


_MARK = " !NOT-THE-INTERNED-KEYWORD"


def _strip_marker(x):
    if isinstance(x, str):
        return x.replace(_MARK, "")
    if isinstance(x, list):
        return [_strip_marker(e) for e in x]
    if isinstance(x, dict):
        return {k: _strip_marker(v) for k, v in x.items()}
    return x


def _view(ent):
    return {"snapshot": ent.get("snapshot"), "probes": {t: r for t, r in ent.get("probes", [])}}


def _f14a_model(src_view, cache_view, w, r):
    """Model of F-14a: a keyword constant built by cached code written under another hash seed is interned under the
    writer's hash, hence is not the object the reader interns -- nothing else may differ: after removing the
    'not the interned keyword' marks the snapshots are equal, and the only probes that differ are identity tests
    (identical? / same?) that turn from true to false."""
    if w == r:
        return False
    cv = _strip_marker(cache_view)
    if src_view["snapshot"] != cv["snapshot"]:
        return False
    for t in set(src_view["probes"]) | set(cv["probes"]):
        a, b = src_view["probes"].get(t), cv["probes"].get(t)
        if a != b:
            if not ("identical?" in t or "same?" in t or "/probe)" in t):
                return False
            if json.dumps(a).replace("true", "false") != json.dumps(b):
                return False
    return True



# ---- planning


def _cache_file(writer, ns):
    return writer["out"]["ns"][ns]["cache"]["path"]


def _plan_decode(tier, writer, names_small, n_bins):
    """items for the decoding layer, packed into n_bins children by estimated cost (bytes parsed)"""
    work = []  # (cost, item)
    caps = []
    for ns in names_small:
        ent = writer["out"]["ns"][ns]
        L = ent["cache"]["len"]
        base = {"ns": ns, "cache": ent["cache"]["path"], "source": _source_path(ns)}
        work.append((L * 60, dict(base, mode="header")))
        nchunks = max(1, min(64, (L * L) // (40_000 * 40_000)))
        bounds = [int((L + 1) * (i / nchunks) ** 0.5) for i in range(nchunks + 1)]  # equal-cost chunks (cost ~ L^2)
        bounds[-1] = L + 1
        for lo, hi in zip(bounds, bounds[1:]):
            if hi > lo:
                work.append(((hi * hi - lo * lo) // 2 + (hi - lo) * 2000, dict(base, mode="range", lo=lo, hi=hi, step=1)))
    # the big one
    ent = writer["out"]["ns"][BIG]
    L = ent["cache"]["len"]
    base = {"ns": BIG, "cache": ent["cache"]["path"], "source": _source_path(BIG)}
    data = Path(ent["cache"]["path"]).read_bytes()
    lengths = set(range(0, min(4096, L + 1))) | set(range(max(0, L - 4095), L + 1))
    info = {"len": L}
    try:
        starts, top, end = marshal_boundaries(data[12:])
        ok = end == len(data) - 12 and len(top) == len(marshal.loads(data[12:]))
    except Exception:  # noqa
        ok = False
    if ok:
        chosen = top if tier == "quick" else starts
        lengths |= {12 + o for o in chosen}
        info["boundaries"] = len(chosen)
        info["boundary_kind"] = "top-level code objects" if tier == "quick" else "all marshal objects"
    else:
        caps.append("marshal walker does not understand this Python's code-object layout: object boundaries of %s not enumerated" % BIG)
    if tier != "quick":
        lengths |= set(range(0, L + 1, 997))
    caps.append(
        "%s (%d bytes) at the decoding layer: first/last 4 KiB, %s%s -- %d of %d prefix lengths"
        % (BIG, L, info.get("boundary_kind", "no boundaries"), "" if tier == "quick" else ", every 997th byte", len(lengths), L + 1)
    )
    info["lengths"] = len(lengths)
    ls = sorted(lengths)
    per = 400 if tier == "quick" else 1500
    for i in range(0, len(ls), per):
        chunk = ls[i : i + per]
        work.append((sum(chunk) * 3, dict(base, mode="list", lengths=chunk)))
    work.append((L * 60 * 3, dict(base, mode="header")))
    work.sort(key=lambda w: -w[0])
    bins = [[0, []] for _ in range(max(1, n_bins))]
    for cost, item in work:
        b = min(bins, key=lambda b: b[0])
        b[0] += cost
        b[1].append(item)
    return [b[1] for b in bins if b[1]], caps, info


FULLPATH_SMALL = [
    # (target whose cache is damaged, namespace imported, namespaces forgotten before each import)
    ("c14s.data", "c14s.data", ["c14s.data"]),
    ("c14s.data", "c14s.user", ["c14s.data", "c14s.user"]),  # damaged cache underneath the valid cache of its requirer
    ("c14s.func", "c14s.func", ["c14s.func"]),
    ("c14s.mac", "c14s.mac", ["c14s.mac"]),
    ("c14s.typ", "c14s.typ", ["c14s.typ"]),
    ("c14s.user", "c14s.user", ["c14s.data", "c14s.user"]),
]
FULLPATH_RICH = [(n, n, GEN_DEPS.get(n, []) + [n]) for n in GEN_RICH] + [("c14g.dep", "c14g.req", ["c14g.dep", "c14g.req"])]


def _plan_fullpath(tier, writer):
    """(scenario, lengths spec, perturb flag, exhaustive?) shards"""
    shards = []
    caps = []
    lens = {ns: writer["out"]["ns"][ns]["cache"]["len"] for ns in GEN_ORDER}
    if tier == "quick":
        step = 23
        for sc in FULLPATH_SMALL[:2]:
            L = lens[sc[0]]
            nsh = 4
            per = -(-(L + 64) // nsh)
            for i in range(nsh):
                spec = {"ranges": [[i * per + ((-i * per) % step), (i + 1) * per, step]]}
                if i == 0:
                    spec["ranges"].append([0, 16, 1])
                    spec["tail"] = 8
                shards.append((sc, spec, i == 0, False))
            caps.append("full import path (quick): %s via %s at every %drd crash point + first 16/last 8 bytes (%d-byte cache)" % (sc[0], sc[1], step, L))
        return shards, caps
    for sc in FULLPATH_SMALL:
        L = lens[sc[0]]
        per = 420
        n = -(-(L + 64) // per)
        for i in range(n):
            shards.append((sc, {"ranges": [[i * per, (i + 1) * per, 1]]}, i == 0, True))
    step = 331
    for sc in FULLPATH_RICH:
        L = lens[sc[0]]
        k = 8 if sc[0] in ("c14g.types", "c14g.dep") else 4
        per = -(-(L + 64) // k)
        for i in range(k):
            lo = i * per + ((-i * per) % step)
            shards.append((sc, {"ranges": [[lo, (i + 1) * per, step]]}, False, False))
        shards.append((sc, {"ranges": [[0, 32, 1]], "tail": 16}, False, False))
        shards.append((sc, {}, True, False))
        caps.append("full import path: %s via %s at every %dst crash point + first 32/last 16 bytes (%d-byte cache)" % (sc[0], sc[1], step, L))
    return shards, caps


def _fullpath_spec(warm_prefix, sc, spec, perturb):
    gen = _fresh_gen()
    sp = _mkjob("fullpath", 0, _fresh_prefix(warm_prefix), gen, target=sc[0], top=sc[1], reset=sc[2], lengths=spec, perturb=perturb)
    sp["cleanup"] = [sp["prefix"], gen]
    return sp



# ---- judging


def _agg_fail(res, part, ns, fails, extra_case=None, **kw):
    for kind, f in sorted(fails.items()):
        case = {"part": part, "ns": ns, "label": f["first"][0]}
        case.update(extra_case or {})
        kw2 = dict(kw)
        # model of F-14b: the loader compares the 32-bit header fields with the unmasked source mtime, so ONLY a source dated
        # outside 0..2^32-1 seconds gets a cache that is written correctly and yet never served
        if kind == "rewritten-cache-not-served" and f["count"] == len(f["first"]) and all(str(l) == "source-mtime+2^32" for l in f["first"]):
            kw2["explained_by"] = "F-14b-mtime-beyond-32-bits"
        res.fail(kind, case, count=f["count"], first_labels=f["first"], detail=f["detail"], **kw2)


def _judge_writer(res, seed, names, out):
    for ns in names:
        ent = out["ns"][ns]
        res.evaluations += 1
        res.transitions += 1
        case = {"part": "compile", "ns": ns, "seed": seed}
        if "error" in ent:
            res.fail("import-from-source-failed", case, detail=ent["error"][:400])
            continue
        res.distinct.add(("compile", ns, seed))
        src_ok = [k for k, o in ent["served"] if o == "ok"]
        res.outcomes.add("first-import:" + "+".join(src_ok))
        if not ent["cache"]["valid"]:
            res.fail("no-valid-cache-after-compile", case, detail=json.dumps({k: v for k, v in ent["cache"].items() if k != "path"}))
        if ns in GEN and ent["trace"] != [ns + ":A"] and not (ns in GEN_DEPS and ent["trace"][-1:] == [ns + ":A"]):
            res.fail("unexpected-execution-trace", case, detail=str(ent["trace"]))


def _judge_pair(res, w, r, names, src_out, cache_out):
    served = 0
    for ns in names:
        res.evaluations += 1
        res.transitions += 1
        case = {"part": "seeds", "ns": ns, "writer": w, "reader": r}
        res.distinct.add(("seeds", ns, w, r))
        c = cache_out["ns"][ns]
        s = src_out["ns"][ns]
        if "error" in s:
            continue  # reported by _judge_writer
        if "error" in c:
            res.fail("import-with-valid-cache-failed", case, detail=c["error"][:400])
            continue
        how = "+".join("%s:%s" % (k, o) for k, o in c["served"]) or "loaded-before-the-harness-could-count"
        res.outcomes.add("reader:" + how)
        if how == "cached:ok":
            served += 1
        if ns in GEN and c["trace"][-1:] != [ns + ":A"]:
            res.fail("unexpected-execution-trace", case, detail=str(c["trace"]))
        sv, cv = _view(s), _view(c)
        if sv != cv:
            d = []
            _diff(sv, cv, "", d)
            kw = {}
            if _f14a_model(sv, cv, w, r):
                kw["explained_by"] = "F-14a-keyword-identity"
            res.outcomes.add("differs" + (":" + kw["explained_by"] if kw else ""))
            res.fail("cache-load-differs-from-source", case, served=how, diffs=d, **kw)
        else:
            res.outcomes.add("equal-to-source")
    return served


def _judge_decode(res, out, tier):
    for it in out["items"]:
        res.evaluations += it["n"]
        res.transitions += it["n"]
        res.distinct_count += it["n"]
        for k, v in it["outcomes"].items():
            res.outcomes.add("decode:" + k)
        res.part("decode:" + it["ns"], **{("prefixes" if it["mode"] != "header" else "header_perturbations"): it["n"]})
        res.part("decode:" + it["ns"], cache_len=str(it["len"]))
        for k, v in it["outcomes"].items():
            res.part("decode-outcomes", **{k: v})
        _agg_fail(res, "decode", it["ns"], it["fails"], {"mode": it["mode"]})


def _judge_fullpath(res, sc, out):
    name = "fullpath:%s via %s" % (sc[0], sc[1])
    if out["harness"]:
        raise env.HarnessError("C14 fullpath %s: %s" % (name, out["harness"][0]))
    res.evaluations += out["n"]
    res.transitions += out["imports"]
    res.distinct_count += out["n"]
    for k, v in out["outcomes"].items():
        res.outcomes.add("fullpath:" + k)
    res.part(name, cases=out["n"], imports=out["imports"], crash_points=out.get("lengths_done", 0), **out["parts"])
    res.part("fullpath-outcomes", **out["outcomes"])
    _agg_fail(res, "fullpath", sc[0], out["fails"], {"top": sc[1], "reset": sc[2]})


# ---- run


def run(tier, seed):
    res = Result()
    st = _state()
    seeds = QUICK_SEEDS if tier == "quick" else THOROUGH_SEEDS
    bundled = BUNDLED_QUICK if tier == "quick" else BUNDLED_ALL
    names = bundled + GEN_ORDER
    t0 = time.time()

    # stage 1: from-source loads, one per seed; they leave the real caches behind
    writers = _ensure_writers(seeds, names)
    for s in seeds:
        _judge_writer(res, s, names, writers[s]["out"])
    res.part("stage1", writers=len(seeds), namespaces=len(names), wall_s=round(time.time() - t0, 1))
    # harness self-check (not an oracle): the snapshot function itself does not depend on the hash seed
    for ns in names:
        views = [_view(writers[s]["out"]["ns"][ns]) for s in seeds if "error" not in writers[s]["out"]["ns"][ns]]
        if all(v == views[0] for v in views[1:]):
            res.part("stage1", source_snapshots_equal_across_seeds=1)
        else:
            d = []
            for v in views[1:]:
                _diff(views[0], v, "", d, limit=2)
            res.notes.append("from-source snapshot of %s differs between hash seeds (compared per reader seed only): %s" % (ns, json.dumps(d)[:300]))
    if any("error" in writers[s]["out"]["ns"][BIG] for s in seeds):
        return res
    w0 = writers[seeds[0]]

    # stage 2: everything else runs concurrently
    specs, tags = [], []
    pairs = [(w, r) for w in seeds for r in seeds]
    if seed:
        pairs = pairs[seed % len(pairs) :] + pairs[: seed % len(pairs)]
    for w, r in pairs:
        specs.append(_mkjob("load", r, _fresh_prefix(writers[w]["prefix"]), st["gen"], names=names, probes={n: PROBES.get(n, []) for n in names}))
        specs[-1]["cleanup"] = [specs[-1]["prefix"]]
        tags.append(("pair", (w, r)))
    small = GEN_ORDER + (DECODE_BUNDLED_QUICK if tier == "quick" else [b for b in bundled if b != BIG])
    bins, dcaps, dinfo = _plan_decode(tier, w0, small, 3 if tier == "quick" else max(4, env.ncores()))
    for items in bins:
        specs.append(_mkjob("decode", 0, _fresh_prefix(w0["prefix"]), st["gen"], items=items))
        specs[-1]["cleanup"] = [specs[-1]["prefix"]]
        tags.append(("decode", None))
    shards, fcaps = _plan_fullpath(tier, w0)
    for sc, spec, perturb, _ex in shards:
        specs.append(_fullpath_spec(w0["prefix"], sc, spec, perturb))
        tags.append(("fullpath", sc))
    # longest first: fullpath shards of the slow namespaces, then decode, then the readers
    def _prio(i):
        kind, key = tags[i]
        if kind == "fullpath":
            return (0, 0 if key[0] in ("c14g.types", "c14g.dep") else 1 if key[0] in GEN_RICH else 2)
        return ({"decode": 1, "pair": 2}[kind], 0)

    order = sorted(range(len(specs)), key=_prio)
    outs = [None] * len(specs)
    for i, o in zip(order, _run_children([specs[i] for i in order])):
        outs[i] = o

    served_total = 0
    if any(o.get("preinit") for o in outs) or any(writers[s]["out"].get("preinit") for s in seeds):
        res.notes.append("some child interpreters were initialised by a basilispbootstrap.pth present in site-packages at the time (installed temporarily by the repo's CLI tests); their bootstrap namespaces are not counted in served_from_cache")
    fp_lens = {}
    fp_done = {}
    caught = None
    for (kind, key), o in zip(tags, outs):
        if kind == "pair":
            w, r = key
            served_total += _judge_pair(res, w, r, names, writers[r]["out"], o)
            res.part("seeds", pairs=1, namespace_loads=len(names), cross_seed_pairs=int(w != r))
        elif kind == "decode":
            _judge_decode(res, o, tier)
            caught = (o["caught"], o["caught_from"])
        else:
            _judge_fullpath(res, key, o)
            k = (key[0], key[1])
            fp_lens.setdefault(k, set()).add(o.get("cache_len"))
            fp_done[k] = fp_done.get(k, 0) + o.get("lengths_done", 0)
    if served_total == 0:
        raise env.HarnessError("C14: no namespace was served from a valid cache in any reader process; the transparency comparison would be vacuous")
    res.part("seeds", served_from_cache=served_total)
    if caught:
        res.notes.append("exception types caught by the loader's fallback (%s): %s" % (caught[1], ", ".join(caught[0])))
    res.part("decode:" + BIG, **{k: v for k, v in dinfo.items() if k in ("boundaries",)})
    # completeness of the exhaustive full-path scenarios
    for sc, spec, perturb, ex in shards:
        k = (sc[0], sc[1])
        if ex and k in fp_lens:
            ls = fp_lens.pop(k)
            if len(ls) != 1:
                res.caps.append("full import path %s via %s: cache length differed between shards %s" % (sc[0], sc[1], sorted(ls)))
            elif fp_done[k] != list(ls)[0] + 1:
                res.caps.append("full import path %s via %s: %d of %d crash points executed" % (sc[0], sc[1], fp_done[k], list(ls)[0] + 1))
            else:
                res.part("fullpath:%s via %s" % k, exhaustive=True, cache_bytes=list(ls)[0])
    res.caps.extend(dcaps)
    res.caps.extend(fcaps)
    res.sample({"part": "fullpath", "target": "c14s.data", "crash_point": 137, "expect": "import ok, trace == [c14s.data:B] (source ran, cache did not), snapshot == from-source, valid cache left, next import served from it"})
    res.sample({"part": "decode", "ns": "basilisp.core", "prefix": 12 + 1, "expect": "EOFError/ImportError/OSError from _get_basilisp_bytecode"})
    res.sample({"part": "seeds", "ns": "c14g.kws", "writer": seeds[0], "reader": seeds[-1], "probe": "(c14g.kws/same? :c14-plain-kw)"})
    return res


# ---- replay


def replay(failure):
    case = failure.get("case") or {}
    part = case.get("part")
    res = Result()
    st = _state()
    if part == "compile":
        names = [BIG] + [n for n in GEN_DEPS.get(case["ns"], []) + [case["ns"]] if n != BIG]
        sp = _writer_spec(case["seed"], names)
        out = _run_children([sp])[0]
        _judge_writer(res, case["seed"], [case["ns"]], out)
    elif part == "seeds":
        ns, w, r = case["ns"], case["writer"], case["reader"]
        names = [BIG] + [n for n in GEN_DEPS.get(ns, []) + [ns] if n != BIG]
        writers = _ensure_writers(sorted({w, r}), names)
        sp = _mkjob("load", r, _fresh_prefix(writers[w]["prefix"]), st["gen"], names=writers[w]["names"], probes={n: PROBES.get(n, []) for n in writers[w]["names"]})
        out = _run_children([sp])[0]
        _judge_pair(res, w, r, [ns], writers[r]["out"], out)
    elif part == "decode":
        ns = case["ns"]
        names = [BIG] + ([ns] if ns != BIG else [])
        writers = _ensure_writers([QUICK_SEEDS[0]], names)
        w0 = writers[QUICK_SEEDS[0]]
        ent = w0["out"]["ns"][ns]
        item = {"ns": ns, "cache": ent["cache"]["path"], "source": _source_path(ns)}
        if case.get("mode") == "header":
            item["mode"] = "header"
        else:
            item.update(mode="list", lengths=[int(case["label"])])
        out = _run_children([_mkjob("decode", 0, _fresh_prefix(w0["prefix"]), st["gen"], items=[item])])[0]
        for it in out["items"]:
            fails = {k: f for k, f in it["fails"].items() if k == failure["kind"] and (case.get("mode") != "header" or case["label"] in f["first"] or f["count"] > 5)}
            _agg_fail(res, "decode", ns, fails, {"mode": it["mode"]})
    elif part == "fullpath":
        writers = _ensure_writers([QUICK_SEEDS[0]], [BIG])
        w0 = writers[QUICK_SEEDS[0]]
        sc = (case["ns"], case["top"], case["reset"])
        label = case["label"]
        if isinstance(label, int) or (isinstance(label, str) and label.isdigit()):
            spec, perturb = {"list": [int(label)]}, False
        else:
            spec, perturb = {}, True
        out = _run_children([_fullpath_spec(w0["prefix"], sc, spec, perturb)])[0]
        if out["harness"]:
            raise env.HarnessError(out["harness"][0])
        fails = {k: f for k, f in out["fails"].items() if k == failure["kind"]}
        _agg_fail(res, "fullpath", sc[0], fails, {"top": sc[1], "reset": sc[2]})
    else:
        return None
    for f in res.failures:
        if f["kind"] == failure["kind"]:
            return f
    return None


if __name__ == "__main__":
    if len(sys.argv) == 3 and sys.argv[1] == "child":
        child_main(sys.argv[2])
        sys.exit(0)
    print("usage: c14.py child <job.json>   (run the check with /verif/run.py C14)")
    sys.exit(2)
