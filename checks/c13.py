"""C13 — delays run once, promises deliver once, futures yield their body's outcome.

Engine A: every schedule up to a preemption (and timeout) bound of 2-4 real threads racing to
force one delay / deliver to and deref one promise / deref one future.
"""
from __future__ import annotations

import concurrent.futures
import itertools
import threading

from vlib import env, sched
from vlib.evidence import Result

PROPERTY = "C13"
LEVEL = "model_checking"
BOUNDS = {
    "quick": "preemption bound 2 (timeouts count as deviations): delay x {2,3 threads} x 4 body kinds x ops {deref, force, realized?}; promise: 1-2 deliverers x 1-2 derefs (timed/untimed) + realized? sampler; future: body returns/throws/blocks x 1-2 derefs (timed/untimed), cancel before/after",
    "thorough": "preemption bound 3 for 2-thread scenarios, 4 threads x 1 op at bound 2, two timeouts",
}
RULE = (
    "engine A: for each scenario every schedule with at most k deviations (preemptions + fired timeouts) is run to completion on the real Delay / Promise / "
    "Future objects whose locks and conditions are cooperative; scheduling points: source lines of delay.py, promise.py, futures.py and atom.py frames of "
    "objects under test, lock/condition operations, explicit yields in bodies; distinct = (scenario, schedule); non-trivial = at least one deviation"
)
ASSUMPTIONS = [
    "sequential reference: delay = run-once cell; promise = write-once cell with blocking read; future = outcome cell set by the worker thread",
    "a timed wait is an environment choice: while the waiter is blocked the scheduler may fire its timeout (costs one deviation); there is no real time",
    "the executor used for futures is a scheduler-aware stand-in installed for the scenario (one controlled thread per submitted task); ThreadPoolExecutor's own queueing is not explored",
]

TRACE_FILES = ("basilisp/lang/delay.py", "basilisp/lang/promise.py", "basilisp/lang/futures.py", "basilisp/lang/atom.py", "basilisp/lang/reference.py")

_PATCHED = False
_CORE = {}


def core(name):
    f = _CORE.get(name)
    if f is None:
        f = _CORE[name] = env.core_fn(name)
    return f


def patch():
    global _PATCHED
    if _PATCHED:
        return
    import basilisp.lang.atom as atom_mod
    import basilisp.lang.promise as promise_mod
    import basilisp.lang.delay as delay_mod

    atom_mod.threading = sched.SHIM
    promise_mod.threading = sched.SHIM
    if hasattr(delay_mod, "threading"):
        delay_mod.threading = sched.SHIM
    for n in ("deref", "force", "realized?", "deliver", "future-call", "future-cancel", "future-done?", "future-cancelled?"):
        core(n)
    _PATCHED = True


_REAL_LOCK_TYPES = (type(threading.Lock()), type(threading.RLock()), threading.Condition)


def _is_real_lock(o):
    return isinstance(o, _REAL_LOCK_TYPES)


def frame_filter(frame):
    """trace only frames of objects under test: their lock/condition is cooperative"""
    slf = frame.f_locals.get("self")
    if slf is None:
        return frame.f_code.co_filename.endswith("delay.py")  # static helper __deref of Delay
    for attr in ("_lock", "_condition"):
        o = getattr(slf, attr, None)
        if isinstance(o, (sched.CoopRLock, sched.CoopCondition)):
            return True
    if type(slf).__name__ == "Delay":
        st = getattr(slf, "_state", None)
        if isinstance(getattr(st, "_lock", None), sched.CoopRLock) or isinstance(getattr(slf, "_lock", None), sched.CoopRLock):
            return True
        if frame.f_code.co_name == "__init__":
            return False  # under construction: not yet visible to another thread
        # a Delay that holds no REAL lock is safe to park in as well (an implementation may create its lock late: the window
        # before the lock exists is exactly where a check-then-act race would sit)
        return not any(_is_real_lock(getattr(o, "_lock", None)) for o in (slf, st) if o is not None)
    if type(slf).__name__ == "Future":
        return True
    return False


def sched_kwargs():
    return dict(trace_files=TRACE_FILES, spin_limit=8, horizon=4000, frame_filter=frame_filter)


class Boom(Exception):
    pass


def show(v):
    from basilisp.lang import runtime

    try:
        return runtime.lrepr(v)
    except Exception:
        return repr(v)


# ----------------------------------------------------------------------------- delay


def delay_factory(sc):
    """sc: dict(kind='delay', body=..., threads=[[op,...],...]) ops: deref | force | realized?"""
    from basilisp.lang import delay as delay_mod

    def make(s):
        st = {"runs": 0, "active": 0, "max_active": 0, "returned": 0, "run_after_return": 0, "log": []}
        gate = {"open": False}

        def body():
            st["runs"] += 1
            n = st["runs"]
            if st["returned"] > 0:
                st["run_after_return"] += 1
            st["active"] += 1
            st["max_active"] = max(st["max_active"], st["active"])
            try:
                if sc["body"] in ("slow", "throw-first-slow"):
                    sched.yield_point("body:1")
                    sched.yield_point("body:2")
                if sc["body"] == "blocks":
                    # wait until some other thread opens the gate (the last thread does so before its own op)
                    while not gate["open"]:
                        s.yield_point("body:blocked", blocked_on=lambda: gate["open"])
                if sc["body"].startswith("throw-first") and n == 1:
                    raise Boom()
                v = ("value", n)
                st["returned"] += 1
                return v
            finally:
                st["active"] -= 1

        d = delay_mod.Delay(body)
        hist = []

        def thread_body(tid, ops):
            def run():
                for idx, op in enumerate(ops):
                    sched.yield_point(f"op:{op}")
                    call = s.step
                    try:
                        if op == "deref":
                            r = ("ok", core("deref")(d))
                        elif op == "force":
                            r = ("ok", core("force")(d))
                        elif op == "realized?":
                            r = ("ok", core("realized?")(d))
                        elif op == "open-gate":
                            gate["open"] = True
                            r = ("ok", None)
                        else:
                            raise ValueError(op)
                    except sched.Abort:
                        raise
                    except Exception as e:  # noqa
                        r = ("exc", type(e).__name__)
                    hist.append({"tid": tid, "idx": idx, "op": op, "call": call, "ret": s.step, "result": r, "returned_at_ret": st["returned"]})
            return run

        for tid, ops in enumerate(sc["threads"]):
            s.spawn(thread_body(tid, ops))
        return (d, st, hist)

    return make


def delay_check(sc, ex, ctx, res, case):
    d, st, hist = ctx
    nops = sum(len(t) for t in sc["threads"])
    if len(hist) != nops:
        res.fail("operation-did-not-complete", case, completed=len(hist), expected=nops)
        return
    res.outcomes.add(("delay", st["runs"], st["max_active"], tuple(sorted((h["op"], h["result"][0], str(h["result"][1])) for h in hist))))
    if st["max_active"] > 1:
        res.fail("delay-body-run-by-two-threads-at-once", case, runs=st["runs"])
    if st["run_after_return"] > 0:
        res.fail("delay-body-run-again-after-a-run-returned", case, runs=st["runs"])
    vals = [h["result"][1] for h in hist if h["op"] in ("deref", "force") and h["result"][0] == "ok"]
    if any(v != vals[0] for v in vals[1:]):
        res.fail("delay-derefs-differ", case, values=[str(v) for v in vals])
    for h in hist:
        if h["op"] in ("deref", "force") and h["result"][0] == "exc":
            if not (sc["body"].startswith("throw-first") and h["result"][1] == "Boom"):
                res.fail("delay-deref-raises", case, exc=h["result"][1])
    # realized? monotone along the global step order: once an op *returned* true (or a deref returned a value), no later-called realized? may be false
    events = sorted(hist, key=lambda h: h["call"])
    for h in events:
        if h["op"] == "realized?" and h["result"] == ("ok", False):
            for g in hist:
                if g["ret"] < h["call"] and ((g["op"] == "realized?" and g["result"] == ("ok", True)) or (g["op"] in ("deref", "force") and g["result"][0] == "ok")):
                    res.fail("realized?-not-monotone", case, earlier=g["op"])
        if h["op"] == "realized?" and h["result"] == ("ok", True) and h["returned_at_ret"] == 0:
            res.fail("realized?-true-before-any-run-returned", case)


# ----------------------------------------------------------------------------- promise


def promise_factory(sc):
    from basilisp.lang import promise as promise_mod

    def make(s):
        p = promise_mod.Promise()
        hist = []

        def thread_body(tid, ops):
            def run():
                for idx, op in enumerate(ops):
                    sched.yield_point(f"op:{op}")
                    call = s.step
                    timeout_step = None
                    try:
                        if op.startswith("deliver"):
                            r = ("ok", core("deliver")(p, op.split(":")[1]))
                            r = ("ok", None)
                        elif op == "deref":
                            r = ("ok", core("deref")(p))
                        elif op == "deref-timed":
                            r = ("ok", core("deref")(p, 100, "TIMEOUT"))
                        elif op == "realized?":
                            r = ("ok", core("realized?")(p))
                        else:
                            raise ValueError(op)
                    except sched.Abort:
                        raise
                    except Exception as e:  # noqa
                        r = ("exc", type(e).__name__)
                    hist.append({"tid": sched.current_tid(), "idx": idx, "op": op, "call": call, "ret": s.step, "result": r})
            return run

        for tid, ops in enumerate(sc["threads"]):
            s.spawn(thread_body(tid, ops))
        return (p, hist)

    return make


def promise_lin(hist, timeout_steps):
    """brute-force linearizability against a write-once cell."""
    n = len(hist)
    eff_ret = []
    for h in hist:
        r = h["ret"]
        if h["op"] == "deref-timed" and h["result"] == ("ok", "TIMEOUT"):
            ts = [t for (tid, t) in timeout_steps if tid == h["tid"] and h["call"] <= t <= h["ret"]]
            if ts:
                r = ts[0]  # the decision not to wait any longer was taken here
        eff_ret.append(r)
    before = [[i != j and (eff_ret[i] < hist[j]["call"] or (hist[i]["tid"] == hist[j]["tid"] and hist[i]["idx"] < hist[j]["idx"])) for j in range(n)] for i in range(n)]

    def rec(done, state):
        if len(done) == n:
            return True
        for i in range(n):
            if i in done or any(before[j][i] and j not in done for j in range(n)):
                continue
            h = hist[i]
            op, r = h["op"], h["result"]
            ns = state
            if op.startswith("deliver"):
                if r != ("ok", None):
                    continue
                if state is None:
                    ns = ("v", op.split(":")[1])
            elif op == "deref":
                if state is None or r != ("ok", state[1]):
                    continue
            elif op == "deref-timed":
                exp = ("ok", state[1]) if state is not None else ("ok", "TIMEOUT")
                if r != exp:
                    continue
            elif op == "realized?":
                if r != ("ok", state is not None):
                    continue
            if rec(done + [i], ns):
                return True
        return False

    return rec([], None)


def promise_check(sc, ex, ctx, res, case):
    p, hist = ctx
    nops = sum(len(t) for t in sc["threads"])
    delivered = any(op.startswith("deliver") for t in sc["threads"] for op in t)
    if ex.outcome == "deadlock" and not delivered:
        return  # an untimed deref of a promise nobody delivers blocks for ever: expected, not explored further
    if len(hist) != nops:
        res.fail("operation-did-not-complete", case, completed=len(hist), expected=nops, outcome=ex.outcome)
        return
    tsteps = getattr(ex, "timeout_steps", [])
    res.outcomes.add(("promise", tuple(sorted((h["op"], str(h["result"])) for h in hist))))
    if not promise_lin(hist, tsteps):
        res.fail("promise-history-not-linearizable", case, history=[{"tid": h["tid"], "op": h["op"], "call": h["call"], "ret": h["ret"], "result": [h["result"][0], str(h["result"][1])]} for h in hist], timeouts=tsteps)


# ----------------------------------------------------------------------------- future


class SchedExecutor:
    """Scheduler-aware stand-in for the futures executor: each submitted task runs in its own controlled thread."""

    def __init__(self, s):
        self.s = s

    def submit(self, fn, *args, **kwargs):
        from basilisp.lang import futures as futures_mod

        saved = concurrent.futures._base.threading
        concurrent.futures._base.threading = sched.SHIM
        try:
            f = concurrent.futures.Future()
        finally:
            concurrent.futures._base.threading = saved

        def work():
            if not f.set_running_or_notify_cancel():
                return
            try:
                r = fn(*args, **kwargs)
            except sched.Abort:
                raise
            except BaseException as e:  # noqa
                f.set_exception(e)
            else:
                f.set_result(r)

        self.s.spawn(work, name="worker")
        return futures_mod.Future(f)


def future_factory(sc):
    def make(s):
        gate = {"open": False}
        st = {"runs": 0}

        def body():
            st["runs"] += 1
            if sc["body"] == "slow":
                sched.yield_point("body:1")
            if sc["body"] == "blocks":
                while not gate["open"]:
                    s.yield_point("body:blocked", blocked_on=lambda: gate["open"])
            if sc["body"] == "throws":
                raise Boom()
            return "RESULT"

        hist = []
        holder = {}

        def thread_body(tid, ops):
            def run():
                for idx, op in enumerate(ops):
                    sched.yield_point(f"op:{op}")
                    call = s.step
                    try:
                        if op == "submit":
                            holder["f"] = core("future-call")(body, SchedExecutor(s))
                            r = ("ok", None)
                        elif op == "deref":
                            r = ("ok", core("deref")(holder["f"]))
                        elif op == "deref-timed":
                            r = ("ok", core("deref")(holder["f"], 100, "TIMEOUT"))
                        elif op == "realized?":
                            r = ("ok", core("realized?")(holder["f"]))
                        elif op == "done?":
                            r = ("ok", core("future-done?")(holder["f"]))
                        elif op == "cancel":
                            r = ("ok", core("future-cancel")(holder["f"]))
                        elif op == "open-gate":
                            gate["open"] = True
                            r = ("ok", None)
                        else:
                            raise ValueError(op)
                    except sched.Abort:
                        raise
                    except Exception as e:  # noqa
                        r = ("exc", type(e).__name__)
                    hist.append({"tid": sched.current_tid(), "idx": idx, "op": op, "call": call, "ret": s.step, "result": r, "runs": st["runs"]})
            return run

        # thread 0 always submits first, then the scenario's threads start (they are spawned by thread 0 after submit)
        def main():
            thread_body(0, ["submit"])()
            for tid, ops in enumerate(sc["threads"], start=1):
                s.spawn(thread_body(tid, ops))

        s.spawn(main)
        return (holder, st, hist)

    return make


def future_check(sc, ex, ctx, res, case):
    holder, st, hist = ctx
    nops = 1 + sum(len(t) for t in sc["threads"])
    if len(hist) != nops:
        res.fail("operation-did-not-complete", case, completed=len(hist), expected=nops, outcome=ex.outcome)
        return
    res.outcomes.add(("future", st["runs"], tuple(sorted((h["op"], str(h["result"])) for h in hist))))
    cancelled_ok = any(h["op"] == "cancel" and h["result"] == ("ok", True) for h in hist)
    tsteps = getattr(ex, "timeout_steps", [])
    for h in hist:
        if h["op"] == "deref":
            if cancelled_ok and h["result"] == ("exc", "CancelledError"):
                continue
            exp = ("exc", "Boom") if sc["body"] == "throws" else ("ok", "RESULT")
            if h["result"] != exp:
                res.fail("future-deref-wrong-outcome", case, got=str(h["result"]), expected=str(exp))
        if h["op"] == "deref-timed":
            if cancelled_ok and h["result"] == ("exc", "CancelledError"):
                continue
            exp = ("exc", "Boom") if sc["body"] == "throws" else ("ok", "RESULT")
            fired = any(tid == h["tid"] and h["call"] <= t <= h["ret"] for tid, t in tsteps)
            if h["result"] == ("ok", "TIMEOUT"):
                if not fired:
                    res.fail("future-timed-deref-returned-timeout-value-without-timeout", case)
            elif h["result"] != exp:
                res.fail("future-deref-wrong-outcome", case, got=str(h["result"]), expected=str(exp))
    # realized? / done? monotone
    for h in hist:
        if h["op"] in ("realized?", "done?") and h["result"] == ("ok", False):
            for g in hist:
                if g["ret"] < h["call"] and ((g["op"] in ("realized?", "done?") and g["result"] == ("ok", True)) or (g["op"] == "deref" and g["result"][0] == "ok")):
                    res.fail("realized?-not-monotone", case, earlier=g["op"])
    if st["runs"] > 1:
        res.fail("future-body-ran-more-than-once", case, runs=st["runs"])
    if cancelled_ok and st["runs"] > 0 and any(h["op"] == "cancel" and h["result"] == ("ok", True) and h["runs"] == 0 for h in hist):
        # cancel succeeded before the body started, yet the body ran later
        if st["runs"] > 0 and not any(h["op"] == "cancel" and h["runs"] > 0 for h in hist):
            res.fail("future-body-ran-after-successful-cancel", case)


FACTORIES = {"delay": (delay_factory, delay_check), "promise": (promise_factory, promise_check), "future": (future_factory, future_check)}


def scenarios(tier):
    quick = tier == "quick"
    scs = []
    # delay
    dops = ["deref", "force", "realized?"]
    for body in ["pure", "slow", "throw-first", "throw-first-slow"]:
        for pair in itertools.combinations_with_replacement(dops, 2):
            if pair == ("realized?", "realized?"):
                continue
            scs.append((dict(kind="delay", body=body, threads=[[pair[0]], [pair[1]]]), 2 if quick else 3))
        for tri in ([("deref", "deref", "deref"), ("deref", "force", "realized?")] if quick else itertools.combinations_with_replacement(dops, 3)):
            scs.append((dict(kind="delay", body=body, threads=[[x] for x in tri]), 2))
        scs.append((dict(kind="delay", body=body, threads=[["realized?", "deref", "realized?"], ["deref", "realized?"]]), 2 if quick else 3))
    scs.append((dict(kind="delay", body="blocks", threads=[["deref"], ["deref"], ["open-gate", "deref"]]), 2))
    if not quick:
        scs.append((dict(kind="delay", body="slow", threads=[["deref"], ["deref"], ["force"], ["realized?"]]), 2))
        scs.append((dict(kind="delay", body="throw-first-slow", threads=[["deref"], ["deref"], ["force"], ["deref"]]), 2))
    # promise
    scs += [
        (dict(kind="promise", threads=[["deliver:A"], ["deref"]]), 2 if quick else 3),
        (dict(kind="promise", threads=[["deliver:A"], ["deref-timed"]]), 2 if quick else 3),
        (dict(kind="promise", threads=[["deliver:A"], ["deliver:B"], ["deref"]]), 1 if quick else 2),
        (dict(kind="promise", threads=[["deliver:A", "deref"], ["deliver:B", "deref"]]), 2 if quick else 3),
        (dict(kind="promise", threads=[["deliver:A"], ["realized?", "deref", "realized?"]]), 2 if quick else 3),
        (dict(kind="promise", threads=[["deliver:A"], ["deliver:B"], ["deref-timed", "deref"]]), 1 if quick else 2),
        (dict(kind="promise", threads=[["deliver:A", "deliver:B"], ["deref"], ["deref-timed"]]), 1 if quick else 2),
        (dict(kind="promise", threads=[["deref-timed"], ["realized?"]]), 2),
        (dict(kind="promise", threads=[["deliver:A"], ["deref"], ["deref"], ["realized?"]]), 1 if quick else 2),
    ]
    # future
    for body in ["pure", "slow", "throws"]:
        scs += [
            (dict(kind="future", body=body, threads=[["deref"]]), 2 if quick else 3),
            (dict(kind="future", body=body, threads=[["deref-timed"]]), 2 if quick else 3),
            (dict(kind="future", body=body, threads=[["deref"], ["deref-timed"]]), 1 if quick else 2),
            (dict(kind="future", body=body, threads=[["realized?", "deref", "realized?"]]), 2 if quick else 3),
            (dict(kind="future", body=body, threads=[["cancel", "deref"]]), 2 if quick else 3),
            (dict(kind="future", body=body, threads=[["done?", "deref"], ["realized?", "deref"]]), 1 if quick else 2),
        ]
    scs.append((dict(kind="future", body="blocks", threads=[["deref-timed", "open-gate", "deref"]]), 2))
    scs.append((dict(kind="future", body="blocks", threads=[["deref"], ["open-gate"]]), 2))
    return scs


def _timeout_steps(ex):
    """global step numbers at which a timeout transition was taken: [(tid, step)]"""
    return list(getattr(ex, "timeouts", []))


def _explorer(sc, bound, res):
    factory, checker = FACTORIES[sc["kind"]]
    make = factory(sc)

    def check(ex, ctx):
        res.evaluations += 1
        res.transitions += ex.steps
        ndev = sum(sched.Execution.point_cost(p) for p in ex.points)
        if ndev:
            res.distinct_count += 1
        case = {"scenario": sc, "choices": list(ex.choices), "bound": bound}
        ex.timeout_steps = [(tid, step) for (step, tid, *rest) in ex.log if rest and rest[0] == "timeout-fired"]
        if ex.outcome not in ("ok",) and not (ex.outcome == "deadlock" and sc["kind"] == "promise"):
            res.fail("schedule-" + ex.outcome, case, detail=ex.detail[:300])
            return
        checker(sc, ex, ctx, res, case)

    return sched.Explorer(make, check, bound, sched_kwargs())


def explore_scenario(args):
    """whole scenario in one process (used by replay/debugging)"""
    sc, bound = args
    patch()
    res = Result()
    E = _explorer(sc, bound, res)
    E.explore([])
    res.part(f"{sc['kind']}", scenarios=1, schedules=E.executions, steps=E.steps)
    return res.compact()


def stage1(args):
    """expand the schedule tree of one scenario breadth-first until >= 24 open subtrees exist (or it is exhausted)"""
    sc, bound = args
    patch()
    res = Result()
    E = _explorer(sc, bound, res)
    open_ = E.frontier(24)
    res.part(f"{sc['kind']}", scenarios=1, schedules=E.executions, steps=E.steps)
    if not res.samples:
        ex, ctx = E.run_one([])
        res.sample({"scenario": sc, "schedule": "default", "steps": ex.steps, "trace_head": [f"t{t}:{l}" for t, l in ex.trace[:14]]})
    return res.compact(), open_


def stage2(args):
    sc, bound, prefixes = args
    patch()
    res = Result()
    E = _explorer(sc, bound, res)
    for p in prefixes:
        E.explore(p)
    res.part(f"{sc['kind']}", schedules=E.executions, steps=E.steps)
    return res.compact()


def run(tier, seed):
    patch()
    res = Result()
    scs = scenarios(tier)
    k = seed % len(scs)
    scs = scs[k:] + scs[:k]
    tasks = []
    for (sc, bound), (r, open_) in zip(scs, env.parallel(stage1, scs, pin=True)):
        res.merge(r)
        for i in range(0, len(open_), 2):
            tasks.append((sc, bound, open_[i : i + 2]))
    for r in env.parallel(stage2, tasks, pin=True):
        res.merge(r)
    res.part("scenarios", count=len(scs), subtree_tasks=len(tasks))
    return res


def replay(failure):
    patch()
    case = failure["case"]
    sc = case["scenario"]
    factory, checker = FACTORIES[sc["kind"]]
    s = sched.Scheduler(prefix=case["choices"], **sched_kwargs())
    ctx = factory(sc)(s)
    ex = s.run()
    ex.timeout_steps = [(tid, step) for (step, tid, *rest) in ex.log if rest and rest[0] == "timeout-fired"]
    r = Result()
    if ex.outcome != "ok" and not (ex.outcome == "deadlock" and sc["kind"] == "promise"):
        return dict(failure) if failure["kind"] == "schedule-" + ex.outcome else {"kind": "schedule-" + ex.outcome, "case": case}
    checker(sc, ex, ctx, r, case)
    for f in r.failures:
        if f["kind"] == failure["kind"]:
            return f
    return None
