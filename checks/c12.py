"""C12 — atom updates are atomic under every thread schedule and always terminate.

Engine A: every schedule (line-level scheduling points in atom.py / reference.py and the swap!/reset!
retry loops of core.lpy, plus lock operations) of 2-3 real threads performing 1-2 atom operations each,
up to a preemption bound; oracle = brute-force linearizability against a sequential atom model, real
watch transitions, termination (no retry loop spins without interference).
"""
from __future__ import annotations

import itertools
import math

from vlib import env, sched
from vlib.evidence import Result

PROPERTY = "C12"
LEVEL = "model_checking"
BOUNDS = {
    "quick": "preemption bound 2; every pair of operations from a 13-operation alphabet on 2 threads (x initial value / validator variants; again without a watch at bound 1), 2 threads x 2 ops for a 5-op core, 3 threads x 1 op for a 4-op core; single-thread termination of every op over the 9-value pathological universe",
    "thorough": "preemption bound 3 for 2-thread scenarios (2 for the watch-free repeats), bound 2 for 3 threads x 1 op over the 7-op core and 2 threads x 2 ops over the 7-op core",
}
RULE = (
    "engine A: for each scenario (initial value, validator, watch, per-thread operation lists) every schedule with at most k preemptions is executed on "
    "real threads under a deterministic scheduler (scheduling points: source lines of atom.py/reference.py and of swap!/reset!/swap-vals!/reset-vals!, "
    "lock operations, explicit yields in slow update functions); distinct = (scenario, schedule); non-trivial = at least one preemption"
)
ASSUMPTIONS = [
    "sequential atom model (validator, watches) in checks/c12.py; values are compared by identity-or-(same type and ==), so 1, 1.0 and true are different values",
    "scheduling granularity is a source line (CPython's GIL makes a bytecode atomic); switches inside a line of untraced code are not explored",
    "compare-and-set! in the sequential model succeeds iff the current value is identical or basilisp-= to the expected value",
]

TRACE_FILES = ("basilisp/lang/atom.py", "basilisp/lang/reference.py")  # core.lpy retry loops only touch thread-local data between calls into atom.py: a switch there is equivalent to a switch at the next atom.py line
TRACE_FUNCS = {
    # atom.py / reference.py
    "_compare_and_set", "_set_if_identical", "compare_and_set", "deref", "reset", "reset_vals", "swap", "swap_vals", "add_watch", "remove_watch",
    "_notify_watches", "_validate",  # every function of atom.py: a line inside a locked region is a scheduling point too, so
    # that a writer which does NOT take the lock (a lock-free fast path) can land between another writer's check and store
    "set_validator", "get_validator",
    # core.lpy retry loops
    "swap__BANG__", "reset__BANG__", "swap_vals__BANG__", "reset_vals__BANG__",
}

_PATCHED = False


def frame_filter(frame):
    """Only frames whose `self` is an object under test (its lock is cooperative) are scheduling points;
    the runtime's own atoms (namespace registry, ...) keep their real locks and must never be parked inside."""
    return isinstance(getattr(frame.f_locals.get("self"), "_lock", None), sched.CoopRLock)


def sched_kwargs():
    return dict(trace_files=TRACE_FILES, trace_funcs=TRACE_FUNCS, spin_limit=6, horizon=4000, frame_filter=frame_filter)


def patch():
    global _PATCHED
    if _PATCHED:
        return
    for n in ("swap!", "reset!", "compare-and-set!", "swap-vals!", "reset-vals!", "deref"):
        core(n)
    import basilisp.lang.atom as atom_mod

    atom_mod.threading = sched.SHIM
    _PATCHED = True


# ----------------------------------------------------------------------------- values


class EqFalse:
    """== is always false (even to itself)"""

    def __eq__(self, o):
        return False

    def __ne__(self, o):
        return True

    __hash__ = object.__hash__

    def __repr__(self):
        return "<EqFalse>"


class EqTrue:
    def __eq__(self, o):
        return True

    def __ne__(self, o):
        return False

    __hash__ = object.__hash__

    def __repr__(self):
        return "<EqTrue>"


def same(a, b):
    """identity, or same concrete type and == (so 1 / 1.0 / True differ; NaN only identical to itself)"""
    if a is b:
        return True
    if type(a) is not type(b):
        return False
    try:
        return bool(a == b)
    except Exception:
        return False


def show(v):
    from basilisp.lang import runtime

    try:
        return runtime.lrepr(v)
    except Exception:
        return repr(v)


# ----------------------------------------------------------------------------- update functions


def f_inc(x):
    return x + 1


def f_slow_inc(x):
    sched.yield_point("f:slow")
    return x + 1


def f_typeobs(x):
    from basilisp.lang import keyword as kw

    if isinstance(x, bool):
        return kw.keyword("b")
    if isinstance(x, float):
        return kw.keyword("f")
    if isinstance(x, int):
        return kw.keyword("i")
    return kw.keyword("other")


class Boom(Exception):
    pass


def f_throw_on_1(x):
    if same(x, 1):
        raise Boom()
    return x + 1


def f_add10(x):
    return x + 10


FUNCS = {"inc": f_inc, "slow-inc": f_slow_inc, "typeobs": f_typeobs, "throw-on-1": f_throw_on_1, "add10": f_add10}


def v_lt3(x):
    return not (isinstance(x, (int, float)) and not isinstance(x, bool) and x >= 3)


VALIDATORS = {"none": None, "lt3": v_lt3}

# operations: (name, arg...)
OPS = {
    "swap!inc": ("swap!", "inc"),
    "swap!slow": ("swap!", "slow-inc"),
    "swap!add10": ("swap!", "add10"),
    "swap!typeobs": ("swap!", "typeobs"),
    "swap!throw1": ("swap!", "throw-on-1"),
    "reset!5": ("reset!", 5),
    "reset!1.0": ("reset!", 1.0),
    "reset!1": ("reset!", 1),
    "cas0->7": ("cas", 0, 7),
    "cas1->8": ("cas", 1, 8),
    "cas1->9": ("cas", 1, 9),
    "cas[1]->8": ("casv", 8),  # expected value: a FRESH vector [1] (equal to, never identical with, the stored one)
    "cas[1]->9": ("casv", 9),
    "swap-vals!inc": ("swap-vals!", "inc"),
    "reset-vals!2": ("reset-vals!", 2),
    "deref": ("deref",),
    "Atom.swap-inc": ("Atom.swap", "inc"),
    "Atom.reset9": ("Atom.reset", 9),
}


_CORE = {}


def core(name):
    f = _CORE.get(name)
    if f is None:
        f = _CORE[name] = env.core_fn(name)
    return f


def apply_op(a, op):
    """Run one operation on the real atom; returns ('ok', value) | ('exc', class-name)."""
    kind = op[0]
    try:
        if kind == "swap!":
            return ("ok", core("swap!")(a, FUNCS[op[1]]))
        if kind == "reset!":
            return ("ok", core("reset!")(a, op[1]))
        if kind == "cas":
            return ("ok", core("compare-and-set!")(a, op[1], op[2]))
        if kind == "casv":
            from basilisp.lang import vector as vec

            return ("ok", core("compare-and-set!")(a, vec.v(1), op[1]))
        if kind == "swap-vals!":
            return ("ok", core("swap-vals!")(a, FUNCS[op[1]]))
        if kind == "reset-vals!":
            return ("ok", core("reset-vals!")(a, op[1]))
        if kind == "deref":
            return ("ok", core("deref")(a))
        if kind == "Atom.swap":
            return ("ok", a.swap(FUNCS[op[1]]))
        if kind == "Atom.reset":
            return ("ok", a.reset(op[1]))
    except sched.Abort:
        raise
    except Exception as e:  # noqa
        return ("exc", type(e).__name__)
    raise ValueError(op)


# ----------------------------------------------------------------------------- sequential model


def model_step(state, op, validator):
    """returns (new_state, result, transition or None)"""
    from basilisp.lang import runtime

    kind = op[0]

    def valid(v):
        return validator is None or bool(validator(v))

    if kind in ("swap!", "Atom.swap", "swap-vals!"):
        try:
            new = FUNCS[op[1]](state)
        except Boom:
            return state, ("exc", "Boom"), None
        except Exception as e:  # noqa
            return state, ("exc", type(e).__name__), None
        if not valid(new):
            return state, ("exc", "ExceptionInfo"), None
        res = new if kind != "swap-vals!" else ("vec", new, state)
        return new, ("ok", res), (state, new)
    if kind in ("reset!", "Atom.reset", "reset-vals!"):
        new = op[1]
        if not valid(new):
            return state, ("exc", "ExceptionInfo"), None
        res = new if kind != "reset-vals!" else ("vec", new, state)
        return new, ("ok", res), (state, new)
    if kind == "casv":
        from basilisp.lang import vector as vec

        op = ("cas", vec.v(1), op[1])
        kind = "cas"
    if kind == "cas":
        old, new = op[1], op[2]
        if not valid(new):
            return state, ("exc", "ExceptionInfo"), None
        if state is old or runtime.equals(state, old):
            return new, ("ok", True), (state, new)
        return state, ("ok", False), None
    if kind == "deref":
        return state, ("ok", state), None
    raise ValueError(op)


def result_matches(observed, expected):
    if observed[0] != expected[0]:
        return False
    if observed[0] == "exc":
        return observed[1] == expected[1]
    o, e = observed[1], expected[1]
    if isinstance(e, tuple) and e and e[0] == "vec":
        try:
            return len(o) == 2 and same(o[0], e[1]) and same(o[1], e[2])
        except Exception:
            return False
    return same(o, e)


def linearizable(init, validator, history, final, watch_events):
    """history: list of dict(tid, idx, op, call, ret, result). Brute force over orders consistent with
    program order and real-time order. Returns a witness order or None."""
    n = len(history)
    ops = history
    # precedence: a before b if a.ret < b.call (real time) or same thread and a.idx < b.idx
    before = [[False] * n for _ in range(n)]
    for i in range(n):
        for j in range(n):
            if i != j and (ops[i]["ret"] < ops[j]["call"] or (ops[i]["tid"] == ops[j]["tid"] and ops[i]["idx"] < ops[j]["idx"])):
                before[i][j] = True

    def rec(done, state, transitions):
        if len(done) == n:
            if not same(state, final):
                return None
            # every watch notification is a real transition (multiset inclusion)
            pool = list(transitions)
            for (o, nw) in watch_events:
                for k, (a, b) in enumerate(pool):
                    if same(a, o) and same(b, nw):
                        del pool[k]
                        break
                else:
                    return None
            return list(done)
        for i in range(n):
            if i in done:
                continue
            if any(before[j][i] and j not in done for j in range(n)):
                continue
            ns, res, tr = model_step(state, ops[i]["op"], validator)
            if not result_matches(ops[i]["result"], res):
                continue
            out = rec(done + [i], ns, transitions + ([tr] if tr else []))
            if out is not None:
                return out
        return None

    return rec([], init, [])


# ----------------------------------------------------------------------------- scenarios


def scenario_key(sc):
    return repr(sc)


def make_factory(sc):
    """sc = dict(init=..., validator=name, watch=bool, threads=[[opname,...],...])"""
    import basilisp.lang.atom as atom_mod

    def make(s):
        a = atom_mod.Atom(sc["init"], validator=VALIDATORS[sc["validator"]])
        watch_events = []
        if sc["watch"]:
            a.add_watch("w", lambda k, r, o, n: watch_events.append((o, n)))
        history = []

        def body(tid, opnames):
            def run():
                for idx, name in enumerate(opnames):
                    rec = {"tid": tid, "idx": idx, "op": OPS[name], "name": name, "call": s.step}
                    sched.yield_point(f"op-start:{name}")
                    rec["call"] = s.step
                    rec["result"] = apply_op(a, OPS[name])
                    rec["ret"] = s.step
                    history.append(rec)
                    sched.yield_point(f"op-end:{name}")
            return run

        for tid, opnames in enumerate(sc["threads"]):
            s.spawn(body(tid, opnames))
        return (a, history, watch_events)

    return make


def explore_scenario(args):
    sc, bound, prefix_roots = args
    patch()
    res = Result()
    make = make_factory(sc)
    validator = VALIDATORS[sc["validator"]]
    nthreads = len(sc["threads"])
    nops = sum(len(t) for t in sc["threads"])
    sc_show = {"init": show(sc["init"]), "validator": sc["validator"], "watch": sc["watch"], "threads": sc["threads"]}

    def check(ex, ctx):
        a, history, watch_events = ctx
        res.evaluations += 1
        res.transitions += ex.steps
        npre = sum(sched.Execution.point_cost(p) for p in ex.points)
        if npre > 0:
            res.distinct_count += 1
        case = {"scenario": sc_show, "choices": list(ex.choices), "bound": bound}
        if ex.outcome != "ok":
            res.outcomes.add((ex.outcome,))
            res.fail("schedule-" + ex.outcome, case, detail=ex.detail[:300])
            return
        if len(history) != nops:
            res.fail("operation-did-not-complete", case, completed=len(history), expected=nops, results={str(k): str(v) for k, v in ex.results.items()})
            return
        final = a._state
        obs = tuple((h["tid"], h["idx"], h["result"][0], show(h["result"][1]) if h["result"][0] == "ok" else h["result"][1]) for h in sorted(history, key=lambda h: (h["tid"], h["idx"])))
        res.outcomes.add((show(final), obs))
        w = linearizable(sc["init"], validator, history, final, watch_events)
        if w is None:
            res.fail(
                "not-linearizable",
                case,
                final=show(final),
                history=[{"tid": h["tid"], "op": h["name"], "call": h["call"], "ret": h["ret"], "result": [h["result"][0], show(h["result"][1]) if h["result"][0] == "ok" else h["result"][1]]} for h in history],
                watch=[[show(o), show(n)] for o, n in watch_events],
                preemptions=npre,
            )

    E = sched.Explorer(make, check, bound, sched_kwargs())
    if prefix_roots is None:
        E.explore([])
    else:
        for p in prefix_roots:
            E.explore(p)
    res.part(f"{nthreads}threads-x-{[len(t) for t in sc['threads']]}-bound{bound}", scenarios=1, schedules=E.executions, steps=E.steps)
    if len(res.samples) < 1:
        ex, ctx = E.run_one([])
        res.sample({"scenario": sc_show, "schedule": "default (no preemption)", "steps": ex.steps, "trace_head": [f"t{t}:{l}" for t, l in ex.trace[:12]], "final": show(ctx[0]._state)})
    return res.compact()


def termination_case(args):
    """Single controlled thread: every operation on every pathological stored value must finish without spinning."""
    patch()
    res = Result()
    from basilisp.lang import vector as vec
    import basilisp.lang.atom as atom_mod

    nan = float("nan")
    values = {"0": 0, "1": 1, "1.0": 1.0, "true": True, "[]": vec.EMPTY, "##NaN": nan, "[##NaN]": vec.v(nan), "EqFalse": EqFalse(), "EqTrue": EqTrue(), "nil": None}
    ops = {
        "reset!": lambda a: env.core_fn("reset!")(a, 5),
        "swap!": lambda a: env.core_fn("swap!")(a, lambda x: 5),
        "swap-vals!": lambda a: env.core_fn("swap-vals!")(a, lambda x: 5),
        "reset-vals!": lambda a: env.core_fn("reset-vals!")(a, 5),
        "Atom.swap": lambda a: a.swap(lambda x: 5),
        "Atom.reset": lambda a: a.reset(5),
        "cas-same-object": lambda a: a.compare_and_set(a.deref(), 5),
    }
    for vn, v in values.items():
        for on, op in ops.items():
            out = {}

            def make(s, v=v, op=op):
                a = atom_mod.Atom(v)

                def body():
                    r = op(a)
                    out["r"] = r
                    out["final"] = a._state

                s.spawn(body)
                return a

            s = sched.Scheduler(**sched_kwargs())
            make(s)
            ex = s.run()
            res.evaluations += 1
            res.transitions += ex.steps
            res.distinct.add(("term", vn, on))
            res.outcomes.add(("term", ex.outcome))
            case = {"scenario": "termination", "value": vn, "op": on}
            if ex.outcome != "ok":
                res.fail("does-not-terminate-without-interference", case, outcome=ex.outcome, detail=ex.detail[:200])
            elif ex.results.get(0, ("?",))[0] != "ok":
                res.fail("single-thread-op-raises", case, result=str(ex.results.get(0)))
            elif not same(out.get("final"), 5):
                res.fail("single-thread-op-has-no-effect", case, final=show(out.get("final")), returned=show(out.get("r")))
    res.part("termination", values=len(values), ops=len(ops))
    return res.compact()


def scenarios(tier):
    scs = []
    base = dict(init=0, validator="none", watch=True)
    quick = tier == "quick"
    all_ops = list(OPS)
    pair_ops = ["swap!inc", "swap!slow", "swap!throw1", "reset!5", "cas0->7", "swap-vals!inc", "reset-vals!2", "deref", "Atom.swap-inc", "Atom.reset9"] if quick else all_ops
    # 2 threads x 1 op: every unordered pair
    for i, a in enumerate(pair_ops):
        for b in pair_ops[i:]:
            scs.append((dict(base, threads=[[a], [b]]), 2 if quick else 3))
    # the same pairs on an atom WITHOUT a watch (code may take another path when nobody is watching)
    for i, a in enumerate(pair_ops):
        for b in pair_ops[i:]:
            if "deref" in (a, b) and a != b:
                continue
            scs.append((dict(base, watch=False, threads=[[a], [b]]), 1 if quick else 2))
    # type-sensitive: atom holding 1, reset to 1.0 / true races with a type-observing swap
    for a, b in [("swap!typeobs", "reset!1.0"), ("swap!typeobs", "reset!1"), ("cas1->8", "reset!1.0"), ("swap-vals!inc", "reset!1.0"), ("Atom.swap-inc", "reset!1.0"), ("swap!typeobs", "swap!typeobs")]:
        scs.append((dict(init=1, validator="none", watch=True, threads=[[a], [b]]), 2 if quick else 3))
    # compare-and-set! whose expected value is EQUAL TO BUT NOT IDENTICAL WITH the stored one (1 vs 1.0, two [1] vectors):
    # the equality path of compare-and-set must be as atomic as the identity path
    from basilisp.lang import vector as vec

    for a, b in [("cas1->8", "reset!5"), ("cas1->8", "swap!inc"), ("cas1->8", "cas1->9"), ("cas1->8", "reset-vals!2"), ("cas1->8", "Atom.swap-inc")]:
        scs.append((dict(init=1.0, validator="none", watch=True, threads=[[a], [b]]), 2 if quick else 3))
    for a, b in [("cas[1]->8", "reset!5"), ("cas[1]->8", "cas[1]->9"), ("cas[1]->8", "reset-vals!2")]:
        scs.append((dict(init=vec.v(1), validator="none", watch=True, threads=[[a], [b]]), 2 if quick else 3))
    # validator rejecting values >= 3, starting at 1
    vops = ["swap!inc", "swap!add10", "reset!5", "cas1->8", "deref"] if quick else ["swap!inc", "swap!add10", "reset!5", "reset!1", "swap-vals!inc", "cas1->8", "deref", "Atom.swap-inc", "Atom.reset9"]
    for a, b in itertools.combinations_with_replacement(vops, 2):
        scs.append((dict(init=1, validator="lt3", watch=True, threads=[[a], [b]]), 2))
    core3 = ["swap!inc", "reset!5", "cas0->7"]
    core7 = core3 + ["deref", "swap!slow", "swap-vals!inc", "Atom.swap-inc"]
    core = core3 if quick else core7
    # 2 threads x 2 ops
    for t1 in itertools.product(core, repeat=2):
        for t2 in itertools.product(core, repeat=2):
            if t1 <= t2:
                scs.append((dict(base, threads=[list(t1), list(t2)]), 1 if quick else 2))
    # 3 threads x 1 op
    tri_ops = ["swap!inc", "reset!5", "cas0->7"] if quick else core7
    for tri in itertools.combinations_with_replacement(tri_ops, 3):
        scs.append((dict(base, threads=[[x] for x in tri]), 1 if quick else 2))
    return scs


def run(tier, seed):
    patch()
    res = Result()
    scs = scenarios(tier)
    jobs = [(sc, bound, None) for sc, bound in scs]
    k = seed % len(jobs)
    jobs = jobs[k:] + jobs[:k]
    parts = env.parallel(_job, [("t", None)] + [("s", j) for j in jobs], pin=True)
    for r in parts:
        res.merge(r)
    res.part("scenarios", count=len(scs))
    return res


def _job(j):
    kind, a = j
    return termination_case(a) if kind == "t" else explore_scenario(a)


def replay(failure):
    patch()
    case = failure["case"]
    if case.get("scenario") == "termination":
        r = termination_case(None)
        for f in r.failures:
            if f["kind"] == failure["kind"] and f["case"] == case:
                return f
        return None
    # rebuild the scenario from its printed form
    scs = {}
    for tier in ("quick", "thorough"):
        for sc, bound in scenarios(tier):
            key = repr({"init": show(sc["init"]), "validator": sc["validator"], "watch": sc["watch"], "threads": sc["threads"]})
            scs[key] = sc
    sc = scs.get(repr(case["scenario"]))
    if sc is None:
        return None
    found = []
    res = Result()
    make = make_factory(sc)
    s = sched.Scheduler(prefix=case["choices"], **sched_kwargs())
    ctx = make(s)
    ex = s.run()
    a, history, watch_events = ctx
    if ex.outcome != "ok":
        return dict(failure) if failure["kind"] == "schedule-" + ex.outcome else {"kind": "schedule-" + ex.outcome, "case": case}
    nops = sum(len(t) for t in sc["threads"])
    if len(history) != nops:
        return dict(failure) if failure["kind"] == "operation-did-not-complete" else None
    w = linearizable(sc["init"], VALIDATORS[sc["validator"]], history, a._state, watch_events)
    if w is None:
        return dict(failure) if failure["kind"] == "not-linearizable" else {"kind": "not-linearizable", "case": case}
    return None
