"""C03 — readable printing round-trips through the reader.

Engine C (finite universes): every value of a typed value grammar (leaf tables + every string /
regex pattern / byte string up to a length over an escape-relevant alphabet + every collection of
width <= 2 up to a nesting depth + metadata on every IWithMeta kind) is printed by the REAL readable
printer under every combination of *print-dup* x *print-meta* x *print-namespace-maps*
(*print-readably* true, *print-length* / *print-level* nil) and read back by the REAL reader, through
both entry-point pairs (basilisp.core pr-str / read-string, and lang.obj.lrepr / lang.reader.read_str).

A value is described by a JSON-able *spec* (nested tuples); build(spec) makes the value, so a failure is
replayable from failure["case"] alone.
"""
from __future__ import annotations

import datetime
import hashlib
import itertools
import json
import math
import os
import re
import subprocess
import sys
import uuid
from decimal import Decimal
from fractions import Fraction

from vlib import env
from vlib.evidence import Result

PROPERTY = "C03"
LEVEL = "model_checking"
BOUNDS = {
    "quick": (
        "211 strings (every string of length <=2 over a 14-char escape alphabet); every BMP scalar c as \"c\" and \"c0\" "
        "(lang pair, one configuration); 197 regex patterns (<=2) and 91 byte strings (<=2) over their alphabets; a 1,280-entry "
        "leaf table (1,000+ floats at boundary exponents with both neighbours, ints, ratios, decimals, imaginaries, 164 "
        "keywords/symbols, uuid, inst, regex, bytes, strings); every leaf (float bulk excepted) as sole element / key / value "
        "of each of 9 collection kinds; every width-2 collection over 24 leaves; depth 2: every width<=2 collection over a "
        "3-leaf alphabet as sole element / key / value, pairs over a reduced set; depth 3 sample; 654 metadata placements; "
        "363 namespace-map key sets; all x 8 print configurations; lang pair on everything, core pair (pr-str/read-string) on "
        "strings, regex, bytes, nsmaps, meta, the non-bulk leaves, and the width-1 / small-alphabet part of width2/depth2/depth3"
    ),
    "thorough": (
        "2,955 strings (<=3); every Unicode scalar c as \"c\" and \"c0\" (core pair on the BMP); 2,758 regex patterns (<=3); "
        "820 byte strings (<=3); same leaf table, every leaf in each of 9 kinds; width 2 over 40 leaves; depth 2 in full "
        "(115,863 values: every width<=2 collection whose entries are leaves or width<=2 collections over a 3-leaf alphabet); "
        "depth 3 over a 64-element subset of depth-2 values; x 8 configurations x both entry-point pairs (wrap1: core pair on "
        "list/vector/map only); printing of 6,223 hash-order-free values x 8 configurations repeated in a second process "
        "under PYTHONHASHSEED=1"
    ),
}
RULE = (
    "engine C: a case is (value spec, print configuration, entry-point pair); values are enumerated simplest first from a "
    "typed grammar; distinct = distinct (spec, configuration, path); non-trivial = the printed text is not the text of a "
    "bare nil/boolean. Each case prints twice (determinism), reads, requires exactly one form, compares structurally with "
    "exact types (and by basilisp =), compares metadata under *print-meta*, and re-prints the re-read value"
)
ASSUMPTIONS = [
    "oracle = strict structural comparison written in Python (exact concrete type, NaN equal to NaN, sign of zero kept, "
    "pattern string and flags for regexes, utcoffset for instants) plus basilisp.core/= on NaN-free values",
    "values containing a Decimal are judged only under *print-dup* (the statement's 'with *print-dup* on where the type "
    "would otherwise be ambiguous'); without it they are printed twice (determinism) and read, but the result is not judged",
    "the reader attaches its own location metadata (:basilisp.lang.reader/line, col, end-line, end-col) to every form; "
    "metadata comparison ignores exactly these four keys and, under *print-meta*, the idempotence re-print is made after "
    "removing them from the re-read value (under *print-meta* false the re-read value is printed as is)",
    "universe limits: imaginary numbers have real part +0.0 and a finite imaginary part; regex patterns are str patterns "
    "compiled without flags; symbols/keywords have reader-legal names; no lone surrogates in strings",
    "known findings are classified by a model of the defect (predicted re-read value must match the observed one exactly)",
]

READER_NS = "basilisp.lang.reader"
LOC_NAMES = ("line", "col", "end-line", "end-col")

class Cfg(tuple):
    """(print-dup, print-meta, print-namespace-maps) + .plen = value of *print-length* (None = nil).  Under *print-dup*
    the printer ignores *print-length* (it still claims a readable, complete rendering), so dup=true x length in {0, 1}
    belongs to the combinations that claim readability."""

    def __new__(cls, d, m, n, plen=None):
        o = tuple.__new__(cls, (d, m, n))
        o.plen = plen
        return o

    def __reduce__(self):
        return (Cfg, (self[0], self[1], self[2], self.plen))


CONFIGS = [Cfg(d, m, n) for d in (False, True) for m in (False, True) for n in (False, True)]
CONFIGS += [Cfg(True, False, False, 0), Cfg(True, True, True, 1), Cfg(True, False, True, 0), Cfg(True, True, False, 1)]
PATHS = ("lang", "core")

STR_ALPHABET = ["a", '"', "\\", "\n", "\t", "\x00", "\x1f", "\x7f", "é", "中", "\U0001f600", " ", "f", "0"]
BYTES_ALPHABET = [b"a", b'"', b"\\", b"'", b"\x00", b"\xff", b"\n", b" ", b"\x7f"]


# --------------------------------------------------------------------------- specs -> values


def T(x):
    """lists (from JSON) -> tuples, recursively."""
    if isinstance(x, (list, tuple)):
        return tuple(T(i) for i in x)
    return x


def build(spec):
    from basilisp.lang import keyword as kw, list as llist, map as lmap, queue as lqueue, set as lset, symbol as sym, vector as vec

    k = spec[0]
    if k == "nil":
        return None
    if k == "bool":
        return bool(spec[1])
    if k == "int":
        return int(spec[1])
    if k == "float":
        return float(spec[1])
    if k == "ratio":
        return Fraction(int(spec[1]), int(spec[2]))
    if k == "dec":
        return Decimal(spec[1])
    if k == "imag":
        return complex(0.0, float(spec[1]))
    if k == "str":
        return spec[1]
    if k == "kw":
        return kw.keyword(spec[2], ns=spec[1])
    if k == "sym":
        return sym.symbol(spec[2], ns=spec[1])
    if k == "uuid":
        return uuid.UUID(spec[1])
    if k == "inst":
        return datetime.datetime.fromisoformat(spec[1])
    if k == "re":
        return re.compile(spec[1])
    if k == "bytes":
        return bytes.fromhex(spec[1])
    if k == "list":
        return llist.list([build(s) for s in spec[1]])
    if k == "vec":
        return vec.vector([build(s) for s in spec[1]])
    if k == "set":
        return lset.set([build(s) for s in spec[1]])
    if k == "queue":
        return lqueue.queue([build(s) for s in spec[1]])
    if k == "map":
        return lmap.map({build(a): build(b) for a, b in spec[1]})
    if k == "pylist":
        return [build(s) for s in spec[1]]
    if k == "pytuple":
        return tuple(build(s) for s in spec[1])
    if k == "pyset":
        return {build(s) for s in spec[1]}
    if k == "pydict":
        return {build(a): build(b) for a, b in spec[1]}
    if k == "meta":
        return build(spec[2]).with_meta(build(spec[1]))
    raise KeyError(k)


SEQ_KINDS = ("list", "vec", "queue", "pylist", "pytuple")
SET_KINDS = ("set", "pyset")
MAP_KINDS = ("map", "pydict")
UNHASHABLE = ("pylist", "pyset", "pydict")


def hashable(spec):
    k = spec[0]
    if k in UNHASHABLE:
        return False
    if k in SEQ_KINDS or k in SET_KINDS:
        return all(hashable(s) for s in spec[1])
    if k == "map":
        return all(hashable(a) and hashable(b) for a, b in spec[1])
    if k == "meta":
        return hashable(spec[2])
    return True


def spec_has(spec, pred):
    if pred(spec):
        return True
    k = spec[0]
    if k in SEQ_KINDS or k in SET_KINDS:
        return any(spec_has(s, pred) for s in spec[1])
    if k in MAP_KINDS:
        return any(spec_has(a, pred) or spec_has(b, pred) for a, b in spec[1])
    if k == "meta":
        return spec_has(spec[1], pred) or spec_has(spec[2], pred)
    return False


def has_decimal(spec):
    return spec_has(spec, lambda s: s[0] == "dec")


def has_nan(spec):
    return spec_has(spec, lambda s: (s[0] in ("float", "imag") and s[1] == "nan") or (s[0] == "dec" and Decimal(s[1]).is_nan()))


def hash_order_free(spec):
    """True when the printed text cannot depend on hash iteration order (no set/map with >= 2 entries)."""
    return not spec_has(spec, lambda s: s[0] in SET_KINDS + MAP_KINDS and len(s[1]) >= 2)


# --------------------------------------------------------------------------- oracle: strict structural comparison


def _loc_keys():
    from basilisp.lang import keyword as kw

    return [kw.keyword(n, ns=READER_NS) for n in LOC_NAMES]


def meta_sans_loc(x):
    """The metadata of x without the reader's own location keys; None when nothing is left."""
    m = getattr(x, "meta", None)
    if m is None:
        return None
    for k in _loc_keys():
        m = m.dissoc(k)
    return m if len(m) else None


def diff(a, b, dup, pmeta, path="", out=None, own_meta=True):
    """Mismatches between the original a and the re-read b (list of [path, what])."""
    from basilisp.lang import keyword as kw, list as llist, map as lmap, queue as lqueue, set as lset, symbol as sym, vector as vec
    from basilisp.lang.interfaces import IWithMeta

    if out is None:
        out = []
    if len(out) >= 4:
        return out

    def bad(what):
        out.append([path or ".", what])
        return out

    if isinstance(a, Decimal) and not dup:
        # no type claim without *print-dup*: any real number that is the float/int the printed digits denote
        if isinstance(b, bool) or not isinstance(b, (int, float, Decimal)):
            bad(f"decimal came back as {type(b).__name__}")
        else:
            x, y = float(str(a)), float(b)
            if not (x == y or (x != x and y != y)):
                bad(f"decimal {a!r} -> {b!r}")
        return out
    if type(a) is not type(b):
        return bad(f"type {type(a).__name__} -> {type(b).__name__}")
    if a is None or isinstance(a, (bool, int, str, bytes, Fraction, uuid.UUID)):
        if a != b:
            bad(f"value {a!r} -> {b!r}")
        return out
    if isinstance(a, float):
        if not (repr(a) == repr(b)):
            bad(f"float {a!r} -> {b!r}")
        return out
    if isinstance(a, complex):
        if (repr(a.real), repr(a.imag)) != (repr(b.real), repr(b.imag)):
            bad(f"complex {a!r} -> {b!r}")
        return out
    if isinstance(a, Decimal):
        if a.is_nan() or b.is_nan():
            if not (a.is_nan() and b.is_nan()):
                bad(f"decimal {a!r} -> {b!r}")
        elif a != b:
            bad(f"decimal {a!r} -> {b!r}")
        return out
    if isinstance(a, datetime.datetime):
        if (a.tzinfo is None) != (b.tzinfo is None) or a != b or a.utcoffset() != b.utcoffset():
            bad(f"inst {a!r} -> {b!r}")
        return out
    if isinstance(a, re.Pattern):
        if a.pattern != b.pattern or a.flags != b.flags:
            bad(f"pattern {a.pattern!r} -> {b.pattern!r}")
        return out
    if isinstance(a, (kw.Keyword, sym.Symbol)):
        if (a.ns, a.name) != (b.ns, b.name):
            bad(f"name {a!r} -> {b!r}")
        if isinstance(a, kw.Keyword) and a is not b:
            bad("keyword not interned")
    elif isinstance(a, (llist.PersistentList, vec.PersistentVector, lqueue.PersistentQueue, list, tuple)):
        xs, ys = list(a), list(b)
        if len(xs) != len(ys):
            return bad(f"length {len(xs)} -> {len(ys)}")
        for i, (x, y) in enumerate(zip(xs, ys)):
            diff(x, y, dup, pmeta, f"{path}/{i}", out)
    elif isinstance(a, (lset.PersistentSet, set)):
        xs, ys = list(a), list(b)
        if len(xs) != len(ys):
            return bad(f"count {len(xs)} -> {len(ys)}")
        for x in xs:
            for j, y in enumerate(ys):
                if not diff(x, y, dup, pmeta, "", []):
                    del ys[j]
                    break
            else:
                bad(f"member {x!r} has no counterpart")
    elif isinstance(a, (lmap.PersistentMap, dict)):
        xs, ys = list(a.items()), list(b.items())
        if len(xs) != len(ys):
            return bad(f"count {len(xs)} -> {len(ys)}")
        for i, (k, v) in enumerate(xs):
            for j, (k2, v2) in enumerate(ys):
                if not diff(k, k2, dup, pmeta, "", []):
                    diff(v, v2, dup, pmeta, f"{path}/val{i}", out)
                    del ys[j]
                    break
            else:
                bad(f"key {k!r} has no counterpart")
    else:
        return bad(f"unsupported type in oracle: {type(a).__name__}")
    if pmeta and own_meta and isinstance(a, IWithMeta):
        ma, mb = meta_sans_loc(a), meta_sans_loc(b)
        if (ma is None) != (mb is None):
            bad(f"meta {ma!r} -> {mb!r}")
        elif ma is not None:
            diff(ma, mb, dup, pmeta, f"{path}/^meta", out, own_meta=False)
    return out


_PUNCT = re.compile(r"([\[\](){},^]|#(?=[{(:]))")


def tokens(text):
    """multiset of the blank-separated tokens of a printed text, brackets and commas being tokens of their own;
    invariant under permuting the entries of a collection."""
    return sorted(_PUNCT.sub(r" \1 ", text).split(" "))


def strip_loc(x):
    """Rebuild x without the reader's location metadata (children first)."""
    from basilisp.lang import list as llist, map as lmap, queue as lqueue, set as lset, symbol as sym, vector as vec

    if isinstance(x, sym.Symbol):
        return x.with_meta(meta_strip(x))
    if isinstance(x, llist.PersistentList):
        return llist.list([strip_loc(c) for c in x]).with_meta(meta_strip(x))
    if isinstance(x, vec.PersistentVector):
        return vec.vector([strip_loc(c) for c in x]).with_meta(meta_strip(x))
    if isinstance(x, lqueue.PersistentQueue):
        return lqueue.queue([strip_loc(c) for c in x]).with_meta(meta_strip(x))
    if isinstance(x, lset.PersistentSet):
        return lset.set([strip_loc(c) for c in x]).with_meta(meta_strip(x))
    if isinstance(x, lmap.PersistentMap):
        return lmap.map({strip_loc(k): strip_loc(v) for k, v in x.items()}).with_meta(meta_strip(x))
    if isinstance(x, list):
        return [strip_loc(c) for c in x]
    if isinstance(x, tuple):
        return tuple(strip_loc(c) for c in x)
    if isinstance(x, set):
        return {strip_loc(c) for c in x}
    if isinstance(x, dict):
        return {strip_loc(k): strip_loc(v) for k, v in x.items()}
    return x


def meta_strip(x):
    m = meta_sans_loc(x)
    return None if m is None else strip_loc(m)


# --------------------------------------------------------------------------- the two entry-point pairs

_CORE = {}


def printers(path, cfg):
    """(print_fn, read_fn) for one entry-point pair; read_fn returns the list of forms read."""
    d, m, n = cfg
    if path == "lang":
        from basilisp.lang import obj as lobj, reader

        def pr(v):
            return lobj.lrepr(
                v, human_readable=False, print_dup=d, print_length=getattr(cfg, "plen", None), print_level=None, print_meta=m,
                print_namespace_maps=n, print_readably=True,
            )

        def rd(s):
            return list(reader.read_str(s))

        return pr, rd
    plen = getattr(cfg, "plen", None)
    key = (os.getpid(), tuple(cfg), plen)
    if key not in _CORE:
        ev = _CORE.get(("ev", os.getpid()))
        if ev is None:
            ev = _CORE[("ev", os.getpid())] = env.Evaluator()
        b = lambda x: "true" if x else "false"  # noqa
        pr = ev.eval(
            f"(fn [v] (binding [*print-dup* {b(d)} *print-meta* {b(m)} *print-namespace-maps* {b(n)} "
            f"*print-readably* true *print-length* {'nil' if plen is None else plen} *print-level* nil] (pr-str v)))"
        )
        rd1 = ev.eval("(fn [s] (read-string s))")
        _CORE[key] = (pr, lambda s: [rd1(s)])
    return _CORE[key]


# --------------------------------------------------------------------------- models of the known defects

TAG_REGEX = "regex-printed-escaped-but-read-raw"
TAG_DECIMAL = "nonfinite-decimal-printed-as-float-constant"

_REGEX_SAFE = re.compile(r'[ !#-\[\]-~]*')  # printable ASCII without '"' and '\\'


def regex_model(pattern):
    """What the pinned printer+reader make of a pattern: the printer escapes it like a string
    (unicode_escape, '"' -> '\\"'), the reader takes the text between the quotes *raw* and ends the literal at
    the first '"' even after a backslash.  Returns ("same",) | ("pattern", p2) | ("error",)."""
    if _REGEX_SAFE.fullmatch(pattern):
        return ("same",)
    if '"' in pattern:
        return ("error",)  # literal ends after `\` of `\"`: a pattern with a dangling backslash never compiles
    p2 = pattern.encode("unicode_escape").decode("ascii")
    try:
        re.compile(p2)
    except re.error:
        return ("error",)
    return ("pattern", p2) if p2 != pattern else ("same",)


def predict_defect(spec, dup):
    """(tags, predicted) : predicted is a spec-like tree with ("re-raw", p) leaves or the string "read-error";
    tags is empty when no known defect applies to this value."""
    tags = set()
    err = [False]

    def walk(s):
        k = s[0]
        if k == "re":
            m = regex_model(s[1])
            if m[0] == "same":
                return s
            tags.add(TAG_REGEX)
            if m[0] == "error":
                err[0] = True
                return s
            return ("re", m[1])
        if k == "dec" and dup and not Decimal(s[1]).is_finite():
            tags.add(TAG_DECIMAL)
            return ("float", str(float(Decimal(s[1]))))
        if k in SEQ_KINDS or k in SET_KINDS:
            return (k, tuple(walk(x) for x in s[1]))
        if k in MAP_KINDS:
            return (k, tuple((walk(a), walk(b)) for a, b in s[1]))
        if k == "meta":
            return ("meta", walk(s[1]), walk(s[2]))
        return s

    p = walk(spec)
    return tags, ("read-error" if err[0] else p)


# --------------------------------------------------------------------------- one case

KNOWN_KEEP = 30  # failures recorded per known-finding tag and shard (the rest is only counted)


def check_case(res: Result, spec, v, cfg, path, record=True):
    """Run one (value, configuration, path). Returns the failure dict or None."""
    d, m, n = cfg
    pr, rd = printers(path, cfg)
    res.evaluations += 1
    problems = []
    details = {}
    t1 = back = None
    try:
        t1 = pr(v)
        t2 = pr(v)
        res.transitions += 2
        if t1 != t2:
            problems.append("print-not-deterministic")
            details["second_text"] = t2
    except Exception as e:  # noqa
        problems.append("print-raises")
        details["exc"] = f"{type(e).__name__}: {str(e)[:160]}"
    if t1 is not None and has_decimal(spec) and not d:
        # the statement makes its claim for decimals only under *print-dup* (without it `3.14M` prints as the float literal
        # `3.14`, and e.g. #{3.14 3.14M} prints as a set literal with a duplicate): read, but do not judge
        try:
            rd(t1)
            res.transitions += 1
            res.outcomes.add((path, cfg, "decimal-without-print-dup", "read"))
        except Exception as e:  # noqa
            res.outcomes.add((path, cfg, "decimal-without-print-dup", type(e).__name__))
        t1 = None
    if t1 is not None:
        details["text"] = t1
        try:
            forms = rd(t1)
            res.transitions += 1
            if len(forms) != 1:
                problems.append("not-exactly-one-form")
                details["forms"] = len(forms)
            else:
                back = forms
        except Exception as e:  # noqa
            problems.append("read-raises")
            details["exc"] = f"{type(e).__name__}: {str(e)[:160]}"
    if back is not None:
        b = back[0]
        mism = diff(v, b, d, m)
        if mism:
            problems.append("reads-back-different")
            details["mismatch"] = mism
        if not has_nan(spec) and not (has_decimal(spec) and not d):
            try:
                if not _equals()(v, b):
                    problems.append("not-equal-by-=")
            except Exception as e:  # noqa
                problems.append("=-raises")
                details["eq_exc"] = f"{type(e).__name__}: {str(e)[:120]}"
        if d or not has_decimal(spec):
            try:
                t3 = pr(strip_loc(b) if m else b)
                res.transitions += 1
                if t3 != t1 and (hash_order_free(spec) or tokens(t3) != tokens(t1)):
                    problems.append("reprint-differs")
                    details["reprint"] = t3
            except Exception as e:  # noqa
                problems.append("reprint-raises")
                details["reprint_exc"] = f"{type(e).__name__}: {str(e)[:160]}"
    res.outcomes.add((path, cfg, problems[0] if problems else "ok", type(back[0]).__name__ if back else "-"))
    if not problems:
        return None
    case = {"spec": json.dumps(spec), "dup": d, "meta": m, "nsmaps": n, "plen": getattr(cfg, "plen", None), "path": path, "family": spec[0]}
    f = {"kind": problems[0], "case": case, "problems": problems}
    f.update(details)
    tag = explain(spec, cfg, problems, back, details)
    if tag:
        f["explained_by"] = tag
    if record:
        if tag:
            c = res.parts.setdefault("known/" + tag, {"cases": 0})
            c["cases"] += 1
            if c["cases"] > KNOWN_KEEP:
                return f
        res.fail(f["kind"], case, **{k: v_ for k, v_ in f.items() if k not in ("kind", "case")})
    return f


def explain(spec, cfg, problems, back, details):
    d, m, n = cfg
    tags, predicted = predict_defect(spec, d)
    if not tags:
        return None
    if predicted == "read-error":
        ok = problems == ["read-raises"] and "Unrecognized regex pattern syntax" in details.get("exc", "")
    else:
        # the observed re-read value must be exactly what the defect model predicts, nothing else may be wrong
        allowed = {"reads-back-different", "not-equal-by-=", "reprint-differs"}
        ok = (
            back is not None
            and "reads-back-different" in problems
            and set(problems) <= allowed
            and not diff(build(predicted), back[0], d, m)
        )
    return "+".join(sorted(tags)) if ok else None


_EQ = []


def _equals():
    if not _EQ:
        _EQ.append(env.core_fn("="))
    return _EQ[0]


# --------------------------------------------------------------------------- universes


def S(s):
    return ("str", s)


def KW(ns, name):
    return ("kw", ns, name)


def SYM(ns, name):
    return ("sym", ns, name)


def strings_upto(n, alphabet=STR_ALPHABET):
    for k in range(n + 1):
        for t in itertools.product(alphabet, repeat=k):
            yield "".join(t)


def float_table():
    out = []
    seen = set()

    def add(x):
        if math.isfinite(x) and repr(x) not in seen:
            seen.add(repr(x))
            out.append(x)

    for x in (0.0, -0.0, 1.0, -1.0, 0.5, 0.1, 1.5, 100.0, 1e16, 1e15, 123456789012345678.0, 0.0001, 0.00001, 1 / 3, 2.0**53, 2.0**53 + 2, 2.0**63, 2.0**64, 2.0**-1074, 2.0**-1022, 2.0**1023):
        add(x)
    mants = ["1", "1.1", "5", "4.9", "9.999999999999999", "2.2250738585072014", "1.7976931348623157", "1.401298464324817", "1.2345678901234567"]
    exps = [-324, -323, -322, -308, -307, -45, -7, -5, -4, -1, 0, 1, 15, 16, 17, 21, 22, 23, 100, 307, 308]
    for e in exps:
        for mt in mants:
            x = float(f"{mt}e{e}")
            if x == 0.0 or not math.isfinite(x):
                continue
            for y in (x, math.nextafter(x, math.inf), math.nextafter(x, 0.0)):
                if y != 0.0:
                    add(y)
                    add(-y)
    return out


def leaf_table(lite=False):
    """lite: without the bulk of the float boundary table (quick tier, inside collections / through the core pair)."""
    L = []
    L += [("nil",), ("bool", True), ("bool", False)]
    L += [("float", "nan"), ("float", "inf"), ("float", "-inf")]
    L += [("int", str(i)) for i in (0, 1, -1, 2, 7, 10, -10, 2**31, 2**63 - 1, 2**63, -(2**63), -(2**63) - 1, 10**23, -(10**23), 2**200)]
    L += [("float", repr(x)) for x in (float_table()[:48] if lite else float_table())]
    L += [("ratio", str(a), str(b)) for a, b in ((1, 2), (-1, 2), (22, 7), (1, 3), (-7, 3), (2**70, 3), (1, 10**23), (-(10**23), 7))]
    L += [("dec", s) for s in ("0", "1", "-1", "3.14", "3.140", "-0", "0.0", "1E+3", "1E-7", "0E-10", "1.5E+30", "-2.50E-12", "123456789012345678901234567890.123456789", "1E+400", "Infinity", "-Infinity", "NaN")]
    L += [("imag", repr(x)) for x in (0.0, -0.0, 1.0, -1.0, 4.0, 37.8, -37.8, 0.5, 1e16, 1e15, 1e30, 1e-7, -1e-7, 1e22, 1e23, 1.5e300, 5e-324, 0.0001, 0.00001, 123456789012345678.0, 2.0**53 + 2)]
    names = ["a", "b", "ab", "a-b", "a.b", "a'", "a?", "a!", "*a*", "+", "-", "-a", "<=", "&", "_", "a1", "%", ".a", "a:b", "/"]
    nss = [None, "a", "a.b", "a-b"]
    for ns in nss:
        for nm in names:
            L.append(KW(ns, nm))
            L.append(SYM(ns, nm))
    L += [KW(None, "nil"), KW(None, "true"), KW(None, "1"), KW("a", "nil")]
    L += [("uuid", s) for s in ("00000000-0000-0000-0000-000000000000", "ffffffff-ffff-ffff-ffff-ffffffffffff", "81f35603-0408-4b3d-bbc0-462e3702747f")]
    L += [
        ("inst", s)
        for s in (
            "2020-01-02T03:04:05", "2020-01-02T03:04:05.123456", "2020-01-02T03:04:05.000001", "2020-01-02T03:04:05+00:00",
            "2020-01-02T03:04:05.477000+00:00", "2020-01-02T03:04:05+05:30", "2020-01-02T03:04:05-08:00", "2020-01-02T03:04:05.5-08:00",
            "0001-01-01T00:00:00", "9999-12-31T23:59:59.999999", "1970-01-01T00:00:00+00:00", "2020-02-29T00:00:00", "2020-01-02T03:04:05+00:00:01",
            "2020-01-02T03:04:05-23:59",
        )
    ]
    L += [("re", p) for p in ("", "a", "a b", "[a-z]+", "a|b", "(a)(b)?", "^a$", r"\d", r"\s+", r"a\.b", r"\\", "é", 'a"b', "\n", "a.b*?")]
    L += [("bytes", b.hex()) for b in (b"", b"a", b"abc", b'"', b"'", b"'\"", b"\\", b"\x00", b"\xff", b"\x7fELF\x01\x01\x01\x00", b"\n\r\t", b"\x07\x08\x0b\x0c", bytes(range(256)))]
    L += [S(s) for s in ("", "a", "hi", "a b", 'a"b', "a\\b", "\n", "\r\n", "\t", "\x00", "\x1f", "\x7f", "\x07\x08\x0b\x0c", "é", "中a", "\U0001f600f", " ", "\u0085", "﻿", "\\u0041", "\\x41", "#\"a\"", ";c", "^{:a 1} x", "привет")]
    seen = set()
    out = []
    for s in L:
        if s not in seen:
            seen.add(s)
            out.append(s)
    return out


def core_leaves(tier):
    """leaves used for width-2 combinations (one or two per leaf type, each escape class of strings)."""
    L = [
        ("nil",), ("bool", True), ("int", "1"), ("int", "-7"), ("float", "1.5"), ("float", "1e+23"), ("float", "nan"), ("float", "-0.0"),
        ("ratio", "1", "2"), ("dec", "3.140"), ("imag", "1e+30"), S("a"), S('"\\\n'), S("é\x1f0"), KW(None, "a"), KW("a.b", "c"),
        SYM(None, "a"), SYM("a", "b"), ("uuid", "81f35603-0408-4b3d-bbc0-462e3702747f"), ("inst", "2020-01-02T03:04:05.123456+05:30"),
        ("re", "a+"), ("re", r"\d"), ("bytes", b"a\"'\xff".hex()), ("bool", False),
    ]
    if tier == "thorough":
        L += [
            ("int", str(2**63)), ("float", "inf"), ("float", "5e-324"), ("dec", "1E+3"), ("dec", "1E+400"), ("imag", "-0.0"), S(""), S("中a"),
            KW("a", "b"), SYM(None, "-"), SYM(None, "/"), ("inst", "2020-01-02T03:04:05"), ("re", 'a"b'), ("bytes", ""), ("int", "0"), ("float", "0.0"),
        ]
    return L


TINY = [("int", "1"), S("a"), KW("a", "b")]
METAS = [
    ("map", ((KW(None, "a"), ("int", "1")),)),
    ("map", ((KW(None, "tag"), SYM("a", "B")),)),
    ("map", ((KW("a", "x"), S('q"é')), (KW("a", "y"), ("vec", (("int", "1"),))))),
    ("map", ((SYM(None, "s"), ("bool", True)), (S("k"), ("nil",)))),
]
WITH_META_KINDS = ("sym", "list", "vec", "map", "set", "queue")


def colls_over(elems, width=2, map2_keys=None, map2_vals=None):
    """every collection of each of the 9 kinds with <= width entries drawn from elems (simplest first)."""
    hs = [e for e in elems if hashable(e)]
    for k in SEQ_KINDS:
        yield (k, ())
    for k in SET_KINDS + MAP_KINDS:
        yield (k, ())
    for k in SEQ_KINDS:
        for e in elems:
            yield (k, (e,))
    for k in SET_KINDS:
        for e in hs:
            yield (k, (e,))
    for k in MAP_KINDS:
        for a in hs:
            for b in elems:
                yield (k, ((a, b),))
    if width < 2:
        return
    for k in SEQ_KINDS:
        for a in elems:
            for b in elems:
                yield (k, (a, b))
    for k in SET_KINDS:
        for a, b in itertools.combinations(hs, 2):
            if not _same_key(a, b):
                yield (k, (a, b))
    mk = hs if map2_keys is None else [e for e in map2_keys if hashable(e)]
    mv = elems if map2_vals is None else map2_vals
    for k in MAP_KINDS:
        for a, b in itertools.combinations(mk, 2):
            if _same_key(a, b):
                continue
            for x in mv:
                for y in mv:
                    yield (k, ((a, x), (b, y)))


def wrap_each(elems, key=("kw", None, "k"), val=("int", "1")):
    """each element as the only element of each sequential/set kind, as the only key and as the only value of each map kind."""
    for e in elems:
        h = hashable(e)
        for k in SEQ_KINDS:
            yield (k, (e,))
        for k in SET_KINDS:
            if h:
                yield (k, (e,))
        for k in MAP_KINDS:
            if h:
                yield (k, ((e, val),))
            yield (k, ((key, e),))


def _same_key(a, b):
    """two specs that Python ==/hash would merge into one key (1 / 1.0 / True, 0 / False / -0.0, nan is distinct by identity)."""
    try:
        x, y = build(a), build(b)
        return x == y and hash(x) == hash(y)
    except Exception:
        return False


def nsmap_specs():
    keys = [KW("a", "x"), KW("a", "y"), KW("b", "x"), KW(None, "x"), SYM("a", "x"), SYM(None, "y"), S("s"), ("int", "1"), KW("a.b", "x"), SYM("a.b", "y")]
    one = ("int", "1")
    for r in (1, 2, 3):
        for ks in itertools.combinations(keys, r):
            for kind in MAP_KINDS:
                yield (kind, tuple((k, one) for k in ks))
    inner = ("map", ((KW("a", "x"), one), (KW("a", "y"), one)))
    inner_b = ("map", ((KW("b", "x"), one),))
    for kind in MAP_KINDS:
        yield (kind, ((KW("a", "k"), inner),))
        yield (kind, ((KW("c", "k"), inner), (KW("c", "j"), inner_b)))
        yield (kind, ((KW(None, "k"), inner),))
    yield ("map", ((inner, inner_b),))
    yield ("vec", (inner, inner_b))
    yield ("meta", METAS[0], inner)
    yield ("meta", inner, ("vec", (inner,)))
    yield ("meta", METAS[2], inner)
    # symbol keys carrying metadata inside a namespace-prefixed map
    yield ("map", ((("meta", METAS[0], SYM("a", "x")), one),))
    yield ("map", ((("meta", METAS[0], SYM("a", "x")), one), (KW("a", "y"), one)))


def meta_specs(tier):
    bases = [
        SYM(None, "a"), SYM("a.b", "c"), ("list", ()), ("list", (("int", "1"), S("a"))), ("vec", ()), ("vec", (("int", "1"),)),
        ("map", ()), ("map", ((KW(None, "k"), ("int", "1")),)), ("map", ((KW("a", "k"), ("int", "1")),)), ("set", ()), ("set", (S("a"),)),
        ("queue", ()), ("queue", (("int", "1"), ("int", "2"))),
    ]
    singles = [("meta", m, b) for b in bases for m in METAS]
    for s in singles:
        yield s
    # an IWithMeta value carrying metadata inside each collection kind / as map key and value
    inner = [("meta", METAS[0], b) for b in bases] + [("meta", METAS[2], bases[1]), ("meta", METAS[3], bases[5])]
    for s in colls_over(inner, width=1):
        yield s
    # metadata on the outer and on the inner value, and metadata inside metadata
    for outer_kind in ("list", "vec", "set", "queue"):
        for i in inner[:8]:
            if outer_kind != "set" or hashable(i):
                yield ("meta", METAS[1], (outer_kind, (i,)))
    for b in bases[:6]:
        mm = ("map", ((KW(None, "m"), ("meta", METAS[0], ("vec", (("int", "1"),)))),))
        yield ("meta", mm, b)
    if tier == "thorough":
        for a, b in itertools.product(inner[:10], repeat=2):
            for k in ("list", "vec", "queue", "pylist", "pytuple"):
                yield (k, (a, b))
            yield ("meta", METAS[2], ("vec", (a, b)))


def depth2_elems():
    """E1 = the tiny leaves plus every width<=2 collection over them (two-entry maps: all key pairs, values from a 2-leaf set)."""
    d1 = list(colls_over(TINY, width=2, map2_vals=TINY[:2]))
    return list(TINY) + d1


def part_specs(part, tier):
    if part == "strings":
        return (S(s) for s in strings_upto(3 if tier == "thorough" else 2))
    if part == "regex":
        def gen():
            for s in strings_upto(3 if tier == "thorough" else 2):
                try:
                    re.compile(s)
                except re.error:
                    continue
                yield ("re", s)
        return gen()
    if part == "bytes":
        def gen():
            for k in range((3 if tier == "thorough" else 2) + 1):
                for t in itertools.product(BYTES_ALPHABET, repeat=k):
                    yield ("bytes", b"".join(t).hex())
        return gen()
    if part == "leaves":
        return iter(leaf_table())
    if part == "wrap1":
        return wrap_each(leaf_table(lite=(tier == "quick")))
    if part == "width2":
        L = core_leaves(tier)
        return (s for s in colls_over(L, width=2, map2_keys=L[:12], map2_vals=[L[0], L[3], L[12], L[13], L[20]]) if len(s[1]) == 2)
    if part == "depth2":
        E1 = depth2_elems()
        if tier == "quick":
            # quick: every depth-1 collection as the single element / key / value of each kind, and pairs over a reduced set
            red = TINY + [e for e in E1 if e[0] in ("vec", "map", "pylist", "set") and len(e[1]) <= 1][:14]
            return itertools.chain(wrap_each(E1), (s for s in colls_over(red, width=2, map2_vals=red[:3]) if len(s[1]) == 2))
        keys2 = [e for e in E1 if hashable(e)][:30]
        return colls_over(E1, width=2, map2_keys=keys2, map2_vals=[E1[0], E1[5], E1[40]])
    if part == "depth3":
        E1 = depth2_elems()
        base = TINY[:2] + [e for e in E1 if len(e) > 1 and e[0] in ("list", "vec", "map", "set", "queue", "pylist", "pydict") and len(e[1]) == 1][:16]
        E2 = [s for s in colls_over(base, width=2, map2_keys=base[:4], map2_vals=base[:2]) if s[1]]
        if tier == "quick":
            E2 = [s for s in E2 if len(s[1]) == 1]
            return wrap_each(E2[:: max(1, len(E2) // 40)])
        E2 = E2[:: max(1, len(E2) // 64)]
        return colls_over(E2, width=2, map2_keys=[e for e in E2 if hashable(e)][:6], map2_vals=E2[:2])
    if part == "meta":
        return meta_specs(tier)
    if part == "nsmaps":
        return nsmap_specs()
    raise KeyError(part)


def _core_small():
    return set(core_leaves("quick")[:10])


def paths_for(part, tier, spec, _cache={}):
    """Entry-point pairs a value is run through.  The lang pair (obj.lrepr / reader.read_str) runs on everything; the
    core pair (pr-str / read-string under `binding`, ~7x the cost) differs from it only in how the six print Vars and the
    reader options are passed along, and is skipped for the bulk sub-spaces named here."""
    if part == "leaves" and tier == "quick":
        return PATHS if spec in _cache.setdefault("lite", set(leaf_table(lite=True))) else ("lang",)
    if part == "wrap1":
        if tier == "quick":
            return ("lang",)
        return PATHS if spec[0] in SEQ_KINDS[:2] or spec[0] == "map" else ("lang",)
    if tier == "quick" and part == "width2":
        small = _cache.setdefault("small", _core_small())
        elems = [e for pair in spec[1] for e in (pair if spec[0] in MAP_KINDS else (pair,))]
        return PATHS if all(e in small for e in elems) else ("lang",)
    if tier == "quick" and part in ("depth2", "depth3"):
        return PATHS if len(spec[1]) <= 1 else ("lang",)
    return PATHS


PARTS = ("strings", "leaves", "bytes", "regex", "wrap1", "nsmaps", "meta", "width2", "depth2", "depth3")


# --------------------------------------------------------------------------- shards


def run_shard(args):
    import time

    t0, c0 = time.time(), os.times()
    res = _run_shard(args)
    if os.environ.get("VERIF_VERBOSE"):
        c1 = os.times()
        print(f"[c03] shard {args[:5]} wall={time.time()-t0:.1f}s user={c1.user-c0.user:.1f} sys={c1.system-c0.system:.1f} evals={res.evaluations}", file=sys.stderr)
    return res


def _run_shard(args):
    kind = args[0]
    res = Result()
    if kind == "part":
        _, part, tier, shard, nshards = args
        n = ncases = 0
        for idx, spec in enumerate(part_specs(part, tier)):
            if idx % nshards != shard:
                continue
            try:
                v = build(spec)
            except Exception as e:  # noqa
                raise env.HarnessError(f"cannot build {spec!r}: {e!r}")
            n += 1
            paths = paths_for(part, tier, spec)
            ncases += len(paths) * len(CONFIGS)
            for cfg in CONFIGS:
                for path in paths:
                    f = check_case(res, spec, v, cfg, path)
                    if spec[0] not in ("nil", "bool"):
                        res.distinct_count += 1
                    if f is None and shard == 0 and len(res.samples) < 2 and cfg == (True, True, True) and path == "core" and n > 3:
                        res.sample({"part": part, "spec": json.dumps(spec), "text": printers(path, cfg)[0](v)})
        res.part(part, values=n, cases=ncases)
        return res.compact()
    if kind == "scalars":
        _, lo, hi, paths = args
        cfg = Cfg(False, False, False)
        n = 0
        for path in paths:
            pr, rd = printers(path, cfg)
            for cp in range(lo, hi):
                if 0xD800 <= cp <= 0xDFFF:
                    continue
                c = chr(cp)
                for s in (c, c + "0"):
                    res.evaluations += 1
                    res.transitions += 2
                    n += 1
                    try:
                        t = pr(s)
                        back = rd(t)
                        ok = len(back) == 1 and type(back[0]) is str and back[0] == s
                    except Exception as e:  # noqa
                        ok = False
                        t = f"{type(e).__name__}: {e}"[:120]
                    res.outcomes.add(("scalar", path, ok, len(t) - len(s)))
                    if not ok:
                        check_case(res, S(s), s, cfg, path)
        res.distinct_count += n
        res.part("unicode-scalars", strings=n)
        return res.compact()
    raise KeyError(kind)


# --------------------------------------------------------------------------- second process, other hash seed

_CHILD = r"""
import sys, json
sys.path.insert(0, {verif!r})
from vlib import env
env.bootstrap(native=True)
from checks import c03
json.dump(c03.seed_texts({tier!r}, json.load(open({inp!r})) if {inp!r} else None), open({out!r}, "w"))
"""


def seed_universe(tier):
    specs = list(leaf_table())
    specs += [S(s) for s in strings_upto(2)]
    specs += [s for s in colls_over(core_leaves("quick"), width=2, map2_keys=[], map2_vals=[]) if hash_order_free(s)]
    specs += [s for s in meta_specs("quick") if hash_order_free(s)]
    specs += [s for s in nsmap_specs() if hash_order_free(s)]
    return specs


def seed_texts(tier, specs=None):
    """digest of the printed text of every hash-order-free value under every configuration (lang path)."""
    out = []
    for spec in (seed_universe(tier) if specs is None else [T(s) for s in specs]):
        v = build(spec)
        row = []
        for cfg in CONFIGS:
            try:
                t = printers("lang", cfg)[0](v)
            except Exception as e:  # noqa
                t = "EXC " + type(e).__name__
            row.append(hashlib.sha1(t.encode("utf-8", "surrogatepass")).hexdigest()[:10] if specs is None else t)
        out.append(row)
    return out


def spawn_seed_child(tier, hashseed, specs=None):
    d = f"/var/tmp/verif-c03-{os.getpid()}"
    os.makedirs(d, exist_ok=True)
    out = f"{d}/seed{hashseed}-{len(os.listdir(d))}.json"
    inp = ""
    if specs is not None:
        inp = out + ".in"
        with open(inp, "w") as fh:
            json.dump(specs, fh)
    e = dict(os.environ)
    e["PYTHONHASHSEED"] = str(hashseed)
    code = _CHILD.format(verif=str(env.VERIF), tier=tier, out=out, inp=inp)
    p = subprocess.Popen([sys.executable, "-c", code], env=e, stdout=subprocess.DEVNULL, stderr=subprocess.PIPE)
    return p, out, d


def collect_seed_child(handle):
    import shutil

    p, out, d = handle
    _, err = p.communicate(timeout=600)
    try:
        if p.returncode != 0:
            raise env.HarnessError("hash-seed child failed:\n" + err.decode("utf-8", "replace")[-1500:])
        with open(out) as fh:
            return json.load(fh)
    finally:
        shutil.rmtree(d, ignore_errors=True)


# --------------------------------------------------------------------------- run / replay


def run(tier, seed):
    res = Result()
    child = spawn_seed_child(tier, 1) if tier == "thorough" or os.environ.get("VERIF_C03_SEEDCHILD") else None
    import gc

    gc.collect()
    gc.freeze()  # keep the collector from touching (and so copying) the inherited heap in every forked worker
    if tier == "quick":
        nsh = {"strings": 1, "leaves": 2, "bytes": 1, "regex": 1, "wrap1": 1, "nsmaps": 1, "meta": 2, "width2": 6, "depth2": 6, "depth3": 1}
    else:
        nsh = {"strings": 8, "leaves": 4, "bytes": 2, "regex": 6, "wrap1": 8, "nsmaps": 1, "meta": 4, "width2": 16, "depth2": 64, "depth3": 32}
    shards = []
    for part in ("depth2", "depth3", "width2") + tuple(p for p in PARTS if p not in ("depth2", "depth3", "width2")):  # big ones first
        n = nsh[part]
        for s in range(n):
            shards.append(("part", part, tier, (s + seed) % n, n))
    # every Unicode scalar value c as "c" and "c0": BMP only in quick; the core pair only in thorough and only on the BMP
    top = 0x110000 if tier == "thorough" else 0x10000
    step = 0x10000 if tier == "thorough" else 0x4000
    for lo in range(0, top, step):
        shards.append(("scalars", lo, min(top, lo + step), ("lang",)))
    if tier == "thorough":
        for lo in range(0, 0x10000, 0x2000):
            shards.append(("scalars", lo, lo + 0x2000, ("core",)))
    for r in env.parallel(run_shard, shards):
        res.merge(r)
    kept = sum(1 for f in res.failures if f.get("explained_by"))
    total = sum(p.get("cases", 0) for name, p in res.parts.items() if name.startswith("known/"))
    if total > kept:
        res.notes.append(f"known-finding cases: {total} observed, {kept} written out (at most {KNOWN_KEEP} per tag and shard); see parts known/*")
    if child is not None:
        theirs = collect_seed_child(child)
        mine = seed_texts(tier)
        specs = seed_universe(tier)
        if len(theirs) != len(mine):
            raise env.HarnessError("hash-seed child enumerated a different universe")
        for spec, a, b in zip(specs, mine, theirs):
            res.evaluations += len(CONFIGS)
            res.transitions += len(CONFIGS)
            for cfg, x, y in zip(CONFIGS, a, b):
                res.outcomes.add(("seed", x == y))
                if x != y:
                    res.fail("print-depends-on-hash-seed", {"spec": json.dumps(spec), "dup": cfg[0], "meta": cfg[1], "nsmaps": cfg[2], "path": "lang", "family": spec[0], "hashseed": 1})
        res.part("other-hash-seed", values=len(specs), cases=len(specs) * len(CONFIGS))
    return res


def replay(failure):
    case = failure["case"]
    spec = T(json.loads(case["spec"]))
    cfg = Cfg(bool(case["dup"]), bool(case["meta"]), bool(case["nsmaps"]), case.get("plen"))
    if failure["kind"] == "print-depends-on-hash-seed":
        theirs = collect_seed_child(spawn_seed_child("quick", case.get("hashseed", 1), [spec]))[0]
        mine = seed_texts("quick", [spec])[0]
        i = CONFIGS.index(cfg)
        if theirs[i] != mine[i]:
            out = dict(failure)
            out.update(text_here=mine[i], text_other_seed=theirs[i])
            return out
        return None
    r = Result()
    f = check_case(r, spec, build(spec), cfg, case["path"], record=False)
    if f is None:
        return None
    r2 = Result()
    r2.fail(f["kind"], f["case"], **{k: v for k, v in f.items() if k not in ("kind", "case")})
    return r2.failures[0]
