"""C11 — dynamic bindings are scoped, thread-local and conveyed to futures.

Part A (engine C/B, single thread): every well-nested program of binding / with-bindings / with-bindings* /
runtime.bindings forms, set!, body throws and *failing establishments* (non-dynamic Var or validator
rejection at every position of the map's iteration order) up to a node bound; after every step every
Var is read and compared with a per-thread stack model.
Part B (engine A, threads): every schedule up to a preemption bound of 2-3 threads running such
programs concurrently, and of conveyance scenarios (future, bound-fn, pmap) with a scheduler-aware executor.
"""
from __future__ import annotations

import itertools

from vlib import env, sched
from vlib.evidence import Result

PROPERTY = "C11"
LEVEL = "model_checking"
BOUNDS = {
    "quick": "part A: all programs with <=2 nodes over the full alphabet (4 binding forms x 5 var sets x {return, throw}, 40 failing-establishment variants, set!; <=2 nodes per body) and all 3-node programs over a reduced alphabet (2 forms x 2 var sets, 20 failing variants); part B: 6 thread scenarios at preemption bound 1",
    "thorough": "part A: all programs with <=3 nodes over the full alphabet (930k) and all 4-node programs over the reduced alphabet; part B: preemption bound 2",
}
RULE = (
    "part A: every program tree over the node alphabet up to the node bound is executed on the real binding machinery in one thread, all Vars are read "
    "(Var.value and a compiled reader fn) after every step; part B: every schedule within the bound on real threads; distinct = program (x schedule); "
    "non-trivial = at least one nested, failing or throwing node"
)
ASSUMPTIONS = [
    "reference: per-thread stack of binding frames over Var roots; a failed establishment leaves the stack unchanged; conveyed work sees the creator's values at creation",
    "which Var of a multi-Var binding is pushed first depends on identity hashes: the harness selects Vars from a pool so that the failing Var sits at every position of the map's iteration order",
    "set! of a dynamic Var without a thread binding is outside the property and not generated",
    "part B: Var.value only reads thread-local lists and the root under the Var's lock, so an uncontended acquisition of a Var lock is not a scheduling point (blocking on it is); scheduling points are the lines of push/pop_thread_bindings, Var.push/pop_bindings, set_value, get_thread_bindings, one yield per observation and explicit yields in programs",
]

NS_NAME = "verif.c11vars"
_ST = {}


class Boom(Exception):
    pass


def setup():
    """Create the Var pool (once per process) and compiled helpers."""
    if _ST:
        return _ST
    import basilisp.lang.runtime as rt
    from basilisp.lang import keyword as kw, map as lmap, symbol as sym

    rt.threading = sched.SHIM  # Vars created from now on get cooperative locks (needed by part B; harmless in part A)
    ev = env.Evaluator(ns=None)
    ns = ev.ns
    names = {}
    decl = []
    for i in range(10):
        decl.append(f"(def ^:dynamic *d{i}* :rd{i})")
    for i in range(6):
        decl.append(f"(def n{i} :rn{i})")
    for i in range(6):
        decl.append(f"(def ^:dynamic *w{i}* :rw{i})")
    ev.eval("\n".join(decl))
    for i in range(6):
        ev.eval(f"(set-validator! (var *w{i}*) (fn [v] (not= v :bad)))")
    vars_ = {}
    for i in range(10):
        vars_[f"*d{i}*"] = ns.find(sym.symbol(f"*d{i}*"))
    for i in range(6):
        vars_[f"n{i}"] = ns.find(sym.symbol(f"n{i}"))
        vars_[f"*w{i}*"] = ns.find(sym.symbol(f"*w{i}*"))
    assert all(v is not None for v in vars_.values())
    _ST.update(dict(ev=ev, ns=ns, vars=vars_, rt=rt, lmap=lmap, kw=kw, forms={}, BAD=kw.keyword("bad")))
    _ST["observed"] = ["*d0*", "*d1*", "*d2*", "*d3*", "*w0*", "*w1*", "n0"]
    _ST["reader"] = ev.eval("(fn [] [" + " ".join(_ST["observed"]) + "])")
    _ST["roots"] = {n: v.root for n, v in vars_.items()}
    _select_patterns()
    # compile every helper form now (in the parent, before any scheduled execution): compiling inside a
    # controlled thread would add scheduling points to the first execution of each process only
    for form in FORMS:
        for names in VARSETS:
            form_fn(form, names)
        for (names, bad) in _ST["patterns"].values():
            form_fn(form, names)
    for n in ("*d0*", "*d1*", "*d2*"):
        setter(n)
    return _ST


def iteration_order(names):
    """order in which push-thread-bindings will meet these Vars (iteration order of the persistent map)"""
    st = _ST
    m = env.core_fn("hash-map")(*itertools.chain.from_iterable((st["vars"][n], 0) for n in names))
    by_var = {id(st["vars"][n]): n for n in names}
    return [by_var[id(k)] for k in m.keys()]


def _grow_pool(kind, i):
    """one more non-dynamic Var (kind nondyn) or dynamic Var with the :bad-rejecting validator; returns its name"""
    from basilisp.lang import symbol as sym

    st = _ST
    name = f"n{i}" if kind == "nondyn" else f"*w{i}*"
    if name not in st["vars"]:
        if kind == "nondyn":
            st["ev"].eval(f"(def {name} :rn{i})")
        else:
            st["ev"].eval(f"(def ^:dynamic {name} :rw{i}) (set-validator! (var {name}) (fn [v] (not= v :bad)))")
        st["vars"][name] = st["ns"].find(sym.symbol(name))
        st["roots"][name] = st["vars"][name].root
    return name


def _select_patterns():
    """For k in {2,3}, each position p of the failing Var in iteration order and each failure kind, find a tuple of pool Vars."""
    st = _ST
    pats = {}
    goods = [f"*d{i}*" for i in range(4, 10)]  # failing forms use Vars that are not otherwise bound by programs... plus d0,d1 below
    for kind, bads in (("nondyn", [f"n{i}" for i in range(6)]), ("validator", [f"*w{i}*" for i in range(6)])):
        for k in (2, 3):
            for p in range(k):
                found = None
                for bad in bads:
                    for gs in itertools.permutations(["*d0*", "*d1*"] + goods, k - 1):
                        names = list(gs) + [bad]
                        order = iteration_order(names)
                        if order.index(bad) == p:
                            found = (tuple(names), bad)
                            break
                    if found:
                        break
                extra = 6
                while not found and extra < 200:
                    # Vars hash by address, so which positions the pool can realise depends on the heap layout of this very
                    # tree and process: grow the pool (a new Var is a new address) until the position is realised
                    bad = _grow_pool(kind, extra)
                    extra += 1
                    for gs in itertools.permutations(["*d0*", "*d1*"] + goods, k - 1):
                        names = list(gs) + [bad]
                        if iteration_order(names).index(bad) == p:
                            found = (tuple(names), bad)
                            break
                if not found:
                    raise env.HarnessError(f"cannot realise failing-Var position {p} of {k} ({kind}) with the Var pool")
                pats[(kind, k, p)] = found
    st["patterns"] = pats


def form_fn(kind, names):
    """callable(vals, thunk) that establishes the binding of `names` to `vals` with the given form and runs thunk inside"""
    st = _ST
    key = (kind, names)
    f = st["forms"].get(key)
    if f is not None:
        return f
    vs = [st["vars"][n] for n in names]
    if kind == "binding":
        args = " ".join(f"v{i}" for i in range(len(names)))
        pairs = " ".join(f"{n} v{i}" for i, n in enumerate(names))
        g = env.Evaluator(ns=st["ns"]).eval(f"(fn [{args} thunk] (binding [{pairs}] (thunk)))")
        f = lambda vals, thunk: g(*vals, thunk)  # noqa
    elif kind == "with-bindings":
        args = " ".join(f"v{i}" for i in range(len(names)))
        pairs = " ".join(f"(var {n}) v{i}" for i, n in enumerate(names))
        g = env.Evaluator(ns=st["ns"]).eval(f"(fn [{args} thunk] (with-bindings (hash-map {pairs}) (thunk)))")
        f = lambda vals, thunk: g(*vals, thunk)  # noqa
    elif kind == "with-bindings*":
        wb = env.core_fn("with-bindings*")
        hm = env.core_fn("hash-map")
        f = lambda vals, thunk: wb(hm(*itertools.chain.from_iterable(zip(vs, vals))), thunk)  # noqa
    elif kind == "py-bindings":
        def f(vals, thunk):
            with st["rt"].bindings(dict(zip(vs, vals))):
                return thunk()
    else:
        raise ValueError(kind)
    st["forms"][key] = f
    return f


def setter(name):
    st = _ST
    key = ("set!", name)
    f = st["forms"].get(key)
    if f is None:
        f = st["forms"][key] = env.Evaluator(ns=st["ns"]).eval(f"(fn [v] (set! {name} v))")
    return f


# ----------------------------------------------------------------------------- model + interpreter

FORMS = ["binding", "with-bindings", "with-bindings*", "py-bindings"]
VARSETS = [("*d0*",), ("*d1*",), ("*d0*", "*d1*"), ("*d0*", "*d1*", "*d2*"), ("*d0*", "*w0*")]


class Runner:
    """Executes one program on the real machinery in the *current thread*, mirrored by the stack model."""

    def __init__(self, res, case, tid=0, observe_hook=None):
        self.st = setup()
        self.res = res
        self.case = case
        self.stack = []  # model: list of dict name->value
        self.counter = [0]
        self.tid = tid
        self.ok = True
        self.observe_hook = observe_hook

    def fresh(self):
        self.counter[0] += 1
        return self.tid * 1000 + self.counter[0]

    def model_value(self, name):
        for fr in reversed(self.stack):
            if name in fr:
                return fr[name]
        return self.st["roots"][name]

    def observe(self, where):
        st = self.st
        self.res.transitions += 1
        sched.yield_point("observe")
        # the snapshot used for conveyance (get-thread-bindings) must show exactly the thread-bound Vars and their current values
        try:
            snap = env.core_fn("get-thread-bindings")()
            for n in st["observed"]:
                v = st["vars"][n]
                bound = any(n in fr for fr in self.stack)
                has = v in snap
                if has != bound or (bound and snap[v] != self.model_value(n)):
                    self.ok = False
                    self.res.fail("thread-bindings-snapshot-wrong", self.case, var=n, where=where, expected=repr(self.model_value(n)) if bound else "absent",
                                  got=repr(snap[v]) if has else "absent", thread=self.tid)
                    return False
        except sched.Abort:
            raise
        got_compiled = list(st["reader"]())
        for n, gc in zip(st["observed"], got_compiled):
            exp = self.model_value(n)
            gv = st["vars"][n].value
            if gv != exp or gc != exp or type(gv) is not type(exp):
                self.ok = False
                self.res.fail("var-has-wrong-value", self.case, var=n, where=where, expected=repr(exp), via_value=repr(gv), via_compiled_read=repr(gc), thread=self.tid)
                return False
        return True

    def run_nodes(self, nodes, path):
        for i, node in enumerate(nodes):
            if not self.ok:
                return
            self.run_node(node, path + (i,))

    def run_node(self, node, path):
        st = self.st
        kind = node[0]
        where = "/".join(map(str, path))
        if kind == "B":
            _, form, names, body, exit_ = node[:5]
            if len(node) > 5 and node[5] == "same":
                # re-bind every Var to the very object it currently holds (what bound-fn does on its own thread): the new
                # binding must still be a binding of its own, so a set! inside must not reach the enclosing one
                vals = [self.model_value(n) for n in names]
            else:
                vals = [self.fresh() for _ in names]
            depth_before = len(self.stack)

            def thunk():
                self.stack.append(dict(zip(names, vals)))
                self.observe(where + ":enter")
                self.run_nodes(body, path)
                self.observe(where + ":before-exit")
                if exit_ == "throw":
                    raise Boom()
                return "ret"

            try:
                r = form_fn(form, names)(vals, thunk)
                if r != "ret" and self.ok:
                    self.res.fail("binding-form-returns-wrong-value", self.case, where=where, got=repr(r))
            except Boom:
                if exit_ != "throw" and self.ok:
                    self.res.fail("unexpected-exception", self.case, where=where, exc="Boom")
            except sched.Abort:
                raise
            except Exception as e:  # noqa
                if self.ok:
                    self.ok = False
                    self.res.fail("binding-form-raises", self.case, where=where, exc=type(e).__name__, msg=str(e)[:200])
            del self.stack[depth_before:]
            self.observe(where + ":after")
        elif kind == "F":
            _, form, fkind, k, p = node
            names, bad = st["patterns"][(fkind, k, p)]
            vals = [st["BAD"] if (n == bad and fkind == "validator") else self.fresh() for n in names]
            ran = []

            def thunk():
                ran.append(1)
                return "ret"

            try:
                form_fn(form, names)(vals, thunk)
                if self.ok:
                    self.res.fail("failing-establishment-did-not-raise", self.case, where=where, names=list(names))
            except sched.Abort:
                raise
            except Exception:  # noqa
                pass
            if ran and self.ok:
                self.res.fail("body-ran-although-establishment-failed", self.case, where=where)
            # everything (including the Vars of the failed form) must be as before
            for n in names:
                if n not in st["observed"] and self.ok:
                    v = st["vars"][n]
                    exp = self.model_value(n)
                    if v.value != exp:
                        self.ok = False
                        self.res.fail("var-has-wrong-value", self.case, var=n, where=where + ":after-failed-establishment", expected=repr(exp), via_value=repr(v.value), thread=self.tid)
            self.observe(where + ":after-failed-establishment")
        elif kind == "S":
            _, name = node
            v = self.fresh()
            for fr in reversed(self.stack):
                if name in fr:
                    fr[name] = v
                    break
            else:
                raise env.HarnessError("set! generated for an unbound Var")
            try:
                setter(name)(v)
            except sched.Abort:
                raise
            except Exception as e:  # noqa
                self.ok = False
                self.res.fail("set!-raises", self.case, where=where, exc=type(e).__name__)
            self.observe(where + ":after-set!")
        elif kind == "Y":
            sched.yield_point("prog:yield")
            self.observe(where + ":after-yield")
        else:
            raise ValueError(node)


ALPHA = {"forms": FORMS, "varsets": VARSETS, "fforms": FORMS}
REDUCED = {"forms": ["binding", "with-bindings*"], "varsets": [("*d0*",), ("*d0*", "*d1*")], "fforms": ["binding", "py-bindings"]}


def gen_nodes(budget, bound, depth):
    """yield (node, cost) for every node using <= budget nodes; bound = names currently thread-bound"""
    if budget <= 0:
        return
    for form in ALPHA["forms"]:
        for names in ALPHA["varsets"]:
            for exit_ in ("ret", "throw"):
                for body, c in gen_seq(budget - 1, tuple(sorted(set(bound) | set(names))), depth + 1, max_len=2):
                    yield ("B", form, names, body, exit_), 1 + c
                    if set(names) & set(bound):
                        yield ("B", form, names, body, exit_, "same"), 1 + c
    for form in ALPHA["fforms"]:
        for fkind in ("nondyn", "validator"):
            for k in (2, 3):
                for p in range(k):
                    yield ("F", form, fkind, k, p), 1
    for name in bound:
        if name.startswith("*d"):
            yield ("S", name), 1


def gen_seq(budget, bound, depth, max_len):
    """yield (list_of_nodes, cost) with total cost <= budget and len <= max_len (including the empty list)"""
    yield [], 0
    if budget <= 0 or max_len <= 0:
        return
    for n1, c1 in gen_nodes(budget, bound, depth):
        yield [n1], c1
        if max_len >= 2 and budget - c1 > 0:
            for n2, c2 in gen_nodes(budget - c1, bound, depth):
                yield [n1, n2], c1 + c2


def node_to_json(n):
    if n[0] == "B":
        return ["B", n[1], list(n[2]), [node_to_json(x) for x in n[3]], n[4]] + list(n[5:])
    return list(n)


def node_from_json(j):
    if j[0] == "B":
        return ("B", j[1], tuple(j[2]), [node_from_json(x) for x in j[3]], j[4]) + tuple(j[5:])
    return tuple(j)


def part_a_shard(args):
    shard, nshards, budget, reduced, min_cost = args
    setup()
    res = Result()
    idx = 0
    ALPHA.update(REDUCED if reduced else {"forms": FORMS, "varsets": VARSETS, "fforms": FORMS})
    for prog, cost in gen_seq(budget, (), 0, max_len=2):
        if not prog or cost < min_cost:
            continue
        idx += 1
        if idx % nshards != shard:
            continue
        case = {"part": "A", "program": [node_to_json(n) for n in prog]}
        r = Runner(res, case)
        r.observe("start")
        r.run_nodes(prog, ())
        res.evaluations += 1
        if cost > 1:
            res.distinct_count += 1
        res.outcomes.add(("A", r.ok, cost))
        # a failed run may leave the thread dirty: clean up so later programs start from roots
        if not r.ok:
            _force_clean()
        if len(res.samples) < 1 and shard == 0 and cost >= 3:
            res.sample(case)
    res.part(f"A/budget{budget}/{'reduced' if reduced else 'full'}-alphabet", programs=res.evaluations)
    return res.compact()


def _force_clean():
    st = _ST
    try:
        while True:
            st["rt"].pop_thread_bindings()
    except Exception:
        pass
    for v in st["vars"].values():
        tl = getattr(v, "_tl", None)
        if tl is not None:
            try:
                del tl.bindings[:]
            except Exception:
                pass


# ----------------------------------------------------------------------------- part B: threads

TRACE_FILES = ("basilisp/lang/runtime.py",)
TRACE_FUNCS = {"push_thread_bindings", "pop_thread_bindings", "push_bindings", "pop_bindings", "set_value", "get_thread_bindings"}  # reads (Var.value) touch only thread-local data: one explicit yield per observation instead


def frame_filter(frame):
    slf = frame.f_locals.get("self")
    if slf is None:
        return True  # module-level binding functions, only ever reached from harness threads
    if type(slf).__name__ == "Var":
        return isinstance(getattr(slf, "_lock", None), sched.CoopRLock)
    return type(slf).__name__ == "_ThreadBindings"


def sched_kwargs():
    return dict(trace_files=TRACE_FILES, trace_funcs=TRACE_FUNCS, spin_limit=None, horizon=6000, frame_filter=frame_filter, lock_yield=False)


Y = ("Y",)


def thread_programs():
    B = lambda form, names, body, exit_="ret": ("B", form, names, body, exit_)  # noqa
    return {
        "two-binders": [
            [B("binding", ("*d0*",), [Y, ("S", "*d0*"), Y])],
            [B("with-bindings*", ("*d0*", "*d1*"), [Y, ("S", "*d1*")], "throw"), Y],
        ],
        "binder-and-failing": [
            [B("binding", ("*d0*", "*d1*"), [Y, ("F", "binding", "nondyn", 2, 1), Y])],
            [("F", "with-bindings*", "validator", 3, 2), B("py-bindings", ("*d0*",), [Y])],
        ],
        "three-threads": [
            [B("binding", ("*d0*",), [Y])],
            [B("with-bindings", ("*d0*",), [("S", "*d0*")], "throw")],
            [Y, Y],
        ],
        "nested-vs-setter": [
            [B("binding", ("*d0*",), [B("with-bindings*", ("*d0*", "*d2*"), [("S", "*d0*"), Y]), Y])],
            [B("py-bindings", ("*d0*", "*d1*", "*d2*"), [Y, ("S", "*d2*")])],
        ],
    }


def progs_factory(name):
    progs = thread_programs()[name]

    def make(s):
        res = Result()
        runners = []
        for tid, prog in enumerate(progs):
            case = {"part": "B", "scenario": name, "thread": tid}
            r = Runner(res, case, tid=tid + 1)
            runners.append(r)

            def body(r=r, prog=prog):
                r.observe("start")
                r.run_nodes(prog, ())
                r.observe("end")

            s.spawn(body)
        return (res, runners)

    return make


class SchedExecutor:
    def __init__(self, s):
        self.s = s

    def submit(self, fn, *args, **kwargs):
        import concurrent.futures
        from basilisp.lang import futures as futures_mod

        saved = concurrent.futures._base.threading
        concurrent.futures._base.threading = sched.SHIM
        try:
            f = concurrent.futures.Future()
        finally:
            concurrent.futures._base.threading = saved

        def work():
            if not f.set_running_or_notify_cancel():
                return
            try:
                r = fn(*args, **kwargs)
            except sched.Abort:
                raise
            except BaseException as e:  # noqa
                f.set_exception(e)
            else:
                f.set_result(r)

        self.s.spawn(work, name="worker")
        return futures_mod.Future(f)

    def shutdown(self, *a, **k):
        pass


def conveyance_factory(name):
    """scenarios where work created under a binding runs elsewhere / later"""
    st = setup()
    d0, d1 = st["vars"]["*d0*"], st["vars"]["*d1*"]
    pool_var = env.core_var("*executor-pool*")
    future_call = env.core_fn("future-call")
    bound_fn_star = env.core_fn("bound-fn*")
    deref = env.core_fn("deref")
    pmap = env.core_fn("pmap")
    doall = env.core_fn("doall")
    wb = env.core_fn("with-bindings*")
    hm = env.core_fn("hash-map")

    def read2():
        sched.yield_point("task:read")
        return (d0.value, d1.value)

    def make(s):
        res = Result()
        out = {"seen": [], "expect": []}
        exe = SchedExecutor(s)
        shared = []
        rd0, rd1 = st["roots"]["*d0*"], st["roots"]["*d1*"]

        def see(k, v, exp):
            out["seen"].append((k, v))
            out["expect"].append((k, exp))

        def creator():
            if name == "future-then-set!":
                # future created under a binding; the creator then set!s and leaves the binding before dereferencing
                def under():
                    f1 = future_call(read2, exe)
                    setter("*d0*")(12)
                    return f1
                f1 = wb(hm(d0, 11, d1, 21), under)
                see("f1", deref(f1), (11, 21))
                see("creator-after", (d0.value, d1.value), (rd0, rd1))
            elif name == "set!-then-future":
                def under():
                    setter("*d0*")(12)
                    return future_call(read2, exe)
                f2 = wb(hm(d0, 11, d1, 21), under)
                # the creator is inside another binding of the same Var while the task may still be pending
                see("f2", wb(hm(d0, 13), lambda: deref(f2)), (12, 21))
                see("creator-after", (d0.value, d1.value), (rd0, rd1))
            elif name == "future-set!-future":
                def under():
                    f1 = future_call(read2, exe)
                    setter("*d0*")(12)
                    f2 = future_call(read2, exe)
                    shared.append(bound_fn_star(read2))
                    return f1, f2
                f1, f2 = wb(hm(d0, 11, d1, 21), under)
                see("f1", deref(f1), (11, 21))
                see("f2", deref(f2), (12, 21))
                see("bound-fn-created-after-set!", shared[0](), (12, 21))
            elif name == "two-futures":
                def under():
                    return future_call(read2, exe), future_call(read2, exe)
                fa, fb = wb(hm(d0, 11), under)
                see("fa", deref(fa), (11, rd1))
                see("fb", deref(fb), (11, rd1))
            elif name == "bound-fn":
                wb(hm(d0, 12, d1, 21), lambda: shared.append(bound_fn_star(read2)))
                see("creator-after", (d0.value, d1.value), (rd0, rd1))
            elif name == "pmap":
                def under2():
                    return list(doall(pmap(lambda x: (x, d0.value), [1, 2])))
                got = wb(hm(d0, 31, pool_var, exe), under2)
                see("pmap", tuple(got), ((1, 31), (2, 31)))
                see("creator-after", (d0.value, d1.value), (rd0, rd1))
            else:
                raise ValueError(name)

        def other():
            # another thread with its own binding calls the bound fn created by the creator (once available)
            def under():
                while not shared:
                    s.yield_point("other:wait", blocked_on=lambda: bool(shared))
                got = shared[0]()
                mine = (d0.value, d1.value)
                return got, mine

            got, mine = wb(hm(d0, 41, d1, 42), under)
            see("bound-fn-in-other-thread", got, (12, 21))
            see("other-own-binding-restored", mine, (41, 42))
            see("other-after", (d0.value, d1.value), (rd0, rd1))

        s.spawn(creator)
        if name == "bound-fn":
            s.spawn(other)
        return (res, out)

    return make


def build_explorer(spec, res):
    kind, name, bound = spec
    setup()
    make = progs_factory(name) if kind == "progs" else conveyance_factory(name)

    def check(ex, ctx):
        res.evaluations += 1
        res.transitions += ex.steps
        ndev = sum(sched.Execution.point_cost(p) for p in ex.points)
        if ndev:
            res.distinct_count += 1
        case = {"part": "B", "kind": kind, "scenario": name, "choices": list(ex.choices), "bound": bound}
        if ex.outcome != "ok":
            res.fail("schedule-" + ex.outcome, case, detail=ex.detail[:300])
            _force_clean()
            return
        bad_threads = {tid: r for tid, r in ex.results.items() if r[0] != "ok"}
        if bad_threads:
            res.fail("thread-raised", case, results={str(k): str(v) for k, v in bad_threads.items()})
            return
        if kind == "progs":
            r0, runners = ctx
            for f in r0.failures:
                f = dict(f)
                f["case"] = case
                res.failures.append(f)
            res.outcomes.add((name, all(r.ok for r in runners)))
        else:
            r0, out = ctx
            seen = dict(out["seen"])
            for k, exp in out["expect"]:
                got = seen.get(k)
                if got != exp:
                    res.fail("conveyed-bindings-wrong", case, what=k, expected=repr(exp), got=repr(got))
            res.outcomes.add((name, tuple(sorted((k, repr(v)) for k, v in out["seen"]))))

    return sched.Explorer(make, check, bound, sched_kwargs())


def explore_threads(spec):
    """whole scenario in this process (debugging)"""
    res = Result()
    E = build_explorer(spec, res)
    E.explore([])
    res.part(f"B/{spec[0]}/{spec[1]}", schedules=E.executions, steps=E.steps, bound=str(spec[2]))
    return res.compact()


def b_scenarios(tier):
    quick = tier == "quick"
    out = []
    for name in thread_programs():
        out.append(("progs", name, 1 if quick else 2))
    for name in ("future-then-set!", "set!-then-future", "future-set!-future", "two-futures", "bound-fn", "pmap"):
        out.append(("conv", name, 1 if quick else 2))
    return out


def run(tier, seed):
    setup()
    res = Result()
    nsh = 16
    if tier == "quick":
        # all programs with <=2 nodes over the full alphabet, 3 nodes over the reduced alphabet
        jobs = [((s + seed) % 4, 4, 2, False, 0) for s in range(4)]
        jobs += [((s + seed) % nsh, nsh, 3, True, 3) for s in range(nsh)]
    else:
        jobs = [((s + seed) % 64, 64, 3, False, 0) for s in range(64)]
        jobs += [((s + seed) % 64, 64, 4, True, 4) for s in range(64)]
    for r in env.parallel(part_a_shard, jobs):
        res.merge(r)
    specs = b_scenarios(tier)
    for r in sched.staged_explore(env, specs, build_explorer, Result):
        res.merge(r)
    ex_spec = specs[0]
    E = build_explorer(ex_spec, Result())
    ex, _ = E.run_one([])
    res.sample({"part": "B", "scenario": ex_spec[1], "schedule": "default", "trace_head": [f"t{t}:{l}" for t, l in ex.trace[:16]]})
    _force_clean()
    res.part("B", scenarios=len(specs), bounds=str({s[1]: s[2] for s in specs}))
    res.part("patterns", realised={f"{k[0]}/k={k[1]}/pos={k[2]}": list(v[0]) for k, v in _ST["patterns"].items()})
    return res


def replay(failure):
    setup()
    case = failure["case"]
    res = Result()
    if case.get("part") == "A":
        prog = [node_from_json(j) for j in case["program"]]
        r = Runner(res, case)
        r.observe("start")
        r.run_nodes(prog, ())
        _force_clean()
        for f in res.failures:
            if f["kind"] == failure["kind"]:
                return f
        return None
    kind, name = case["kind"], case["scenario"]
    make = progs_factory(name) if kind == "progs" else conveyance_factory(name)
    s = sched.Scheduler(prefix=case["choices"], **sched_kwargs())
    ctx = make(s)
    ex = s.run()
    _force_clean()
    if ex.outcome != "ok":
        return dict(failure) if failure["kind"] == "schedule-" + ex.outcome else {"kind": "schedule-" + ex.outcome, "case": case}
    if kind == "progs":
        for f in ctx[0].failures:
            if f["kind"] == failure["kind"]:
                return dict(f, case=case)
        return None
    seen = dict(ctx[1]["seen"])
    for k, exp in ctx[1]["expect"]:
        if seen.get(k) != exp:
            return dict(failure)
    return None
