"""C15 — the Python-AST optimisation pass never changes what generated code does.

(a) bounded AST alphabet: every operator-module call the pass rewrites x operand kinds x operand valuations, and the
    statement-level shapes the generator emits (no-op statements, dead code after return/raise/break/continue, empty
    ifs, repeated globals, try with pure finally), executed before and after the real pass: same result / exception /
    effect trace.
(b) program corpus: PROG(n) of C01 compiled with the real pass and with a pass that only de-duplicates `global`.
(c) every top-level form of every bundled namespace: the (before, after) AST pair recorded from the real pass is
    validated rewrite by rewrite by an independent structural checker (each change must be one of the five kinds).
"""
from __future__ import annotations

import ast
import copy
import importlib
import itertools
import math
import warnings
import sys

from vlib import env, progs
from vlib.evidence import Result
from checks import c01

PROPERTY = "C15"
LEVEL = "model_checking"
BOUNDS = {
    "quick": "(a) all 27 rewritten operator functions x operand kinds {call, name, constant}^arity x 8^arity operand values in 4 syntactic positions + 40 statement shapes; (b) PROG(4) x 2 contexts + PROG(5) at top level, each with and without the pass; (c) every top-level form of every bundled namespace except basilisp.core's second half",
    "thorough": "(a) same; (b) PROG(5) x 7 contexts + PROG(6) at top level + families; (c) every top-level form of every bundled namespace",
}
RULE = (
    "engine C: (a) every body of the bounded AST alphabet is executed before and after PythonASTOptimizer.visit; (b) every corpus program is compiled twice "
    "(real pass / global-dedup-only pass) and executed; (c) every (before, after) pair of every bundled form is aligned node by node and each difference must "
    "be an instance of the five allowed rewrites with its side condition; distinct = (body | program | form); non-trivial = the pass changed something"
)
ASSUMPTIONS = [
    "(a)/(b) compare result (type + repr), exception class and the order of effect markers",
    "(c) trusts the ~150-line structural checker; the semantics of each allowed rewrite rest on (a)",
    "an `if` with an effectful test is not in the alphabet of (a): the generator always evaluates tests into a temporary first; likewise an except handler whose body is only a constant (the generator always assigns the handler's value)",
]

# ----------------------------------------------------------------------------- (a) AST alphabet

BINOPS = ["add", "and_", "floordiv", "lshift", "mod", "mul", "matmul", "or_", "pow", "rshift", "sub", "truediv", "xor"]
UNOPS = ["not_", "inv", "invert"]
CMPOPS = ["lt", "le", "eq", "ne", "gt", "ge", "is_", "is_not", "contains"]
OTHER = ["getitem", "delitem"]


class Weird:
    """operand whose dunder methods observe evaluation (logs which operand each operator received and in which role)"""

    def __init__(self, name, log):
        self.name, self.log = name, log

    def _b(self, op, other):
        self.log.append((op, self.name, getattr(other, "name", repr(other))))
        return f"{op}({self.name},{getattr(other, 'name', other)!r})"

    def __add__(self, o): return self._b("add", o)
    def __radd__(self, o): return self._b("radd", o)
    def __contains__(self, o):
        self.log.append(("contains", self.name, getattr(o, "name", repr(o))))
        return True
    def __eq__(self, o):
        self.log.append(("eq", self.name, getattr(o, "name", repr(o))))
        return True
    def __ne__(self, o):
        self.log.append(("ne", self.name, getattr(o, "name", repr(o))))
        return True
    def __lt__(self, o): return self._b("lt", o)
    def __getitem__(self, k): return self._b("getitem", k)
    __hash__ = object.__hash__


VALUES = [1, 1.0, True, None, "a", [1], float("nan"), 2]
CONSTS = [1, 1.0, True, None, "a", ..., 2]


def unp(node):
    try:
        return ast.unparse(ast.fix_missing_locations(copy.deepcopy(node)))
    except Exception as e:  # noqa
        return f"<unparse failed: {type(e).__name__}>"


def operand_exprs(idx):
    """operand kinds: effectful call t(k, v), plain name, constants"""
    name = "ab"[idx]
    out = [("call", ast.Call(func=ast.Name(id="t", ctx=ast.Load()), args=[ast.Constant(idx), ast.Name(id=name, ctx=ast.Load())], keywords=[])),
           ("name", ast.Name(id=name, ctx=ast.Load())),
           # a module global that every effectful call t(..) REBINDS: evaluating it before or after a sibling call is observable
           ("gname", ast.Name(id="G" + name.upper(), ctx=ast.Load()))]
    for c in CONSTS:
        out.append((f"const:{c!r}", ast.Constant(c)))
    return out


def opcall(opname, args):
    return ast.Call(func=ast.Attribute(value=ast.Name(id=OPALIAS[0], ctx=ast.Load()), attr=opname, ctx=ast.Load()), args=args, keywords=[])


OPALIAS = [None]


def positions(expr):
    """the rewritten call as return value, as assignment source, as argument of another call, as a statement, nested in another rewritten call"""
    R = lambda v: ast.Return(value=v)  # noqa
    yield "return", [R(expr)]
    yield "assign", [ast.Assign(targets=[ast.Name(id="r", ctx=ast.Store())], value=expr), R(ast.Name(id="r", ctx=ast.Load()))]
    yield "argument", [R(ast.Call(func=ast.Name(id="t", ctx=ast.Load()), args=[ast.Constant(9), expr], keywords=[]))]
    yield "statement", [ast.Expr(value=expr), R(ast.Constant(None))]
    yield "nested", [R(opcall("is_", [expr, ast.Constant(None)]))]


def make_fn(body):
    fn = ast.FunctionDef(name="f", args=ast.arguments(posonlyargs=[], args=[ast.arg(arg="t"), ast.arg(arg="a"), ast.arg(arg="b")], kwonlyargs=[], kw_defaults=[], defaults=[]),
                         body=body, decorator_list=[], returns=None, type_params=[])
    return ast.Module(body=[fn], type_ignores=[])


def run_module(mod, a, b):
    import operator

    mod = ast.fix_missing_locations(copy.deepcopy(mod))
    log = []

    def t(k, v):
        log.append(k)
        g["GA"] = g["GB"] = 2  # the "gname" operands change under every effectful call
        return v

    g = {OPALIAS[0]: operator, "GA": a, "GB": b}
    try:
        with warnings.catch_warnings():
            warnings.simplefilter("ignore", SyntaxWarning)  # `1[2]` and the like are part of the alphabet
            code = compile(mod, "<c15>", "exec")
        exec(code, g)
        r = g["f"](t, a, b)
        out = ("ok", type(r).__name__, "nan" if isinstance(r, float) and math.isnan(r) else repr(r))
    except Exception as e:  # noqa
        out = ("exc", type(e).__name__)
    return out, log


def part_a(args):
    shard, nshards = args
    from basilisp.lang.compiler import optimizer as opt_mod
    from basilisp.lang.compiler.constants import OPERATOR_ALIAS

    OPALIAS[0] = OPERATOR_ALIAS
    res = Result()
    idx = 0
    allops = [(o, 2) for o in BINOPS + CMPOPS + ["getitem"]] + [(o, 1) for o in UNOPS]
    for opname, arity in allops:
        for kinds in itertools.product(*[operand_exprs(i) for i in range(arity)]):
            idx += 1
            if idx % nshards != shard:
                continue
            expr = opcall(opname, [copy.deepcopy(k[1]) for k in kinds])
            for pos, body in positions(expr):
                before = make_fn(copy.deepcopy(body))
                after = opt_mod.PythonASTOptimizer().visit(copy.deepcopy(before))
                changed = ast.dump(before) != ast.dump(after)
                if changed:
                    res.distinct_count += 1
                need_a = any(k[0] in ("call", "name", "gname") for k in kinds[:1])
                need_b = arity == 2 and kinds[1][0] in ("call", "name", "gname")
                for a in (VALUES if need_a else [None]):
                    for b in (VALUES if need_b else [None]):
                        r1 = run_module(before, a, b)
                        r2 = run_module(after, a, b)
                        res.evaluations += 1
                        res.transitions += 2
                        res.outcomes.add((opname, r1[0][0], changed))
                        if r1 != r2:
                            res.fail("optimized-body-behaves-differently",
                                     {"part": "a", "op": opname, "operands": [k[0] for k in kinds], "position": pos, "a": repr(a), "b": repr(b)},
                                     before=unp(before), after=unp(after), unoptimized=[list(r1[0]), r1[1]], optimized=[list(r2[0]), r2[1]])
    # evaluation order / identity with observing operands (only meaningful for two-operand ops)
    if shard == 0:
        for opname in ["add", "eq", "ne", "lt", "contains", "getitem", "is_", "is_not"]:
            for pos, body in positions(opcall(opname, [ast.Name(id="a", ctx=ast.Load()), ast.Name(id="b", ctx=ast.Load())])):
                before = make_fn(body)
                after = opt_mod.PythonASTOptimizer().visit(copy.deepcopy(before))
                outs = []
                for m in (before, after):
                    log = []
                    o, tl = run_module(m, Weird("A", log), Weird("B", log))
                    outs.append((o[:2], log))
                res.evaluations += 1
                if outs[0] != outs[1]:
                    res.fail("optimized-body-behaves-differently", {"part": "a", "op": opname, "operands": ["observer", "observer"], "position": pos},
                             unoptimized=str(outs[0]), optimized=str(outs[1]))
        stmt_shapes(res, opt_mod)
    res.part("a/operator-rewrites", bodies=res.evaluations)
    return res.compact()


def stmt_shapes(res, opt_mod):
    """statement-level shapes: each is a function body source; t(k, v) marks effects"""
    shapes = [
        "1\nreturn t(0, a)",
        "a\nb\nreturn t(0, a)",
        "t(0, a)\n'doc'\nreturn t(1, b)",
        "return t(0, a)\nt(1, b)",
        "if a:\n    return t(0, 1)\n    t(1, 2)\nreturn t(2, 3)",
        "while True:\n    t(0, a)\n    break\n    t(1, b)\nreturn t(2, b)",
        "for i in (1, 2):\n    t(i, a)\n    continue\n    t(9, b)\nreturn None",
        "try:\n    raise ValueError\n    t(0, a)\nexcept ValueError:\n    return t(1, b)\n    t(2, a)",
        "tmp = t(0, a)\nif None is tmp or False is tmp:\n    1\nelse:\n    a\nreturn t(1, b)",
        "tmp = t(0, a)\nif None is tmp or False is tmp:\n    pass_ = 1\nelse:\n    a\nreturn t(1, tmp)",
        "tmp = t(0, a)\nif None is tmp or False is tmp:\n    1\nelse:\n    r = t(1, b)\n    return r\nreturn t(2, tmp)",
        "global g1\nglobal g1\ng1 = t(0, a)\nreturn g1",
        "global g1, g2\nglobal g2, g3\ng3 = t(0, a)\nreturn g3",
        "try:\n    r = t(0, a)\nfinally:\n    1\nreturn r",
        "try:\n    r = t(0, a)\nfinally:\n    a\n    2\nreturn r",
        "try:\n    r = t(0, a)\n    raise ValueError\nfinally:\n    1\nreturn r",
        "try:\n    r = t(0, a)\nexcept ValueError:\n    r = 1\nfinally:\n    2\nreturn r",
        "def inner():\n    return t(0, a)\n    t(1, b)\nreturn inner()",
        "def inner():\n    global g1\n    global g1\n    return t(0, a)\nreturn inner()",
        "global g1\ng1 = t(0, a)\ndef inner():\n    global g1\n    g1 = t(1, b)\n    return g1\ninner()\nreturn g1",
        "global g1\ng1 = t(0, a)\ndef inner():\n    global g1\n    global g1\n    def g1():\n        return t(1, b)\n    return g1\ninner()\nreturn g1 if not callable(g1) else g1()",
        "def first():\n    global g2\n    g2 = t(0, a)\ndef second():\n    global g2\n    g2 = t(1, b)\nfirst()\nsecond()\nreturn g2",
        "global g1\ndef outer():\n    def inner():\n        global g1\n        g1 = t(0, b)\n    inner()\ng1 = t(1, a)\nouter()\nreturn g1",
        "x = 1\nwhile x:\n    x = 0\n    t(0, a)\nelse:\n    return t(1, b)\n    t(2, a)\nreturn 5",
        "raise KeyError(t(0, a))\nt(1, b)",
    ]
    for src in shapes:
        body = ast.parse("def f(t, a, b):\n" + "\n".join("    " + l for l in src.split("\n"))).body[0].body
        before = make_fn(body)
        try:
            after = opt_mod.PythonASTOptimizer().visit(copy.deepcopy(before))
        except Exception as e:  # noqa
            res.fail("optimizer-raises", {"part": "a", "shape": src}, exc=type(e).__name__)
            continue
        if ast.dump(before) != ast.dump(after):
            res.distinct_count += 1
        for a in VALUES:
            for b in (1, None):
                r1 = run_module(before, a, b)
                r2 = run_module(after, a, b)
                res.evaluations += 1
                res.transitions += 2
                if r1 != r2:
                    res.fail("optimized-body-behaves-differently", {"part": "a", "shape": src, "a": repr(a), "b": repr(b)},
                             after=unp(after), unoptimized=[list(r1[0]), r1[1]], optimized=[list(r2[0]), r2[1]])
        verdict = check_pair(before, after)
        if verdict:
            res.fail("rewrite-not-allowed", {"part": "a", "shape": src}, why=verdict, after=unp(after))


# ----------------------------------------------------------------------------- (b) corpus with / without the pass


class GlobalDedupOnly(ast.NodeTransformer):
    """the least a pass must do for Python to accept the generated code: drop repeated names from `global` statements"""

    def __init__(self):
        self.ctx = [set()]

    def visit_FunctionDef(self, node):
        self.ctx.append(set())
        try:
            return self.generic_visit(node)
        finally:
            self.ctx.pop()

    def visit_Global(self, node):
        new = [n for n in node.names if n not in self.ctx[-1]]
        self.ctx[-1].update(new)
        return ast.copy_location(ast.Global(names=new), node) if new else None


_EVB = {}


def evaluator_b(which):
    from basilisp.lang import compiler

    st = _EVB.get(which)
    if st is None or st[1] >= 40:
        ns = st[0].ns if st else None
        ev = env.Evaluator(ns=ns, opts=compiler.compiler_opts())
        if which == "plain":
            ev.ctx._optimizer = GlobalDedupOnly()
        if st is None:
            ev.eval("(def id (fn* [x] x)) (def trlog (python/list)) (def tr (fn* [k v] (.append trlog k) v))")
        st = [ev, 0]
        _EVB[which] = st
    st[1] += 1
    return st[0]


def run_b(text, which):
    from basilisp.lang import symbol as sym

    ev = evaluator_b(which)
    log = ev.ns.find(sym.symbol("trlog")).value
    del log[:]
    try:
        v = ("ok", c01.canon_impl(ev.eval(text)))
    except BaseException as e:  # noqa
        if isinstance(e, (KeyboardInterrupt, SystemExit)):
            raise
        v = ("exc", type(e).__name__)
    return v, list(log)


def part_b(args):
    kind, shard, nshards, n, contexts = args
    from checks import c02

    res = Result()
    items = [("prog", t) for t in progs.prog(n)] if kind == "prog" else c01.families(n)
    for idx, (family, t) in enumerate(items):
        if idx % nshards != shard:
            continue
        try:
            progs.Ref().run(t)
        except (progs.Diverges, RecursionError):
            continue
        text = progs.to_text(t, "plain", trace=True)
        for ctx in contexts:
            full = c02.TCONTEXTS[ctx][0].replace("{P}", text)
            r_opt = run_b(full, "optimized")
            r_plain = run_b(full, "plain")
            res.evaluations += 2
            res.transitions += len(r_opt[1]) + len(r_plain[1])
            res.distinct_count += 1
            res.outcomes.add((r_opt[0][0], len(r_opt[1])))
            if r_opt != r_plain:
                res.fail("optimized-program-behaves-differently", {"part": "b", "text": full, "context": ctx, "family": family},
                         optimized=[list(r_opt[0]), r_opt[1]], unoptimized=[list(r_plain[0]), r_plain[1]])
    res.part(f"b/{kind}({n})/ctx={len(contexts)}", programs=len(items) if shard == 0 else 0)
    return res.compact()


# ----------------------------------------------------------------------------- (c) structural validation of recorded pairs

TERMINATORS = (ast.Break, ast.Continue, ast.Raise, ast.Return)
OP_TABLE = {
    "add": ast.Add, "and_": ast.BitAnd, "floordiv": ast.FloorDiv, "lshift": ast.LShift, "mod": ast.Mod, "mul": ast.Mult, "matmul": ast.MatMult,
    "or_": ast.BitOr, "pow": ast.Pow, "rshift": ast.RShift, "sub": ast.Sub, "truediv": ast.Div, "xor": ast.BitXor,
}
UN_TABLE = {"not_": ast.Not, "inv": ast.Invert, "invert": ast.Invert}
CMP_TABLE = {"lt": ast.Lt, "le": ast.LtE, "eq": ast.Eq, "ne": ast.NotEq, "gt": ast.Gt, "ge": ast.GtE, "is_": ast.Is, "is_not": ast.IsNot}


def is_op_call(n):
    return isinstance(n, ast.Call) and isinstance(n.func, ast.Attribute) and isinstance(n.func.value, ast.Name) and n.func.value.id == OPALIAS[0] and not n.keywords


def pure_test(e):
    return not any(isinstance(x, (ast.Call, ast.Attribute, ast.Subscript, ast.Await, ast.Yield, ast.YieldFrom, ast.NamedExpr)) for x in ast.walk(e))


def singleton_or_nonconst(e):
    return not (isinstance(e, ast.Constant) and all(e.value is not v for v in (True, False, None, ...)))


def expr_ok(b, a):
    """'' if `a` is an allowed optimisation of expression `b`, else a reason"""
    if is_op_call(b) and not (is_op_call(a) and a.func.attr == b.func.attr):
        name = b.func.attr
        args = b.args
        if name in OP_TABLE and isinstance(a, ast.BinOp) and isinstance(a.op, OP_TABLE[name]) and len(args) == 2:
            return expr_ok(args[0], a.left) or expr_ok(args[1], a.right)
        if name in UN_TABLE and isinstance(a, ast.UnaryOp) and isinstance(a.op, UN_TABLE[name]) and len(args) == 1:
            return expr_ok(args[0], a.operand)
        if name in CMP_TABLE and isinstance(a, ast.Compare) and len(a.ops) == 1 and isinstance(a.ops[0], CMP_TABLE[name]) and len(args) == 2:
            if name in ("is_", "is_not") and not (singleton_or_nonconst(args[0]) and singleton_or_nonconst(args[1])):
                return f"operator.{name} with a non-singleton constant rewritten to an identity comparison"
            return expr_ok(args[0], a.left) or expr_ok(args[1], a.comparators[0])
        if name == "contains" and isinstance(a, ast.Compare) and len(a.ops) == 1 and isinstance(a.ops[0], ast.In) and len(args) == 2:
            if not all(isinstance(x, (ast.Constant, ast.Name)) for x in args):
                return "operator.contains rewritten to `in` although an operand has effects (operand order is swapped)"
            return expr_ok(args[1], a.left) or expr_ok(args[0], a.comparators[0])
        if name == "getitem" and isinstance(a, ast.Subscript) and len(args) == 2:
            return expr_ok(args[0], a.value) or expr_ok(args[1], a.slice)
        return f"call of operator.{name} replaced by {type(a).__name__} (not the corresponding native operator with the same operands)"
    return node_ok(b, a)


def node_ok(b, a):
    if type(b) is not type(a):
        if is_op_call(b) and b.func.attr == "delitem" and isinstance(a, ast.Delete):
            return ""
        return f"{type(b).__name__} replaced by {type(a).__name__}"
    for field, bv in ast.iter_fields(b):
        av = getattr(a, field, None)
        if isinstance(bv, list):
            if bv and isinstance(bv[0], ast.stmt) or (not bv and field in ("body", "orelse", "finalbody")):
                r = stmts_ok(bv, av if isinstance(av, list) else [], in_function=isinstance(b, ast.FunctionDef))
            else:
                if not isinstance(av, list) or len(av) != len(bv):
                    return f"{type(b).__name__}.{field} changed length"
                r = ""
                for x, y in zip(bv, av):
                    if isinstance(x, ast.AST):
                        r = r or (expr_ok(x, y) if isinstance(x, ast.expr) else node_ok(x, y))
                    elif x != y:
                        r = r or f"{type(b).__name__}.{field} changed"
            if r:
                return r
        elif isinstance(bv, ast.AST):
            if not isinstance(av, ast.AST):
                return f"{type(b).__name__}.{field} removed"
            r = expr_ok(bv, av) if isinstance(bv, ast.expr) else node_ok(bv, av)
            if r:
                return r
        else:
            if bv != av and not (field in ("lineno", "col_offset", "end_lineno", "end_col_offset", "type_comment", "kind")):
                return f"{type(b).__name__}.{field}: {bv!r} -> {av!r}"
    return ""


_GLOBALS_SEEN = [set()]


def droppable(s, after_terminator):
    if after_terminator:
        return True
    if isinstance(s, ast.Expr) and isinstance(s.value, (ast.Constant, ast.Name)):
        return True
    if isinstance(s, ast.If) and all_droppable(s.body) and all_droppable(s.orelse):
        return pure_test(s.test)
    if isinstance(s, ast.Global) and all(n in _GLOBALS_SEEN[-1] for n in s.names):
        return True
    return False


def all_droppable(stmts):
    term = False
    for s in stmts:
        if not droppable(s, term):
            return False
        if isinstance(s, TERMINATORS):
            term = True
    return True


def stmts_ok(bs, as_, in_function=False):
    """'' if the statement list `as_` is an allowed optimisation of `bs`, else a reason.  Two-pointer alignment: every
    statement of `bs` either has its (allowed-rewrite of a) counterpart next in `as_`, or it is one the pass may drop."""
    if in_function:
        _GLOBALS_SEEN.append(set())
    try:
        j = 0
        term = False  # a terminator has been passed in the *optimised* list: everything after it may be dropped
        for s in bs:
            matched = False
            if j < len(as_):
                a = as_[j]
                if isinstance(s, ast.Global) and isinstance(a, ast.Global):
                    keep = [n for n in s.names if n not in _GLOBALS_SEEN[-1]]
                    if keep and sorted(a.names) == sorted(keep):
                        matched = True
                elif isinstance(s, ast.If) and isinstance(a, ast.If) and all_droppable(s.body) and not all_droppable(s.orelse) \
                        and isinstance(a.test, ast.UnaryOp) and isinstance(a.test.op, ast.Not) and not a.orelse \
                        and not expr_ok(s.test, a.test.operand) and not stmts_ok(s.orelse, a.body):
                    matched = True  # empty body: negated test, orelse becomes the body
                elif isinstance(s, ast.Try) and not s.handlers and all_droppable(s.finalbody) and not isinstance(a, ast.Try):
                    # try without handlers whose finally became empty: replaced by its body (+ orelse)
                    inner = list(s.body) + list(s.orelse)
                    for n in range(len(as_) - j, -1, -1):
                        if not stmts_ok(inner, as_[j : j + n]):
                            j += n
                            if n and isinstance(as_[j - 1], TERMINATORS):
                                term = True
                            matched = None  # consumed
                            break
                elif type(s) is type(a) and not node_ok(s, a):
                    matched = True
            if isinstance(s, ast.Global):
                _GLOBALS_SEEN[-1].update(s.names)
            if matched is None:
                continue
            if matched:
                j += 1
                if isinstance(as_[j - 1], TERMINATORS):
                    term = True
            elif not (term or _droppable_now(s)):
                if j < len(as_) and type(s) is type(as_[j]):
                    return node_ok(s, as_[j]) or f"statement {type(s).__name__} changed"
                return f"statement {type(s).__name__} was dropped: {unp(s)[:80]}"
        if j != len(as_):
            return f"{len(as_) - j} statement(s) in the optimised body have no counterpart"
        return ""
    finally:
        if in_function:
            _GLOBALS_SEEN.pop()


def _droppable_now(s):
    if isinstance(s, ast.Global):
        return True  # only reached when every name had been declared before (otherwise it would have matched above)
    return droppable(s, False)


def _surviving(stmts):
    out = []
    term = False
    for s in stmts:
        if term:
            break
        if not droppable(s, False):
            out.append(s)
        if isinstance(s, TERMINATORS):
            term = True
    return out


def check_pair(before, after):
    _GLOBALS_SEEN[:] = [set()]
    try:
        return stmts_ok(before.body, after.body if after is not None else [])
    except RecursionError:
        return "checker recursion limit"


def part_c(args):
    modnames, half = args
    from basilisp.lang import compiler
    from basilisp.lang.compiler import optimizer as opt_mod
    from basilisp.lang.compiler.constants import OPERATOR_ALIAS

    OPALIAS[0] = OPERATOR_ALIAS
    res = Result()
    pairs = []
    Real = opt_mod.PythonASTOptimizer

    class Recording(Real):
        def visit(self, node):
            if isinstance(node, ast.Module):
                before = copy.deepcopy(node)
                out = super().visit(node)
                pairs.append((before, copy.deepcopy(out)))
                return out
            return super().visit(node)

    saved = compiler.PythonASTOptimizer
    compiler.PythonASTOptimizer = Recording
    try:
        for m in modnames:
            n0 = len(pairs)
            sys.modules.pop(m, None)
            try:
                from basilisp.lang import runtime, symbol as sym

                if m != "basilisp.core":
                    runtime.Namespace.remove(sym.symbol(m.replace("_", "-")))
                importlib.import_module(m)
            except Exception as e:  # noqa
                res.notes.append(f"could not import {m}: {type(e).__name__}: {str(e)[:80]}")
            res.part(f"c/{m}", forms=len(pairs) - n0)
    finally:
        compiler.PythonASTOptimizer = saved
    for i, (b, a) in enumerate(pairs):
        res.evaluations += 1
        res.transitions += 1
        changed = ast.dump(b) != ast.dump(a)
        if changed:
            res.distinct_count += 1
        res.outcomes.add(("c", changed))
        why = check_pair(b, a)
        if why:
            res.fail("rewrite-not-allowed", {"part": "c", "modules": modnames, "form_index": i}, why=why, before=unp(b)[:600], after=unp(a)[:600])
    if pairs:
        b, a = next(((b, a) for b, a in pairs if ast.dump(b) != ast.dump(a)), pairs[0])
        res.sample({"part": "c", "before": unp(b)[:300], "after": unp(a)[:300]})
    return res.compact()


def bundled_modules():
    src = env.REPO / "src" / "basilisp"
    mods = []
    for p in sorted(src.rglob("*.lpy")):
        rel = p.relative_to(src.parent).with_suffix("")
        name = ".".join(rel.parts)
        if name in ("basilisp.core",):
            continue
        mods.append(name)
    return mods


def _job(j):
    return {"a": part_a, "b": part_b, "c": part_c}[j[0]](j[1])


def run(tier, seed):
    from basilisp.lang.compiler.constants import OPERATOR_ALIAS

    OPALIAS[0] = OPERATOR_ALIAS
    res = Result()
    jobs = [("a", (s, 8)) for s in range(8)]
    if tier == "quick":
        jobs += [("b", ("prog", s, 16, 4, ["top", "call-arg-mid"])) for s in range(16)]
        jobs += [("b", ("prog", s, 16, 5, ["top"])) for s in range(16)]
    else:
        from checks import c02

        jobs += [("b", ("prog", s, 48, 5, list(c02.TCONTEXTS))) for s in range(48)]
        jobs += [("b", ("prog", s, 48, 6, ["top"])) for s in range(48)]
        jobs += [("b", ("fam", s, 16, 3, ["top", "statement"])) for s in range(16)]
    mods = bundled_modules()
    skip = {"basilisp.contrib.pytest.testrunner", "basilisp.contrib.sphinx.autodoc", "basilisp.contrib.sphinx.domain"}
    mods = [m for m in mods if m not in skip]
    for chunk in [mods[i::6] for i in range(6)]:
        jobs.append(("c", (chunk, None)))
    jobs.append(("c", (["basilisp.core"], None)))
    k = seed % len(jobs)
    jobs = jobs[k:] + jobs[:k]
    for r in env.parallel(_job, jobs):
        res.merge(r)
    return res


def replay(failure):
    from basilisp.lang.compiler import optimizer as opt_mod
    from basilisp.lang.compiler.constants import OPERATOR_ALIAS

    OPALIAS[0] = OPERATOR_ALIAS
    case = failure["case"]
    if case["part"] == "b":
        r1, r2 = run_b(case["text"], "optimized"), run_b(case["text"], "plain")
        return dict(failure) if r1 != r2 else None
    if case["part"] == "c":
        r = part_c((case["modules"], None))
        for f in r.failures:
            if f["kind"] == failure["kind"] and f.get("why") == failure.get("why"):
                return f
        return None
    # part a: re-run the whole (cheap) part and look the case up
    for s in range(8):
        r = part_a((s, 8))
        for f in r.failures:
            if f["kind"] == failure["kind"] and f["case"] == case:
                return f
    return None
