"""C16 — the reader is total, classifies incomplete input, and reports true locations.

Engine C: (a) every string up to length L over the delimiter/dispatch alphabet; (b) every prefix and
every single-character edit of programs generated from the reader grammar and of bundled sources.
"""
from __future__ import annotations

import itertools
import os
import signal
from pathlib import Path

from vlib import env
from vlib.evidence import Result

PROPERTY = "C16"
LEVEL = "model_checking"
BOUNDS = {
    "quick": "all strings of length <=4 over the 26-char alphabet (475,254); all prefixes + all single-char edits of depth<=1 grammar programs, all prefixes of depth-2 programs, under LF/CRLF/CR; all prefixes of every top-level form of 3 bundled namespaces",
    "thorough": "all strings of length <=5 over the 26-char alphabet, <=6 over a 14-char core, <=8 over the 9-char nesting core; prefixes+edits of depth<=2 grammar programs; all prefixes of every top-level form of every bundled .lpy",
}
RULE = (
    "engine C: every input of the stated finite sets is read with the real reader; oracle = totality (forms or reader.SyntaxError with "
    "integer line/col), only-Lisp-data walk, incomplete-vs-malformed classification by an independent pushdown recogniser (with completion "
    "check), and span re-read for every collection/symbol outside syntax-quote and #(); distinct = distinct input text; non-trivial = "
    "input contains a delimiter, prefix or dispatch character"
)
ASSUMPTIONS = [
    "reference recogniser (~150 lines) decides only nesting / pending-prefix structure; token validity is taken from the reader itself via the completed text",
    "prefixes ` #_ \\ #b #f #: #? at end of input and mismatched closers are 'undecided': only totality and data-only are checked there",
    "forms inside syntax-quote and inside #() bodies are exempt from span re-reading (their symbols are rewritten by the reader), as are symbol keys that received their namespace from a #:ns{...} prefix",
]

SIGMA = list("()[]{}\"\\'`~@^#_:/a1-.e \n;?")
CORE14 = list("()[]{}\"'~@^# a")
NEST9 = list("()[]{}\"a ")

WS = set(" \t\n\r\f\v,\x1c\x1d\x1e\x1f\x85\xa0")
OPEN = {"(": ")", "[": "]", "{": "}"}
CLOSE = set(")]}")
# characters at which the reader's symbol/keyword tokenizer stops (dispatch chars other than # ' %)
SYM_STOP = set('()[]{}"\\^;`~@')
HARD_DELIM = set('()[]{}";')
NUMCH = set("0123456789abcdefghijklmnopqrstuvwxyzABCDEFGHIJKLMNOPQRSTUVWXYZ/.+-")
KNOWN_TAG_COMPLETION = {
    "uuid": ' "00000000-0000-0000-0000-000000000000"',
    "inst": ' "2020-01-01T00:00:00Z"',
    "py": " []",
    "queue": " []",
}


def is_ws(c):
    return c in WS or c.isspace()


class Frame:
    __slots__ = ("kind", "need", "count", "close", "extra")

    def __init__(self, kind, need=0, close="", extra=""):
        self.kind = kind  # 'delim' | 'prefix' | 'discard'
        self.need = need
        self.count = 0
        self.close = close
        self.extra = extra


def classify(s):
    """Return (cls, completion) with cls in {'balanced','owed','undecided'}."""
    stack = []
    i, n = 0, len(s)
    undecided = False

    def deliver():
        # a complete form was just read: hand it to pending prefixes / enclosing delimiter
        while stack:
            top = stack[-1]
            if top.kind == "delim":
                top.count += 1
                return
            top.need -= 1
            if top.need > 0:
                return
            stack.pop()
            if top.kind == "discard":
                return  # #_ form produces nothing
        return

    while i < n:
        c = s[i]
        if is_ws(c):
            i += 1
            continue
        if c == ";":
            while i < n and s[i] not in "\r\n":
                i += 1
            continue
        if c == '"':
            i += 1
            esc = False
            closed = False
            while i < n:
                ch = s[i]
                i += 1
                if esc:
                    esc = False
                elif ch == "\\":
                    esc = True
                elif ch == '"':
                    closed = True
                    break
            if not closed:
                comp = ('\\"' if esc else '"')
                return ("owed", s + comp + _close_all(stack, after_form=True))
            deliver()
            continue
        if c == "\\":
            if i + 1 >= n:
                return ("undecided", None)
            i += 2
            while i < n and s[i].isalnum():
                i += 1
            deliver()
            continue
        if c in OPEN:
            stack.append(Frame("delim", close=OPEN[c], extra=c))
            i += 1
            continue
        if c in CLOSE:
            if not stack or stack[-1].kind != "delim" or stack[-1].close != c:
                return ("undecided", None)
            closed = stack.pop()
            i += 1
            if closed.extra == "#?(" and stack and (stack[-1].kind != "delim" or stack[-1].extra == "{"):
                # a reader conditional yields one form, none (no branch selected: `'#?()` still owes the quoted form) or,
                # spliced, several: where the number matters (after a prefix / #_, or for the parity of a map) give up
                return ("undecided", None)
            deliver()
            continue
        if c in "'@":
            stack.append(Frame("prefix", need=1))
            i += 1
            continue
        if c == "`":
            stack.append(Frame("prefix", need=1, extra="`"))
            i += 1
            continue
        if c == "~":
            i += 1
            if i < n and s[i] == "@":
                i += 1
            stack.append(Frame("prefix", need=1))
            continue
        if c == "^":
            stack.append(Frame("prefix", need=2, extra="^"))
            i += 1
            continue
        if c == "#":
            if i + 1 >= n:
                return ("undecided", None)
            d = s[i + 1]
            if d == "{":
                stack.append(Frame("delim", close="}", extra="#{"))
                i += 2
                continue
            if d == "(":
                stack.append(Frame("delim", close=")", extra="#("))
                i += 2
                continue
            if d == "'":
                if i + 2 >= n:
                    stack.append(Frame("prefix", need=1, extra="#'"))
                    i += 2
                    continue
                if s[i + 2] == "~":
                    stack.append(Frame("prefix", need=1, extra="#'"))
                    i += 2
                    continue
                # otherwise the reader reads a symbol token right here (no dispatch): (var <token>)
                j = i + 2
                while j < n and not is_ws(s[j]) and s[j] not in SYM_STOP:
                    j += 1
                if j == i + 2:
                    return ("undecided", None)
                i = j
                deliver()
                continue
            if d == '"':
                # regex: raw string; a backslash anywhere in it makes the recogniser give up
                j = i + 2
                while j < n and s[j] != '"':
                    if s[j] == "\\":
                        return ("undecided", None)
                    j += 1
                if j >= n:
                    return ("owed", s + '"' + _close_all(stack, after_form=True))
                i = j + 1
                deliver()
                continue
            if d == "_":
                stack.append(Frame("discard", need=1, extra="#_"))
                i += 2
                continue
            if d == "!":
                while i < n and s[i] not in "\r\n":
                    i += 1
                continue
            if d == "#":
                # numeric constant ##Inf: token
                i += 2
                j = i
                while j < n and not is_ws(s[j]) and s[j] not in SYM_STOP:
                    j += 1
                if j == i:
                    return ("undecided", None)
                i = j
                deliver()
                continue
            if d == "?":
                # reader conditional #?( ... ) / #?@( ... ): nests like a list
                j = i + 2
                if j < n and s[j] == "@":
                    j += 1
                if j < n and s[j] == "(":
                    stack.append(Frame("delim", close=")", extra="#?("))
                    i = j + 1
                    continue
                return ("undecided", None)
            if d == ":":
                return ("undecided", None)
            if is_ws(d) or d.isdigit() or d in SYM_STOP or d in CLOSE:
                return ("undecided", None)
            # tagged literal: read the tag symbol
            j = i + 1
            while j < n and not is_ws(s[j]) and s[j] not in SYM_STOP:
                j += 1
            tag = s[i + 1 : j]
            if tag in ("b", "f") or "#" in tag or "'" in tag or "%" in tag:
                return ("undecided", None)
            stack.append(Frame("prefix", need=1, extra="#" + tag))
            i = j
            continue
        # atom tokens
        if c.isdigit() or c == "-":
            j = i
            while j < n and s[j] in NUMCH:
                j += 1
            if j < n and not is_ws(s[j]) and s[j] not in HARD_DELIM:
                return ("undecided", None)
            i = j
            deliver()
            continue
        if c == ":":
            if i + 1 < n and (s[i + 1].isdigit() or s[i + 1].isnumeric()):
                return ("undecided", None)
        j = i
        while j < n and not is_ws(s[j]) and s[j] not in SYM_STOP:
            j += 1
        if j == i:
            return ("undecided", None)
        i = j
        deliver()
        continue

    if undecided:
        return ("undecided", None)
    if not stack:
        return ("balanced", None)
    # something is owed at end of input; the kinds the statement lists vs. the rest
    top = stack[-1]
    if top.kind == "discard" or (top.kind == "prefix" and top.extra == "`"):
        return ("undecided", None)
    return ("owed", s + _close_all(stack, after_form=False))


def _close_all(stack, after_form):
    """Text that completes every open frame. after_form: a form (the string) was just completed by the caller."""
    out = []
    # simulate delivering the just-completed form, then supply what is still owed
    frames = [(f.kind, f.need, f.count, f.close, f.extra) for f in stack]
    delivered = after_form
    while frames:
        kind, need, count, close, extra = frames.pop()
        if kind == "delim":
            if delivered:
                count += 1
            if extra == "{" and count % 2 == 1:
                out.append(" a")
            out.append(close)
            delivered = True
        else:
            if delivered:
                need -= 1
            if need > 0:
                if extra.startswith("#") and extra[1:] in KNOWN_TAG_COMPLETION:
                    out.append(KNOWN_TAG_COMPLETION[extra[1:]])
                elif extra == "#'":
                    out.append("a")
                else:
                    out.append(" a" * need)
            delivered = kind != "discard"
    return "".join(out)


# --------------------------------------------------------------------------- reading + oracles


def routes_to_symbol(text):
    """Would the top-level dispatcher hand this token to the symbol reader (and not read nil/true/false)?"""
    if not text or text in ("nil", "true", "false"):
        return False
    c = text[0]
    if c in "()[]{}\"'\\#^;`~@:" or c.isdigit() or is_ws(c):
        return False
    if c == "-" and len(text) > 1 and (text[1].isdigit() or text[1] == "-"):
        return False
    return True


class _Timeout(Exception):
    pass


def _alarm(signum, frame):
    raise _Timeout()


def loc_index(s):
    """independent (line, col) -> offset index honouring \\n, \\r\\n and lone \\r."""
    idx = {}
    line, col = 1, 0
    n = len(s)
    for i, ch in enumerate(s):
        idx.setdefault((line, col), i)
        if ch == "\n" or (ch == "\r" and not (i + 1 < n and s[i + 1] == "\n")):
            line += 1
            col = 0
        else:
            col += 1
    idx.setdefault((line, col), n)
    return idx


class Ctx:
    def __init__(self):
        from basilisp.lang import keyword as kw, list as llist, map as lmap, queue as lqueue, reader, set as lset, symbol as sym, vector as vec
        from basilisp.lang.interfaces import IMeta, ISeq, IRecord, IType
        from basilisp.lang.tagged import TaggedLiteral
        import datetime, decimal, fractions, re, uuid

        self.reader = reader
        self.read_str = reader.read_str
        self.SyntaxError = reader.SyntaxError
        self.EOFError = reader.UnexpectedEOFError
        self.EOF = reader.EOF
        self.colls = (llist.PersistentList, vec.PersistentVector, lmap.PersistentMap, lset.PersistentSet, lqueue.PersistentQueue)
        self.sym = sym.Symbol
        self.kw = kw.Keyword
        self.scalars = (str, int, float, complex, bool, type(None), decimal.Decimal, fractions.Fraction, uuid.UUID, datetime.datetime, re.Pattern, bytes)
        self.pycolls = (list, tuple, dict, set, frozenset)
        self.IMeta = IMeta
        self.ISeq = ISeq
        self.L, self.C, self.EL, self.EC = reader.READER_LINE_KW, reader.READER_COL_KW, reader.READER_END_LINE_KW, reader.READER_END_COL_KW
        self.llist, self.vec, self.lmap, self.lset = llist, vec, lmap, lset
        self.quote_syms = {sym.symbol("fn*")}

    def bad_data(self, form, depth=0):
        """Return a description of the first non-Lisp-data object inside form, else None."""
        if depth > 40:
            return None
        if form is self.EOF:
            return "EOF sentinel object"
        if isinstance(form, (self.sym, self.kw)) or isinstance(form, self.scalars):
            return None
        if isinstance(form, self.lmap.PersistentMap):
            for k, v in form.items():
                r = self.bad_data(k, depth + 1) or self.bad_data(v, depth + 1)
                if r:
                    return r
            return None
        if isinstance(form, self.colls) or isinstance(form, self.ISeq):
            for x in form:
                r = self.bad_data(x, depth + 1)
                if r:
                    return r
            return None
        if isinstance(form, dict):
            for k, v in form.items():
                r = self.bad_data(k, depth + 1) or self.bad_data(v, depth + 1)
                if r:
                    return r
            return None
        if isinstance(form, self.pycolls):
            for x in form:
                r = self.bad_data(x, depth + 1)
                if r:
                    return r
            return None
        tn = type(form).__name__
        if tn in ("Comment", "ReaderConditional"):
            return tn
        if tn == "object":
            return "bare object()"
        return None  # records, types, tagged values produced by data readers are data

    def read_all(self, s):
        """('ok', forms) | ('syntax', exc) | ('eof', exc) | ('other', exc) | ('timeout', None)"""
        signal.setitimer(signal.ITIMER_VIRTUAL, 10.0)
        try:
            forms = list(self.read_str(s))
            return ("ok", forms)
        except self.EOFError as e:
            return ("eof", e)
        except self.SyntaxError as e:
            return ("syntax", e)
        except _Timeout:
            return ("timeout", None)
        except BaseException as e:  # noqa
            if isinstance(e, (KeyboardInterrupt, SystemExit)):
                raise
            return ("other", e)
        finally:
            signal.setitimer(signal.ITIMER_VIRTUAL, 0)

    def spans(self, s, forms, res, case):
        idx = None
        # (form, exempt_children_rewritten, is_var_quoted_symbol)
        stack = [(f, False, False) for f in forms]
        steps = 0
        while stack:
            form, exempt, varq = stack.pop()
            steps += 1
            if steps > 5000:
                return
            child_exempt = exempt
            is_anon_fn = False
            is_var = False
            if isinstance(form, self.llist.PersistentList) and len(form) > 0:
                h = form.first
                if isinstance(h, self.sym) and h in self.quote_syms and len(form) >= 2 and isinstance(form[1], self.vec.PersistentVector):
                    # (fn* [arg-..] body) produced by #(): body symbols were rewritten (% -> arg-1)
                    args = form[1]
                    if all(isinstance(a, self.sym) and (a.name.startswith("arg-") or a.name == "&") for a in args):
                        child_exempt = True
                        is_anon_fn = True
                if isinstance(h, self.sym) and h.ns is None and h.name == "var" and len(form) == 2:
                    is_var = True
            if isinstance(form, self.IMeta) and form.meta is not None and not exempt:
                m = form.meta
                if m.val_at(self.L) is not None and isinstance(form, self.colls + (self.sym,)):
                    if idx is None:
                        idx = loc_index(s)
                    a = idx.get((m.val_at(self.L), m.val_at(self.C)))
                    b = idx.get((m.val_at(self.EL), m.val_at(self.EC)))
                    if a is None or b is None or b < a:
                        res.fail("span-outside-text", case, form=self._show(form), span=[m.val_at(self.L), m.val_at(self.C), m.val_at(self.EL), m.val_at(self.EC)])
                    else:
                        text = s[a:b]
                        bq = s.find("`")
                        if 0 <= bq < b:
                            pass  # at or after a syntax quote: exempt (symbols are resolved / gensym'ed by the reader)
                        elif isinstance(form, self.sym) and form.ns is not None and not text.startswith(form.ns + "/"):
                            pass  # symbol key of a #:ns{...} map: the namespace was applied by the reader, the text is the bare name
                        elif varq and not routes_to_symbol(text):
                            pass  # #'<token>: the var-quote reader accepts tokens as symbols that no other position reads as a symbol
                        elif is_anon_fn and not text.startswith("#("):
                            res.fail("span-does-not-reread", case, form=self._show(form), span_text=text, reread="span of #() does not start at '#('")
                        else:
                            k, again = self.read_all(text)
                            if k == "syntax" and "#?" in s[:a] and "No data reader found" in str(again):
                                # inside a reader conditional the reader tolerates unknown tags (branches of other dialects may
                                # use them), also in a discarded form of the selected branch: re-read the span in that context
                                k, again = self.read_all("#?(:lpy " + text + "\n)")
                            ok = k == "ok" and len(again) == 1 and self._eq(again[0], form)
                            if not ok:
                                res.fail("span-does-not-reread", case, form=self._show(form), span_text=text,
                                         reread=(self._show(again[0]) if k == "ok" and again else k))
            if isinstance(form, self.lmap.PersistentMap):
                for k, v in form.items():
                    stack.append((k, child_exempt, False))
                    stack.append((v, child_exempt, False))
            elif isinstance(form, self.colls):
                for n, x in enumerate(form):
                    stack.append((x, child_exempt, is_var and n == 1))

    def _eq(self, a, b):
        try:
            return bool(a == b) and type(a) is type(b)
        except Exception:
            return False

    def _show(self, f):
        from basilisp.lang import runtime

        try:
            return runtime.lrepr(f)[:200]
        except Exception as e:  # noqa
            return f"<unprintable {type(f).__name__}: {type(e).__name__}>"


def check_input(cx: Ctx, s, res: Result, where, do_spans=True):
    res.evaluations += 1
    res.transitions += 1
    case = {"text": s, "where": where}
    kind, val = cx.read_all(s)
    cls, completion = classify(s)
    res.outcomes.add((kind, cls))
    if kind == "timeout":
        res.fail("reader-does-not-terminate", case)
        return
    if kind == "other":
        res.fail("reader-raises-non-syntax-error", case, exc=type(val).__name__, msg=str(val)[:160])
        return
    if kind in ("syntax", "eof"):
        if not isinstance(val.line, int) or not isinstance(val.col, int):
            res.fail("syntax-error-without-location", case, exc=type(val).__name__, line=repr(val.line), col=repr(val.col), msg=val.message[:160])
    if kind == "ok":
        for f in val:
            bad = cx.bad_data(f)
            if bad:
                res.fail("form-contains-non-data", case, what=bad)
                break
        else:
            if do_spans:
                cx.spans(s, val, res, case)
    if cls == "balanced" and kind == "eof":
        res.fail("complete-text-reported-as-unexpected-eof", case, msg=val.message[:160])
    elif cls == "owed" and kind != "eof":
        k2, v2 = cx.read_all(completion)
        res.evaluations += 1
        if k2 == "ok":
            res.fail(
                "incomplete-text-not-reported-as-unexpected-eof",
                case,
                got=(kind if kind != "ok" else "read " + repr([cx._show(f) for f in val])[:200]),
                msg=(val.message[:160] if kind == "syntax" else ""),
                completion=completion,
            )


# --------------------------------------------------------------------------- (a) exhaustive strings


def strings_shard(args):
    alphabet, L, first_chars, tag = args
    signal.signal(signal.SIGVTALRM, _alarm)
    cx = Ctx()
    res = Result()
    nontrivial = 0
    total = 0
    for f in first_chars:
        for l in range(0, L):
            for rest in itertools.product(alphabet, repeat=l):
                s = f + "".join(rest)
                total += 1
                check_input(cx, s, res, tag)
    res.distinct_count += total
    res.part(tag, strings=total, max_len=L, alphabet="".join(alphabet))
    return res.compact()


# --------------------------------------------------------------------------- (b) grammar programs

ATOMS = ["a", "ns/b", ":k", ":n/k", "12", "-1.5", "1/2", '"s\\"x"', "\\c", "\\newline", "nil", "true", "##Inf", '#"r.e"', "0x1F", "1e3", "2r101", "é", '"中"', "a.b/c", "-", "+x"]
WRAPS = [
    "({0} {1})", "[{0} {1}]", "{{{0} {1}}}", "#{{{0}}}", "'{0}", "`{0}", "`(~{0} ~@{1})", "@{0}", "^:m [{0}]", "^{{:a 1}} [{0}]", "^a [{0}]",
    "#'a/b", "#_{0} {1}", "#(f {0} %)", "#py [{0}]", "#queue [{0}]", '#uuid "6ba7b810-9dad-11d1-80b4-00c04fd430c8"', '#inst "2020-01-01T00:00:00Z"',
    '#b "a\\x00"', "#?(:lpy {0} :default {1})", "#:ns{{:a {0}}}", "#:ns{{y {0}}}", "#?(:lpy [{0}] :default {1})", "; c\n{0}", "({0}\n  {1})", "[{0} #?@(:lpy [{1}])]", "#!x\n{0}", "{{:a {0}, :b {1}}}", '#f "a{{x}}b"',
    "(quote {0})", "[{0}\n{1}\n]",
]


def programs(depth):
    level = list(ATOMS)
    out = list(level)
    for d in range(depth):
        nxt = []
        for wi, w in enumerate(WRAPS):
            for xi, x in enumerate(level if d == 0 else level[:: max(1, len(level) // 40)]):
                y = level[(xi * 7 + wi) % len(level)]
                nxt.append(w.format(x, y))
        # dedupe keeping order
        seen = set()
        nxt = [p for p in nxt if not (p in seen or seen.add(p))]
        out.extend(nxt)
        level = nxt
    return out


def endings(p):
    if "\n" not in p:
        return [("LF", p)]
    return [("LF", p), ("CRLF", p.replace("\n", "\r\n")), ("CR", p.replace("\n", "\r"))]


def programs_shard(args):
    progs, do_edits, tag = args
    signal.signal(signal.SIGVTALRM, _alarm)
    cx = Ctx()
    res = Result()
    seen = set()
    for p0 in progs:
        for en, p in endings(p0):
            # the program itself must read (sanity of the generator) -- otherwise it is just another input
            for cut in range(len(p) + 1):
                s = p[:cut]
                if s not in seen:
                    seen.add(s)
                    check_input(cx, s, res, f"{tag}/prefix/{en}")
            if do_edits:
                for pos in range(len(p)):
                    cands = [p[:pos] + p[pos + 1 :], p[:pos] + p[pos] + p[pos:]]
                    cands += [p[:pos] + c + p[pos + 1 :] for c in SIGMA if c != p[pos]]
                    for s in cands:
                        if s not in seen:
                            seen.add(s)
                            check_input(cx, s, res, f"{tag}/edit/{en}", do_spans=True)
    res.distinct_count += len(seen)
    res.part(tag, programs=len(progs), inputs=len(seen))
    return res.compact()


def source_forms(path):
    """Cut a bundled source into the texts of its top-level forms using the reader's own spans
    (validated separately by the span check) -- falls back to blank-line chunks."""
    text = Path(path).read_text(encoding="utf-8")
    chunks = []
    cur = []
    for line in text.splitlines(keepends=True):
        if line.startswith("(") and cur:
            chunks.append("".join(cur))
            cur = []
        cur.append(line)
    if cur:
        chunks.append("".join(cur))
    return [c.rstrip("\n") for c in chunks if c.strip()]


def sources_shard(args):
    forms, tag, stride = args
    signal.signal(signal.SIGVTALRM, _alarm)
    cx = Ctx()
    res = Result()
    n = 0
    for text in forms:
        for cut in range(0, len(text) + 1, stride):
            n += 1
            check_input(cx, text[:cut], res, tag, do_spans=(cut == len(text)))
        if len(text) % stride:
            check_input(cx, text, res, tag, do_spans=True)
    res.distinct_count += n
    res.part(tag, forms=len(forms), prefixes=n, stride=stride)
    return res.compact()


def run(tier, seed):
    res = Result()
    jobs = []
    L = 4 if tier == "quick" else 5
    for group in _split(SIGMA, 13):
        jobs.append(("s", (SIGMA, L, group, f"strings<= {L} over 26")))
    if tier == "thorough":
        for group in _split(CORE14, 14):
            jobs.append(("s", (CORE14, 6, group, "strings<=6 over core14")))
        for group in _split(NEST9, 9):
            jobs.append(("s", (NEST9, 8, group, "strings<=8 over nest9")))
    p1 = programs(1)
    p2 = programs(2)[len(p1):]
    for chunk in _chunks(p1, 14):
        jobs.append(("p", (chunk, True, "grammar-depth<=1")))
    for chunk in _chunks(p2, 30):
        jobs.append(("p", (chunk, tier == "thorough", "grammar-depth2")))
    srcdir = env.REPO / "src" / "basilisp"
    if tier == "quick":
        files = [srcdir / "string.lpy", srcdir / "set.lpy", srcdir / "walk.lpy"]
    else:
        files = sorted(srcdir.rglob("*.lpy"))
    for f in files:
        forms = source_forms(f)
        big = f.name == "core.lpy"
        for chunk in _chunks(forms, 12 if big else 3):
            jobs.append(("f", (chunk, f"source:{f.name}", 1)))

    def work(job):
        kind, a = job
        return {"s": strings_shard, "p": programs_shard, "f": sources_shard}[kind](a)

    # the empty string (length 0) once
    signal.signal(signal.SIGVTALRM, _alarm)
    cx = Ctx()
    check_input(cx, "", res, "empty")
    order = list(range(len(jobs)))
    order = order[seed % len(order):] + order[: seed % len(order)]
    for r in env.parallel(work, [jobs[i] for i in order]):
        res.merge(r)
    res.sample({"text": "(a [b", "class": classify("(a [b")[0], "completion": classify("(a [b")[1], "reader": cx.read_all("(a [b")[0]})
    res.sample({"text": "'", "class": classify("'")[0], "reader": cx.read_all("'")[0]})
    res.sample({"text": "#{a}\n[b c]", "reader": cx.read_all("#{a}\n[b c]")[0]})
    return res


def _split(xs, n):
    groups = [[] for _ in range(n)]
    for i, x in enumerate(xs):
        groups[i % n].append(x)
    return [g for g in groups if g]


def _chunks(xs, n):
    k = max(1, (len(xs) + n - 1) // n)
    return [xs[i : i + k] for i in range(0, len(xs), k)]


def replay(failure):
    signal.signal(signal.SIGVTALRM, _alarm)
    cx = Ctx()
    r = Result()
    check_input(cx, failure["case"]["text"], r, failure["case"]["where"])
    for f in r.failures:
        if f["kind"] == failure["kind"]:
            return f
    return None
