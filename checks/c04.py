"""C04 — persistent collections are immutable values that behave like their model.

Engine B (vlib/bfs.py): explicit-state breadth-first search over *branching* operation histories.

State      a pool of entries (value, model, expected metadata, hash at creation, construction
           term).  The pool starts with one initial value; a transition picks ANY entry of the
           pool and applies one operation to it through the function values of basilisp.core
           (env.core_fn, no compilation); a defined result becomes a new pool entry.  Nothing
           is ever removed, so every value ever produced stays observable.
Oracle     plain Python: tuple (vector, list, queue), dict (map), frozenset (set).  After EVERY
           transition (a) the new value is observed through count / seq / nth / get /
           contains? / find / peek / first / rest / = / hash and compared with its model;
           (b) EVERY entry of the pool -- not only the new one -- is read again completely
           and compared with its model, its recorded metadata and the hash it had when it was
           created (this is what detects in-place change of an earlier value, including the
           source of a transient and the result of persistent! after a stale-transient
           operation); (c) `=` between the new value and every other entry must be exactly
           model equality (both argument orders) and equal models must hash alike -- the pool
           always contains with-meta / vary-meta variants, so metadata influencing = or hash
           is caught here; (d) with-meta / vary-meta results carry exactly the given
           metadata, the original keeps its own.  Metadata of all *other* results is
           observed, recorded and from then on required never to change, but whether an
           operation keeps or drops metadata is not judged (the property does not state it).
Undefined  pop of an empty collection, nth beyond the end without default: the model is
           undefined there; raising or (pop) an empty collection are both accepted, the pool
           must stay intact.  assoc indices are only generated inside 0..count.
Transients one compound transition  transient -> (conj!|assoc!|dissoc!|disj!|pop!)* ->
           persistent!, optionally followed by one more !-operation on the now stale
           transient and a second persistent! -- those may raise or succeed, but no
           persistent value may change.

Layers (per collection type and initial state; what the plan deviates from DESIGN.md: one
transition costs 150-400 us because every transition re-reads the whole pool and evaluates `=`
-- a Python-level walk in basilisp -- against every pool entry, so the alphabet that goes to full
depth is kept at about a dozen operations and everything else is explored one step at a time)
  core    every history of length N (3 quick / 4 thorough) over the core alphabet, NO merging
          (every history is a state of its own);
  wide    every history of length Nw (2 / 3) in which any ONE step ranges over the wide
          alphabet (every argument combination; into / merge from any pool entry; every
          !-string of length <= 3 over the transient alphabet x every stale follow-up; the same
          strings with a persistent operation applied to the source while the transient is open)
          and the other steps over the core alphabet;
  deep    every history of length 5 (4 quick) for vector and map over the 7 operations most
          involved in structural sharing, with canonical-state merging.

Correctness argument for the merge.  The canonical key of a pool is the multiset of the
*construction terms* of its entries: term(initial) = 0, term(result) = (term of the picked
entry, operation, terms of entries used as arguments), interned.  A term determines the model,
the expected metadata and -- operations being deterministic functions of the concrete argument
objects -- the concrete tree (node layout, and which nodes it shares with which other terms) of
its value; this is the strongest "construction fingerprint" possible, and two values that are
merely equal but built differently are never identified.  Two histories with the same multiset
therefore build literally the same set of objects by the same calls and differ only in the
order in which independent constructions were interleaved.  What the merge drops is that
order.  It loses no violation under the assumption (audited in the wrappers: no caches or
global mutable state apart from the immutable EMPTY singletons) that an operation reads and
writes only the objects reachable from its arguments: a damaging call `op(x, ...)` occurs in
every linearisation that contains its result term, its damage is to nodes reachable from x; any
entry created earlier that shares those nodes fails the whole-pool re-check at that very step,
any entry created later from damaged nodes fails the check against its model when it is created.
Sharding keeps the merge exact: shard i owns the states whose smallest operation applied to the
initial value is i (in that subtree the initial value only receives operations >= i), so no
state is explored by two workers and none is lost.
"""
from __future__ import annotations

import gc
import itertools

from vlib import bfs, env
from vlib.evidence import Result

PROPERTY = "C04"
LEVEL = "model_checking"
BOUNDS = {
    "quick": "5 types x 25 initial states (vector of 0/1/32/33/1056/1057 elements; map and set of 0/1/8/17 entries and a 3-way "
    "hash-collision bucket; list and queue of 0/1/3): core: every history of length 3 over the core alphabet (12-14 operations per type, "
    "7 for list/queue), unmerged; wide: every history of length 2 in which one step ranges over the wide alphabet (all arguments, every "
    "!-string of length <= 2 x every stale follow-up, interleaved transients, into/merge from any pool entry); deep: every history of "
    "length 4 over the 7-operation deep alphabet for vector and map, merged by construction terms",
    "thorough": "same initial states: core: every history of length 4, unmerged; wide: every history of length 2 with one wide step "
    "(!-strings <= 3) and, except for the 1056/1057 vectors, of length 3 with one wide step (!-strings <= 1); deep: every history of "
    "length 5 over the deep alphabet for vector and map, merged by construction terms",
}
RULE = (
    "engine B: state = pool of every value produced so far; transition = (pick any pool entry, one operation of conj assoc dissoc disj "
    "pop into empty with-meta vary-meta update merge, or transient -> <=3 !-operations -> persistent! [-> one operation on the stale "
    "transient]); keys {k0, k1 (hash-colliding with k0), :a}, values {0, 1, nil}; after every transition every pool entry is re-read and "
    "compared with its model / metadata / hash, the new value is observed through seq count nth get contains? find peek first rest = hash; "
    "a state is distinct by its history (core, wide) or by the multiset of construction terms of its pool (merged); non-trivial = at least "
    "one operation applied"
)
ASSUMPTIONS = [
    "reference model: Python tuple / dict / frozenset with Python equality on {ints, None, keyword, test key objects}",
    "undefined in the model and therefore only required to leave the pool intact: pop of an empty collection, nth beyond the end without "
    "default; whether an operation other than with-meta / vary-meta keeps or drops metadata is recorded, not judged",
    "merge soundness: operations read and write only objects reachable from their arguments (see module docstring)",
    "vectors with more than 8 elements: nth / get / contains? are probed at both ends and at the trie-boundary indices, not at every index; "
    "more than 64 elements: seq is walked for the first 3 elements only (the complete content is still compared through iteration after "
    "every transition), and `=` (a Python-level walk of both vectors) is evaluated against pool entries of different length always, but "
    "against an entry of equal length only for with-meta / vary-meta results and their original; hash is always compared",
    "`=` between the new value and a pool entry with a different model is evaluated in one argument order, with an equal model in both",
    "into / merge take as source a fixed small collection or any pool entry with at most 64 elements",
    "sibling histories share their live values, so the exploration of one (type, initial state, layer) is one large branching history "
    "over one pool; a failure is re-run alone on fresh values before it is reported, and one that only shows in the shared exploration "
    "is reported as result-depends-on-sibling-history; a defect that shows only when NO other operation was ever applied to the same "
    "objects would be missed",
]

BIG = 64
MAX_FAIL_PER_UNIT = 20


# --------------------------------------------------------------------------- universe


class HK:
    """Test key: all instances share one hash value, equality is by number."""

    __slots__ = ("n",)

    def __init__(self, n):
        self.n = n

    def __hash__(self):
        return 7

    def __eq__(self, other):
        return isinstance(other, HK) and other.n == self.n

    def __ne__(self, other):
        return not self.__eq__(other)

    def __repr__(self):
        return f"k{self.n}"


class Undef(Exception):
    """The model does not define the operation on this input."""


class U:
    """Lazily initialised per-process universe (needs basilisp bootstrapped)."""

    ready = False

    @classmethod
    def init(cls):
        if cls.ready:
            return
        from basilisp.lang import keyword as kw, list as llist, map as lmap, queue as lqueue, set as lset, vector as vec

        cls.vec, cls.lmap, cls.lset, cls.llist, cls.lqueue = vec, lmap, lset, llist, lqueue
        cls.KEY = {"k0": HK(0), "k1": HK(1), "k2": HK(2), "a": kw.keyword("a")}
        cls.KW_M, cls.KW_V, cls.KW_I = kw.keyword("m"), kw.keyword("v"), kw.keyword("i")
        cls.M0 = lmap.map({cls.KW_I: 0})  # metadata of every initial value
        cls.M1 = lmap.map({cls.KW_M: 1})
        cls.META = {"m1": cls.M1, "nil": None}
        f = env.core_fn
        for py, name in [
            ("conj", "conj"), ("assoc", "assoc"), ("dissoc", "dissoc"), ("disj", "disj"), ("pop", "pop"), ("peek", "peek"),
            ("into", "into"), ("empty", "empty"), ("with_meta", "with-meta"), ("vary_meta", "vary-meta"), ("update", "update"),
            ("merge", "merge"), ("seq", "seq"), ("nth", "nth"), ("get", "get"), ("contains", "contains?"), ("find", "find"),
            ("first", "first"), ("rest", "rest"), ("count", "count"), ("eq", "="), ("hash", "hash"), ("meta", "meta"),
            ("transient", "transient"), ("persistent", "persistent!"), ("conjB", "conj!"), ("assocB", "assoc!"),
            ("dissocB", "dissoc!"), ("disjB", "disj!"), ("popB", "pop!"),
        ]:
            setattr(cls, py, f(name))
        cls.CONST_SEQ = llist.l(1, None)  # source for into on vector / list / queue
        cls.CONST_KEYS = vec.v(cls.KEY["k1"], cls.KEY["a"])  # source for into on sets
        cls.CONST_ENTRIES = vec.v(vec.v(cls.KEY["k0"], 0), vec.v(cls.KEY["a"], None))  # source for into on maps
        cls.CONST_MAP = lmap.map({cls.KEY["k1"]: 1, 100: 5})  # argument of merge / conj on maps
        cls.ready = True


def upd(old):
    """The function given to `update`."""
    return None if old == 1 else 1


def upd_id(old):
    """The other function given to `update` (actions ("update", k, "id")): returns what it got, so that for an absent key the
    new value IS the (nil) old one while the collection must still gain the key."""
    return old


def upd_of(a):
    return upd_id if len(a) > 2 else upd


KINDS = ("vector", "map", "set", "list", "queue")
INITS = {
    "vector": ("0", "1", "32", "33", "1056", "1057"),
    "map": ("0", "1", "8", "17", "c3"),
    "set": ("0", "1", "8", "17", "c3"),
    "list": ("0", "1", "3"),
    "queue": ("0", "1", "3"),
}
SEQ_KINDS = ("vector", "list", "queue")


def init_model(kind, init):
    """Model of the initial value (fillers are distinct ints so misplaced elements show)."""
    K = U.KEY
    if kind in SEQ_KINDS:
        return tuple(range(1000, 1000 + int(init)))
    if init == "c3":
        keys = [K["k0"], K["k1"], K["k2"]]
    else:
        n = int(init)
        keys = [K["k0"], K["a"], K["k1"]][: min(n, 3 if n >= 17 else 2 if n >= 8 else 1)]
        keys += list(range(100, 100 + n - len(keys)))
    if kind == "set":
        return frozenset(keys)
    vals = [0, 1, None]
    return {k: (vals[i % 3] if i < 3 else i) for i, k in enumerate(keys)}


def build(kind, model, meta=None):
    """A fresh value of the given kind holding the model's content."""
    if kind == "vector":
        return U.vec.vector(model, meta=meta)
    if kind == "list":
        return U.llist.list(model, meta=meta)
    if kind == "queue":
        return U.lqueue.queue(model, meta=meta)
    if kind == "set":
        return U.lset.set(model, meta=meta)
    return U.lmap.map(dict(model), meta=meta)


# --------------------------------------------------------------------------- alphabets


def positions(n):
    """Index tokens valid for assoc on a vector of n elements: First, Last, End (= append)."""
    if n == 0:
        return ("E",)
    if n == 1:
        return ("F", "E")
    return ("F", "L", "E")


def pos_index(tok, n):
    return 0 if tok == "F" else n - 1 if tok == "L" else n


T_WIDE = {
    # kind: (atomic !-operations, stale follow-ups) of the wide alphabet
    "vector": (
        (("conj!", 1), ("conj!", None), ("assoc!", "F", None), ("assoc!", "L", 0), ("pop!",)),
        (None, ("conj!", 0), ("assoc!", "F", 1), ("pop!",)),
    ),
    "map": (
        (("assoc!", "k0", 1), ("assoc!", "k1", None), ("assoc!", "a", 0), ("dissoc!", "k0"), ("dissoc!", "k1"), ("conj!", "k1", 0)),
        (None, ("assoc!", "k0", 0), ("dissoc!", "k1"), ("conj!", "a", 1)),
    ),
    "set": (
        (("conj!", "k0"), ("conj!", "k1"), ("conj!", "a"), ("disj!", "k0"), ("disj!", "k1"), ("disj!", "a")),
        (None, ("conj!", "a"), ("disj!", "k1")),
    ),
}

CORE = {
    # about a dozen value-producing operations per type; vector positions F/L are dropped when they do not exist
    "vector": [
        ("conj", 1), ("assoc", "F", 1), ("assoc", "L", None), ("pop",), ("empty",), ("with-meta", "m1"), ("vary-meta",), ("into", "c"),
        ("t", (("conj!", 1),), ("conj!", 0)), ("t", (("pop!",),), None), ("t", (("assoc!", "F", None),), ("conj!", 0)), ("t", (), None),
    ],
    "map": [
        ("assoc", "k0", 1), ("assoc", "k1", None), ("assoc", "a", 0), ("dissoc", "k0"), ("dissoc", "k1"), ("conj", "e", "k1", 0),
        ("update", "k0"), ("update", "a", "id"), ("merge", "c"), ("empty",), ("with-meta", "m1"), ("vary-meta",),
        ("t", (("assoc!", "k1", 1),), ("assoc!", "k0", 0)), ("t", (("dissoc!", "k0"),), None), ("t", (("conj!", "a", None),), ("assoc!", "k0", 0)),
    ],
    "set": [
        ("conj", "k0"), ("conj", "k1"), ("conj", "a"), ("disj", "k0"), ("disj", "k1"), ("disj", "a"), ("empty",), ("with-meta", "m1"),
        ("vary-meta",), ("into", "c"), ("t", (("conj!", "k1"),), ("conj!", "a")), ("t", (("disj!", "k0"),), None),
    ],
    "list": [("conj", 1), ("conj", None), ("pop",), ("empty",), ("with-meta", "m1"), ("vary-meta",), ("into", "c")],
    "queue": [("conj", 1), ("conj", None), ("pop",), ("empty",), ("with-meta", "m1"), ("vary-meta",), ("into", "c")],
}

MID = {"vector": ("conj", 0), "map": ("assoc", "k0", 0), "set": ("conj", "k0")}  # the interleaved persistent operation of "ti"

DEEP = {
    # the operations most involved in structural sharing, for the length-5 search with merging
    "vector": [
        ("conj", 1), ("assoc", "L", None), ("pop",), ("with-meta", "m1"),
        ("t", (("conj!", 1),), ("conj!", 0)), ("t", (("pop!",),), None), ("t", (("assoc!", "F", None),), ("conj!", 0)),
    ],
    "map": [
        ("assoc", "k0", 1), ("assoc", "k1", None), ("dissoc", "k0"), ("dissoc", "k1"), ("with-meta", "m1"),
        ("t", (("assoc!", "k1", 1),), ("assoc!", "k0", 0)), ("t", (("dissoc!", "k0"),), None),
    ],
}

_WIDE_CACHE = {}


def wide_fixed(kind, tlen):
    """Wide alphabet (!-strings up to length tlen), the part that does not depend on the picked value or the pool."""
    if (kind, tlen) in _WIDE_CACHE:
        return _WIDE_CACHE[kind, tlen]
    a = []
    if kind in SEQ_KINDS:
        a += [("conj", x) for x in (0, 1, None)] + [("pop",)]
    if kind == "map":
        a += [("assoc", k, v) for k in ("k0", "k1", "a") for v in (0, 1, None)]
        a += [("dissoc", k) for k in ("k0", "k1", "a")]
        a += [("conj", "e", k, 0) for k in ("k0", "k1", "a")] + [("conj", "m"), ("conj", "nil")]
        a += [("update", k) for k in ("k0", "k1", "a")] + [("update", k, "id") for k in ("k0", "a")] + [("merge", "c")]
    if kind == "set":
        a += [("conj", k) for k in ("k0", "k1", "a")] + [("disj", k) for k in ("k0", "k1", "a")]
    a += [("empty",), ("with-meta", "m1"), ("with-meta", "nil"), ("vary-meta",), ("into", "c")]
    # one variadic call (conj / disj / dissoc / assoc with two or three operands): every ordered selection, so that an absent
    # operand precedes a present one, an operand repeats, a later pair overrides an earlier one
    ks = ("k0", "k1", "a")
    if kind in SEQ_KINDS:
        a += [("N", ("conj", x), ("conj", y)) for x in (0, 1, None) for y in (0, 1, None)]
    if kind == "set":
        for op in ("conj", "disj"):
            a += [("N", (op, x), (op, y)) for x in ks for y in ks]
            a += [("N", (op, x), (op, y), (op, z)) for x in ks for y in ks for z in ks if len({x, y, z}) == 3]
    if kind == "map":
        a += [("N", ("dissoc", x), ("dissoc", y)) for x in ks for y in ks]
        a += [("N", ("dissoc", x), ("dissoc", y), ("dissoc", z)) for x in ks for y in ks for z in ks if len({x, y, z}) == 3]
        a += [("N", ("assoc", x, 0), ("assoc", y, v)) for x in ks for y in ks for v in (1, None)]
        a += [("N", ("conj", "e", x, 0), ("conj", "e", y, 1)) for x in ks for y in ks]
    if kind in T_WIDE:
        atoms, stale = T_WIDE[kind]
        for k in range(tlen + 1):
            for ops in itertools.product(atoms, repeat=k):
                a += [("t", ops, s) for s in stale]
                if k:
                    a.append(("ti", ops))  # a persistent operation on the source while the transient is open
    _WIDE_CACHE[kind, tlen] = a
    return a


def vec_ok(a, n):
    """Is the position token of a vector action meaningful for n elements?"""
    if a[0] in ("assoc", "update"):
        return a[1] in positions(n)
    return True


def actions_for(kind, entry, pool, alphabet, tlen=3):
    """All actions of the alphabet (CORE, DEEP or "wide") applicable to `entry` in the context of `pool`, simplest first."""
    n = len(entry[1])
    if alphabet != "wide":
        if kind != "vector":
            return alphabet[kind]
        return [a for a in alphabet[kind] if vec_ok(a, n)]
    out = list(wide_fixed(kind, tlen))
    if kind == "vector":
        for p in positions(n):
            out += [("assoc", p, x) for x in (0, 1, None)]
            out.append(("update", p))
            out.append(("update", p, "id"))
    for j, e in enumerate(pool):
        if len(e[1]) <= BIG:
            out.append(("into", "@", j))
            if kind == "map":
                out.append(("merge", "@", j))
    return out



# --------------------------------------------------------------------------- model


def model_op(kind, a, model, pool):
    """New model after action `a` (not transient compounds).  Raises Undef."""
    op = a[0]
    K = U.KEY
    if op == "N":  # one variadic call = its operands applied left to right
        for sa in a[1:]:
            model = model_op(kind, sa, model, pool)
        return model
    if op == "empty":
        return type(model)() if kind != "map" else {}
    if op in ("with-meta", "vary-meta"):
        return model
    if op == "into":
        if a[1] == "c":
            src = {"map": [(K["k0"], 0), (K["a"], None)], "set": [K["k1"], K["a"]]}.get(kind, [1, None])
        else:
            sm = pool[a[2]][1]
            src = list(sm.items()) if kind == "map" else list(sm)
            if kind == "set":
                return model | frozenset(src)
        if kind in ("vector", "queue"):
            return model + tuple(src)
        if kind == "list":
            return tuple(reversed(src)) + model
        if kind == "set":
            return model | frozenset(src)
        m = dict(model)
        m.update(src)
        return m
    if kind in SEQ_KINDS:
        if op == "conj":
            return (a[1],) + model if kind == "list" else model + (a[1],)
        if op == "pop":
            if not model:
                raise Undef()
            return model[:-1] if kind == "vector" else model[1:]
        if op == "assoc":
            i = pos_index(a[1], len(model))
            return model[:i] + (a[2],) + model[i + 1 :]
        if op == "update":
            i = pos_index(a[1], len(model))
            old = model[i] if i < len(model) else None
            return model[:i] + (upd_of(a)(old),) + model[i + 1 :]
    if kind == "set":
        if op == "conj":
            return model | {K[a[1]]}
        if op == "disj":
            return model - {K[a[1]]}
    if kind == "map":
        m = dict(model)
        if op == "assoc":
            m[K[a[1]]] = a[2]
        elif op == "dissoc":
            m.pop(K[a[1]], None)
        elif op == "conj":
            if a[1] == "e":
                m[K[a[2]]] = a[3]
            elif a[1] == "m":
                m.update({K["k1"]: 1, 100: 5})
        elif op == "update":
            m[K[a[1]]] = upd_of(a)(m.get(K[a[1]]))
        elif op == "merge":
            m.update({K["k1"]: 1, 100: 5} if a[1] == "c" else pool[a[2]][1])
        else:
            raise KeyError(a)
        return m
    raise KeyError((kind, a))


def model_bang(kind, b, model):
    """Model of one !-operation on a transient."""
    op = b[0]
    K = U.KEY
    if kind == "vector":
        if op == "conj!":
            return model + (b[1],)
        if op == "pop!":
            if not model:
                raise Undef()
            return model[:-1]
        if op == "assoc!":
            if b[1] == "L" and not model:
                raise Undef()
            i = pos_index(b[1], len(model))
            return model[:i] + (b[2],) + model[i + 1 :]
    if kind == "set":
        return model | {K[b[1]]} if op == "conj!" else model - {K[b[1]]}
    if kind == "map":
        m = dict(model)
        if op in ("assoc!", "conj!"):
            m[K[b[1]]] = b[2]
        else:
            m.pop(K[b[1]], None)
        return m
    raise KeyError((kind, b))


def model_action(kind, a, model, pool):
    if a[0] not in ("t", "ti"):
        return model_op(kind, a, model, pool)
    for b in a[1]:
        model = model_bang(kind, b, model)
    return model


def model_meta(a, parent_meta):
    """Expected metadata (as dict or None) where the property fixes it, else the marker 'observe'."""
    if a[0] == "with-meta":
        return {U.KW_M: 1} if a[1] == "m1" else None
    if a[0] == "vary-meta":
        d = dict(parent_meta or {})
        d[U.KW_V] = 1
        return d
    return "observe"


# --------------------------------------------------------------------------- implementation


def impl_bang(kind, b, t, n):
    op = b[0]
    K = U.KEY
    if kind == "vector":
        if op == "conj!":
            return U.conjB(t, b[1])
        if op == "pop!":
            return U.popB(t)
        return U.assocB(t, pos_index(b[1], n), b[2])
    if kind == "set":
        return U.conjB(t, K[b[1]]) if op == "conj!" else U.disjB(t, K[b[1]])
    if op == "assoc!":
        return U.assocB(t, K[b[1]], b[2])
    if op == "conj!":
        return U.conjB(t, U.vec.v(K[b[1]], b[2]))
    return U.dissocB(t, K[b[1]])


def impl_action(kind, a, val, model, pool, notes):
    """Apply action `a` to the real value.  Returns the result (exceptions propagate)."""
    op = a[0]
    K = U.KEY
    if op == "N":
        args = []
        for sa in a[1:]:
            if kind in SEQ_KINDS:
                args.append(sa[1])
            elif sa[0] == "assoc":
                args += [K[sa[1]], sa[2]]
            elif sa[0] == "conj" and kind == "map":
                args.append(U.vec.v(K[sa[2]], sa[3]))
            else:
                args.append(K[sa[1]])
        return getattr(U, a[1][0])(val, *args)
    if op in ("t", "ti"):
        t = U.transient(val)
        m = model
        if op == "ti":
            side = impl_action(kind, MID[kind], val, model, pool, notes)
            notes.append(("side", side, model_op(kind, MID[kind], model, pool)))
        for b in a[1]:
            t = impl_bang(kind, b, t, len(m))
            try:
                m = model_bang(kind, b, m)
            except Undef:
                pass
        p = U.persistent(t)
        if op == "t" and a[2] is not None:
            try:
                t2 = impl_bang(kind, a[2], t, len(m))
                notes.append("stale-ok")
                try:
                    U.persistent(t2)
                    notes.append("stale-persistent-ok")
                except Exception as e:  # noqa
                    notes.append("stale-persistent-raises:" + type(e).__name__)
            except Exception as e:  # noqa
                notes.append("stale-raises:" + type(e).__name__)
        return p
    if op == "empty":
        return U.empty(val)
    if op == "with-meta":
        return U.with_meta(val, U.META[a[1]])
    if op == "vary-meta":
        return U.vary_meta(val, U.assoc, U.KW_V, 1)
    if op == "into":
        if a[1] == "c":
            src = {"map": U.CONST_ENTRIES, "set": U.CONST_KEYS}.get(kind, U.CONST_SEQ)
        else:
            src = pool[a[2]][0]
        return U.into(val, src)
    if op == "pop":
        return U.pop(val)
    if kind in SEQ_KINDS:
        if op == "conj":
            return U.conj(val, a[1])
        if op == "assoc":
            return U.assoc(val, pos_index(a[1], len(model)), a[2])
        if op == "update":
            return U.update(val, pos_index(a[1], len(model)), upd_of(a))
    if kind == "set":
        return U.conj(val, K[a[1]]) if op == "conj" else U.disj(val, K[a[1]])
    if kind == "map":
        if op == "assoc":
            return U.assoc(val, K[a[1]], a[2])
        if op == "dissoc":
            return U.dissoc(val, K[a[1]])
        if op == "conj":
            if a[1] == "e":
                return U.conj(val, U.vec.v(K[a[2]], a[3]))
            return U.conj(val, U.CONST_MAP if a[1] == "m" else None)
        if op == "update":
            return U.update(val, K[a[1]], upd_of(a))
        if op == "merge":
            return U.merge(val, U.CONST_MAP if a[1] == "c" else pool[a[2]][0])
    raise KeyError((kind, a))


# --------------------------------------------------------------------------- observation


def meta_content(m):
    if m is None:
        return None
    return dict(m.items())


def read_all(kind, v):
    """Complete content of a value through the Python iteration protocol, in model form."""
    if kind in SEQ_KINDS:
        return tuple(v)
    if kind == "set":
        items = list(v)
        s = frozenset(items)
        return s if len(s) == len(items) else ("dup", tuple(map(repr, items)))
    items = list(v.items())
    d = dict(items)
    return d if len(d) == len(items) else ("dup", tuple(map(repr, items)))


def light_check(kind, entry):
    """Re-read one pool entry completely; returns None or a description of the change."""
    v, model, meta, h = entry[0], entry[1], entry[2], entry[3]
    if U.count(v) != len(model):
        return ("count", U.count(v), len(model))
    got = read_all(kind, v)
    if got != model:
        return ("content", short(got), short(model))
    if meta_content(U.meta(v)) != meta:
        return ("meta", short(meta_content(U.meta(v))), short(meta))
    if U.hash(v) != h:
        return ("hash", U.hash(v), h)
    return None


def same(a, b):
    """Model equality of two elements (None only equals None)."""
    return a is b or (a is not None and b is not None and a == b)


def short(x):
    r = repr(x)
    return r if len(r) <= 300 else r[:140] + " ... " + r[-140:]


VEC_PROBES = (0, 1, 2, 30, 31, 32, 33, 63, 64, 1022, 1023, 1024, 1025, 1055, 1056, 1057, 1058)


def full_check(kind, v, model):
    """Observe a (new) value through basilisp.core and compare with the model.  Returns a list of mismatches."""
    bad = []
    n = len(model)
    K = U.KEY
    NF = "nf"
    if U.count(v) != n:
        bad.append(("count", U.count(v), n))
    s = U.seq(v)
    if n == 0:
        if s is not None:
            bad.append(("seq-of-empty", short(s)))
    elif s is None:
        bad.append(("seq-nil", n))
    if kind in SEQ_KINDS:
        if s is not None:
            if n <= BIG:
                got = tuple(s)
                if got != model:
                    bad.append(("seq", short(got), short(model)))
            else:
                got = (U.first(s), U.first(U.rest(s)), U.first(U.rest(U.rest(s))))
                if got != model[:3]:
                    bad.append(("seq-head", short(got), short(model[:3])))
        if not same(U.first(v), model[0] if n else None):
            bad.append(("first", U.first(v)))
        pk = U.peek(v)
        exp = None if not n else model[-1] if kind == "vector" else model[0]
        if not same(pk, exp):
            bad.append(("peek", pk, exp))
        if kind == "list":
            r = tuple(U.rest(v))
            if r != model[1:]:
                bad.append(("rest", short(r), short(model[1:])))
        if kind in ("vector", "list"):
            idxs = range(n + 1) if n <= 8 else sorted({i for i in VEC_PROBES + (n - 2, n - 1, n) if 0 <= i <= n})
            for i in idxs:
                exp = model[i] if i < n else NF
                g = U.nth(v, i, NF)
                if g is not exp and g != exp:
                    bad.append(("nth", i, g, exp))
                if kind == "vector":
                    g = U.get(v, i, NF)
                    if g is not exp and g != exp:
                        bad.append(("get", i, g, exp))
                    g = U.get(v, i)
                    if g is not (None if exp is NF else exp) and g != exp:
                        bad.append(("get2", i, g, exp))
                    if U.contains(v, i) is not (i < n):
                        bad.append(("contains?", i, U.contains(v, i)))
            try:
                g = U.nth(v, n)
                if g is not None:
                    bad.append(("nth-beyond-end", n, g))
            except Exception:  # noqa  undefined in the model: raising is fine
                pass
            if kind == "vector":
                if U.get(v, K["a"]) is not None or U.contains(v, K["a"]) is not False:
                    bad.append(("get-non-index",))
                if n:
                    e = U.find(v, n - 1)
                    if e is None or tuple(e) != (n - 1, model[-1]):
                        bad.append(("find", short(e)))
    elif kind == "set":
        if s is not None:
            items = list(s)
            if len(items) != n or frozenset(items) != model:
                bad.append(("seq", short(items), short(model)))
        for k in list(K.values()) + [100, 99]:
            inn = k in model
            if U.contains(v, k) is not inn:
                bad.append(("contains?", repr(k), U.contains(v, k)))
            g = U.get(v, k, NF)
            if (g != k) if inn else (g is not NF):
                bad.append(("get", repr(k), g))
            g = U.get(v, k)
            if (g != k) if inn else (g is not None):
                bad.append(("get2", repr(k), g))
    else:
        if s is not None:
            items = [tuple(e) for e in s]
            if len(items) != n or any(len(e) != 2 for e in items) or dict(items) != model:
                bad.append(("seq", short(items), short(model)))
        for k in list(K.values()) + [100, 99]:
            inn = k in model
            if U.contains(v, k) is not inn:
                bad.append(("contains?", repr(k), U.contains(v, k)))
            exp = model[k] if inn else NF
            g = U.get(v, k, NF)
            if g is not exp and g != exp:
                bad.append(("get", repr(k), g, exp))
            g = U.get(v, k)
            if g is not (None if exp is NF else exp) and g != exp:
                bad.append(("get2", repr(k), g, exp))
            e = U.find(v, k)
            if inn:
                if e is None or len(e) != 2 or e[0] != k or (e[1] is not model[k] and e[1] != model[k]):
                    bad.append(("find", repr(k), short(e)))
            elif e is not None:
                bad.append(("find-absent", repr(k), short(e)))
    return bad


# --------------------------------------------------------------------------- search


class State:
    __slots__ = ("pool", "hist", "first", "wide")

    def __init__(self, pool, hist, first, wide=False):
        self.pool = pool  # tuple of entries (value, model, meta, hash, term)
        self.hist = hist  # tuple of (pick, action)
        self.first = first  # index of the first action applied to the initial value (merged sharding)
        self.wide = wide  # a wide-only step was already taken (wide layer)


class Unit:
    """One exploration: (kind, initial state, layer, depth, shard)."""

    def __init__(self, kind, init, layer, depth, shard=0, nshards=1, res=None, tlen=3, verify=True, stop_at=None):
        U.init()
        self.kind, self.init, self.layer, self.depth, self.tlen = kind, init, layer, depth, tlen
        self.shard, self.nshards = shard, nshards
        self.res = res if res is not None else Result()
        self.terms = {}
        self.nfail = 0
        self.nsteps = 0
        self.verify = verify  # re-run a failing history on fresh values before reporting it
        self.stop_at = stop_at  # replay: stop after this many transitions
        model = init_model(kind, init)
        v = build(kind, model, meta=U.M0)
        self.root = State(((v, model, {U.KW_I: 0}, U.hash(v), 0),), (), -1)
        bad = full_check(kind, v, model) or light_check(kind, self.root.pool[0])
        if bad:
            self.fail("initial-value", self.root, None, None, detail=bad)

    # -- bookkeeping
    def case(self, state, pick, a):
        hist = [[p, jsonable_action(x)] for p, x in state.hist]
        if a is not None:
            hist.append([pick, jsonable_action(a)])
        return {"family": f"{self.kind}/{self.init}", "kind": self.kind, "init": self.init, "history": hist}

    def fail(self, what, state, pick, a, **kw):
        """Report a failure.  Sibling histories share their live values (they are persistent -- that is the
        property), so the exploration as a whole is one big branching history over one pool.  A failure is first
        re-run alone on fresh values; if it does not show there, the result of the failing operation depends on
        operations that *sibling* histories applied to the same objects earlier (hidden state inside a value): still
        a violation ("no operation ever changes a value obtained earlier"), reported under its own kind and
        replayed by re-running this unit's deterministic search up to the failing transition."""
        self.nfail += 1
        case = self.case(state, pick, a)
        if self.verify and a is not None:
            alone = run_history(self.kind, self.init, case["history"])
            if not any(f["kind"] == what for f in alone["failures"]):
                kw["first_seen_as"] = what
                what = "result-depends-on-sibling-history"
                case["unit"] = [self.kind, self.init, self.layer, self.depth, self.tlen, self.shard, self.nshards]
                case["at_transition"] = self.nsteps
        self.res.fail(what, case, **kw)
        if self.nfail >= MAX_FAIL_PER_UNIT:
            raise bfs.Abort(f"{MAX_FAIL_PER_UNIT} failures in this unit")

    def term(self, parent_term, a, pool):
        if a[0] in ("into", "merge") and a[1] == "@":
            a = (a[0], "@t", pool[a[2]][4])
        key = (parent_term, a)
        t = self.terms.get(key)
        if t is None:
            t = self.terms[key] = len(self.terms) + 1
        return t

    # -- bfs callbacks
    def actions(self, state):
        kind, pool, depth = self.kind, state.pool, len(state.hist)
        merged = self.layer == "deep"
        base = DEEP if merged else CORE
        for pick, entry in enumerate(pool):
            # wide layer: exactly one step ranges over the wide alphabet -- realised as: a step may be wide
            # iff no earlier step was wide-only; a history whose steps are all core is explored as well.
            core = actions_for(kind, entry, pool, base)
            if self.layer == "wide" and not state.wide:
                cs = set(core)
                acts = [(a, a not in cs) for a in actions_for(kind, entry, pool, "wide", self.tlen)]
            else:
                acts = [(a, False) for a in core]
            for i, (a, wo) in enumerate(acts):
                if pick == 0 and entry[4] == 0:
                    if depth == 0:
                        if i % self.nshards != self.shard:
                            continue
                    elif merged and i < state.first:
                        continue
                yield (pick, i, a, wo)

    def step(self, state, pia):
        pick, ai, a, wide_only = pia
        kind, pool, res = self.kind, state.pool, self.res
        self.nsteps += 1
        if self.stop_at is not None and self.nsteps > self.stop_at:
            raise bfs.Abort("replay: reached the recorded transition")
        entry = pool[pick]
        val, model, pmeta = entry[0], entry[1], entry[2]
        res.evaluations += 1
        res.transitions += 1 + (len(a[1]) + 2 + (2 if a[-1] else 0) if a[0] in ("t", "ti") else 0)
        try:
            exp = model_action(kind, a, model, pool)
        except Undef:
            exp = Undef
        notes = []
        try:
            got = impl_action(kind, a, val, model, pool, notes)
            raised = None
        except Exception as e:  # noqa
            got, raised = None, e
        sides = [nt for nt in notes if not isinstance(nt, str)]
        notes = [nt for nt in notes if isinstance(nt, str)]
        for nt in notes:
            res.outcomes.add((kind, "t", nt))
        new_entry = None
        if exp is Undef:
            if raised is not None:
                res.outcomes.add((kind, a[0], "undefined-raises", type(raised).__name__))
            else:
                ok_empty = a[0] == "pop" and type(got) is type(val) and U.count(got) == 0
                res.outcomes.add((kind, a[0], "undefined-returns-empty" if ok_empty else "undefined-returns"))
        elif raised is not None:
            self.fail("op-raises", state, pick, a, exc=type(raised).__name__, msg=str(raised)[:200])
        else:
            new_entry = self.check_new(state, pick, a, got, exp, pmeta)
        for _, side, side_model in sides:
            # result of the persistent operation applied to the source while its transient was open, read after persistent!
            try:
                sc = read_all(kind, side)
            except Exception as e:  # noqa
                sc = ("raises", type(e).__name__)
            if sc != side_model:
                self.fail("interleaved-result-differs-from-model", state, pick, a, got=short(sc), expected=short(side_model))
                new_entry = False if new_entry is not None else None
        # (b) every pool entry is re-read, whatever happened above
        for j, e in enumerate(pool):
            ch = light_check(kind, e)
            if ch is not None:
                try:
                    self.fail("earlier-value-changed", state, pick, a, entry=j, change=ch,
                              role="picked" if j == pick else "other", notes=notes)
                except bfs.Abort:
                    pass
                raise bfs.Abort("an earlier value changed (shared live values are damaged)")
        if new_entry is None:
            return None
        if new_entry is not False:
            ch = light_check(kind, new_entry)
            if ch is not None:
                self.fail("new-value-unstable", state, pick, a, change=ch)
                return None
            return State(pool + (new_entry,), state.hist + ((pick, a),), ai if not state.hist else state.first, state.wide or wide_only)
        return None

    def check_new(self, state, pick, a, got, exp, pmeta):
        """Checks (a), (c), (d) on the result of a defined operation.  Returns the new entry, or False after a failure."""
        kind, pool, res = self.kind, state.pool, self.res
        try:
            content = read_all(kind, got)
            bad = [] if content == exp else [("content", short(content), short(exp))]
            bad += full_check(kind, got, exp)
        except Exception as e:  # noqa
            bad = [("observation-raises", type(e).__name__, str(e)[:200])]
        if bad:
            self.fail("result-differs-from-model", state, pick, a, detail=bad[:4], result_type=type(got).__name__)
            return False
        # (d) metadata
        gm = meta_content(U.meta(got))
        em = model_meta(a, pmeta)
        if em == "observe":
            pol = "nil" if gm is None else "keeps" if gm == pmeta else "other"
            res.outcomes.add((kind, a[0], "meta-" + pol + ("" if pmeta is not None else "/parent-nil")))
            em = gm
        elif gm != em:
            self.fail("with-meta-wrong-meta", state, pick, a, got=short(gm), expected=short(em))
            return False
        # (c) = / hash against a fresh reference and the pool
        h = U.hash(got)
        n = len(exp)
        big = n > BIG
        metaop = a[0] in ("with-meta", "vary-meta")
        ref = build(kind, exp)
        if U.hash(ref) != h:
            self.fail("hash-differs-for-equal", state, pick, a, other="fresh reference", hashes=[h, U.hash(ref)])
            return False
        if not big and not (U.eq(got, ref) is True and U.eq(ref, got) is True):
            self.fail("not-equal-to-equal-model", state, pick, a, other="fresh reference")
            return False
        for j, e in enumerate(pool):
            same = e[1] == exp
            if same and e[3] != h:
                self.fail("hash-differs-for-equal", state, pick, a, other=j, hashes=[h, e[3]], metas=[short(gm), short(e[2])])
                return False
            if big and len(e[1]) == n and not (metaop and j == pick):
                continue  # `=` walks both vectors in Python: see ASSUMPTIONS
            e1 = U.eq(got, e[0])
            e2 = U.eq(e[0], got) if (same and not big) else e1
            if e1 is not same or e2 is not same:
                self.fail("equality-disagrees-with-model", state, pick, a, other=j, got=[e1, e2], expected=same,
                          metas=[short(gm), short(e[2])])
                return False
        res.outcomes.add((kind, a[0], "ok", min(n, 40)))
        return (got, exp, em, h, self.term(pool[pick][4], a, pool))

    def canon(self, state):
        return tuple(sorted(e[4] for e in state.pool))

    def run(self):
        st = bfs.search(
            self.root, self.actions, self.step, self.depth,
            canon=self.canon if self.layer == "deep" else None,
        )
        return st


def jsonable_action(a):
    return [jsonable_action(x) if isinstance(x, tuple) else x for x in a]


def action_from_json(a):
    return tuple(action_from_json(x) if isinstance(x, list) else x for x in a)


# --------------------------------------------------------------------------- driver


def plan(tier):
    """[(kind, init, layer, depth, tlen)]"""
    units = []
    for kind in KINDS:
        for init in INITS[kind]:
            big = kind == "vector" and int(init) > BIG
            if tier == "quick":
                units.append((kind, init, "core", 3, 1))
                units.append((kind, init, "wide", 2, 2))
                if kind in DEEP:
                    units.append((kind, init, "deep", 4, 1))
            else:
                units.append((kind, init, "core", 4, 1))
                units.append((kind, init, "wide", 2, 3))
                if not big:
                    units.append((kind, init, "wide", 3, 1))
                if kind in DEEP:
                    units.append((kind, init, "deep", 5, 1))
    return units


NSHARDS = {"quick": 4, "thorough": 8}
_COUNTER = None  # shared task counter (multiprocessing.Value), created before the workers are forked


def run_task(args):
    kind, init, layer, depth, tlen, shard, nshards = args
    unit = Unit(kind, init, layer, depth, shard, nshards, tlen=tlen)
    st = unit.run()
    res = unit.res
    info = st.as_dict()
    info["unit"] = (kind, init, layer, depth, tlen)
    res.distinct_count += st.states - 1
    return res, info


def run_group(tasks):
    """One long-lived worker: pulls tasks from the shared counter until none is left (a short-lived process per task
    would spend most of its time in copy-on-write page faults)."""
    res, infos = Result(), []
    while True:
        with _COUNTER.get_lock():
            i = _COUNTER.value
            _COUNTER.value += 1
        if i >= len(tasks):
            break
        r, info = run_task(tasks[i])
        res.merge(r)
        infos.append(info)
    return res.compact(), infos


def run(tier, seed):
    global _COUNTER
    import multiprocessing as mp

    U.init()
    res = Result()
    units = plan(tier)
    nsh = NSHARDS[tier]
    tasks = []
    for kind, init, layer, depth, tlen in units:
        for s in range(nsh):
            tasks.append((kind, init, layer, depth, tlen, (s + seed) % nsh, nsh))
    # heaviest first so the workers finish together
    weight = {"core": 3, "deep": 4, "wide": 1}
    tasks.sort(key=lambda x: (-weight[x[2]] * (4 if x[0] in ("vector", "map") else 2 if x[0] == "set" else 1) * (3 if x[1] in ("1056", "1057") else 1), x[0], x[1], x[2], x[5]))
    _COUNTER = mp.get_context("fork").Value("i", 0)
    gc.collect()
    gc.freeze()
    agg = {}
    ngroups = env.ncores()
    for r, infos in env.parallel(run_group, [tasks] * ngroups):
        res.merge(r)
        for info in infos:
            k = info["unit"]
            g = agg.setdefault(k, {"n": 0, "states": 0, "transitions": 0, "max_depth": 0, "merged": 0, "frontier_exhausted": True, "aborted": None})
            g["n"] += 1
            g["states"] += info["states"] - 1  # the initial state is counted once below
            g["transitions"] += info["transitions"]
            g["merged"] += info["merged"]
            g["max_depth"] = max(g["max_depth"], info["max_depth"])
            g["frontier_exhausted"] = g["frontier_exhausted"] and info["frontier_exhausted"]
            g["aborted"] = g["aborted"] or info["aborted"]
    if sorted(agg) != sorted(units) or any(g["n"] != nsh for g in agg.values()):
        raise env.HarnessError("C04: not every task of the plan was executed")
    for (kind, init, layer, depth, tlen), g in sorted(agg.items()):
        res.part(
            f"{kind}/{init}/{layer}{depth}",
            bound=f"length {depth}" + (f", !-strings <= {tlen}" if layer == "wide" else "") + (", merged" if layer == "deep" else ""),
            states=g["states"] + 1, transitions=g["transitions"], max_depth=g["max_depth"],
            merged_away=g["merged"], frontier_exhausted="yes" if g["frontier_exhausted"] else "no",
        )
        if not g["frontier_exhausted"]:
            res.caps.append(f"{kind}/{init}/{layer}{depth}: search stopped early ({g['aborted']})")
    # a few written-out cases
    for kind, init, hist in SAMPLE_HISTORIES:
        out = run_history(kind, init, hist)
        res.sample({"kind": kind, "init": init, "history": hist, "pool": out["pool"]})
    return res


SAMPLE_HISTORIES = [
    ("vector", "33", [[0, ["t", [["pop!"], ["conj!", 1]], ["conj!", 0]]], [0, ["conj", None]], [1, ["with-meta", "m1"]]]),
    ("map", "c3", [[0, ["dissoc", "k1"]], [0, ["assoc", "k1", None]], [1, ["merge", "@", 2]]]),
    ("set", "c3", [[0, ["disj", "k0"]], [1, ["t", [["conj!", "k1"]], ["conj!", "a"]]]]),
    ("queue", "3", [[0, ["pop"]], [0, ["conj", 1]], [1, ["into", "@", 2]]]),
]


def run_history(kind, init, hist, res=None):
    """Re-execute one history from scratch with all checks; returns {'failures': [...], 'pool': [...]}."""
    from basilisp.lang import runtime

    unit = Unit(kind, init, "replay", len(hist), res=res or Result(), verify=False)
    state = unit.root
    try:
        for pick, a in hist:
            if pick >= len(state.pool):
                break  # an earlier step failed and produced no value
            a = action_from_json(a)
            s2 = unit.step(state, (pick, None, a, False))
            if s2 is not None:
                state = s2
    except bfs.Abort:
        pass
    pool = []
    for e in state.pool:
        r = runtime.lrepr(e[0])
        pool.append({"value": r if len(r) < 120 else r[:50] + " ... " + r[-50:], "meta": short(e[2])})
    return {"failures": unit.res.failures, "pool": pool}


def replay(failure):
    """Re-execute the failing history on fresh values (or, for a failure that needs the sibling histories, the unit's
    search up to the failing transition); returns the failure again iff it still fails."""
    U.init()
    case = failure["case"]
    if "at_transition" in case:
        kind, init, layer, depth, tlen, shard, nshards = case["unit"]
        unit = Unit(kind, init, layer, depth, shard, nshards, tlen=tlen, verify=False, stop_at=case["at_transition"])
        unit.run()
        for f in unit.res.failures:
            if f["kind"] == failure.get("first_seen_as") and f["case"]["history"] == case["history"]:
                return f
        return None
    out = run_history(case["kind"], case["init"], case["history"])
    for f in out["failures"]:
        if f["kind"] == failure["kind"]:
            return f
    return None
