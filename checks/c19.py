"""C19 — EDN, JSON and bencode codecs invert themselves and never mis-frame.

Engine C (finite universes / bounded terms / every split point of a byte stream), executed on the
real `basilisp.edn`, `basilisp.json` and `basilisp.contrib.bencode` functions.

Values are described by small JSON-able *specs* (tagged lists) so that every case can be rebuilt by
`replay()`:  ["nil"] ["t"] ["f"] ["i","123"] ["fl","1e+23"] ["s","text"] ["kw",ns,name] ["sym",ns,name]
["uuid",s] ["inst",iso] ["bytes",hex] ["V",[..]] ["L",[..]] ["S",[..]] ["M",[[k,v],..]] and the Python
containers ["PL",[..]] ["PT",[..]] ["PD",[[k,v],..]] (bencode only).
"""
from __future__ import annotations

import datetime
import itertools
import json
import re
import uuid
import zlib
from decimal import Decimal
from fractions import Fraction

from vlib import env
from vlib.evidence import Result

PROPERTY = "C19"
LEVEL = "model_checking"
BOUNDS = {
    "quick": (
        "EDN: 9,083 scalars = every string of length <=3 over a 14-character escape alphabet and <=2 over 20 characters (3,165), "
        "859 integers (+-2^k, 2^k+-1 up to 2^130, +-10^k up to 10^40), 3,367 floats (3 significands x every decimal exponent "
        "-324..308, both signs, inf/nan), every valid symbol/keyword name of length <=2 over a 20-character constituent alphabet x 3 "
        "namespaces (1,677), 4 uuids, 8 insts - each bare, inside a vector before a sentinel and as map key+value - plus every EDN "
        "term of <=4 nodes, depth <=3, over 9 atoms and list/vector/set/map (10,981); each written once and read back by "
        "edn/read-string and by the Lisp reader.  JSON: every term of <=3 nodes over 16 atoms, vector/list/map with 5 key shapes "
        "(5,415), and every string of length <=2 over the 20 characters in 4 positions, under 8 write/read option combinations.  "
        "bencode: every term of <=2 nodes over 31 atoms and <=3 nodes over 8 atoms, 4 sequence and 2 dict container types, "
        "under 3 decode option sets (3,915 terms); every split point of every stream of 1-2 messages out of 45 (default options; nREPL options on "
        "a 12-message subset) and of 3 messages out of 8, delivered as two chunks the way the nREPL server does"
    ),
    "thorough": (
        "as quick with: EDN strings <=3 over all 20 characters (8,421), 7 float significands (8,419 floats), names of length <=3 "
        "(32,544), EDN terms of <=5 nodes (214,420); JSON terms of <=4 nodes over 7 atoms (45,016 in all), strings <=3, all 15 "
        "option combinations; bencode terms <=3 nodes over 31 atoms and <=4 over 8; every split point of every stream of "
        "1-2 messages out of 45 under 3 option sets and of 3 messages out of 20 under 2; every pair of split points (three chunks) "
        "of every single message and of every 2-message stream out of 16"
    ),
}
RULE = (
    "engine C: each codec's value universe is enumerated completely up to the stated size (terms by node count, strings by "
    "length, streams by message count) and every value is written by the real writer and read by the real reader(s); for "
    "bencode every byte position of every stream is a cut.  A case is distinct by (codec, value spec, context or option set, "
    "cut); non-trivial = everything except the empty string / empty stream.  Oracle: structural same-type equality with the "
    "original (EDN), with a reference coercion of the original (JSON, bencode), and for a cut stream the number of encodings "
    "that end at or before the cut plus the exact unconsumed bytes"
)
ASSUMPTIONS = [
    "reference equality: same Python/basilisp type and structurally equal, NaN equal to NaN, 0.0 equal to -0.0",
    "EDN universe = what the EDN spec admits and the writer accepts; ratios/decimals (writer throws) are outside; keyword "
    "names containing '.', namespaced symbols whose name starts with '.', and symbols ending in '#' are outside (the EDN "
    "reader / Lisp reader reject them on purpose and the repository's tests assert that)",
    "JSON: expected read-back value = reference coercion (list->vector, map keys through the write key-fn then the read "
    "key-fn, the real core `name`/`keyword` are trusted as key functions); keys that collide after coercion are not generated",
    "bencode: expected = str/keyword/symbol -> UTF-8 bytes, nil -> empty bytes, list/tuple/vector -> vector, dict -> map "
    "(inverse coercions under :string-fn / :keywordize-keys / :key-fn); booleans, floats and sets are outside the domain; "
    "a remainder of nil and of empty bytes both mean 'nothing left' (documented)",
    "bencode encodings are self-delimiting, so the messages complete in a prefix are exactly those whose encoding ends at or "
    "before the cut",
]

# ------------------------------------------------------------------------------------------------ plumbing

_FN = {}


def fns():
    """Function values of the three codecs (imported once, after bootstrap)."""
    if _FN:
        return _FN
    import importlib

    from basilisp.lang import runtime, symbol as sym

    def get(ns, name):
        v = runtime.Namespace.get(sym.symbol(ns)).find(sym.symbol(name))
        if v is None:
            raise env.HarnessError(f"{ns}/{name} not found")
        return v.value

    for m in ("basilisp.edn", "basilisp.json", "basilisp.contrib.bencode"):
        importlib.import_module(m)
    _FN.update(
        edn_write=get("basilisp.edn", "write-string"),
        edn_read=get("basilisp.edn", "read-string"),
        json_write=get("basilisp.json", "write-str"),
        json_read=get("basilisp.json", "read-str"),
        b_encode=get("basilisp.contrib.bencode", "encode"),
        b_decode=get("basilisp.contrib.bencode", "decode"),
        b_decode_all=get("basilisp.contrib.bencode", "decode-all"),
        keyword=env.core_fn("keyword"),
        name=env.core_fn("name"),
    )
    return _FN


def K(name):
    from basilisp.lang import keyword as kw

    return kw.keyword(name)


def build(spec):
    from basilisp.lang import keyword as kw, list as llist, map as lmap, set as lset, symbol as sym, vector as vec

    t = spec[0]
    if t == "nil":
        return None
    if t == "t":
        return True
    if t == "f":
        return False
    if t == "i":
        return int(spec[1])
    if t == "fl":
        return float(spec[1])
    if t == "s":
        return spec[1]
    if t == "kw":
        return kw.keyword(spec[2], ns=spec[1])
    if t == "sym":
        return sym.symbol(spec[2], ns=spec[1])
    if t == "uuid":
        return uuid.UUID(spec[1])
    if t == "inst":
        return datetime.datetime.fromisoformat(spec[1])
    if t == "bytes":
        return bytes.fromhex(spec[1])
    if t == "ratio":
        return Fraction(spec[1])
    if t == "dec":
        return Decimal(spec[1])
    kids = spec[1]
    if t == "V":
        return vec.vector([build(k) for k in kids])
    if t == "L":
        return llist.list([build(k) for k in kids])
    if t == "S":
        return lset.set([build(k) for k in kids])
    if t == "M":
        return lmap.map({build(k): build(v) for k, v in kids})
    if t == "PL":
        return [build(k) for k in kids]
    if t == "PT":
        return tuple(build(k) for k in kids)
    if t == "PD":
        return {build(k): build(v) for k, v in kids}
    raise KeyError(t)


def same(a, b):
    """Reference equality: same type, structurally equal, NaN = NaN."""
    from basilisp.lang import list as llist, map as lmap, set as lset, vector as vec

    if type(a) is not type(b):
        return False
    if isinstance(a, float):
        return a == b or (a != a and b != b)
    if isinstance(a, (vec.PersistentVector, llist.PersistentList, list, tuple)):
        if len(a) != len(b):
            return False
        return all(same(x, y) for x, y in zip(a, b))
    if isinstance(a, lset.PersistentSet):
        return len(a) == len(b) and _match(list(a), list(b), same)
    if isinstance(a, lmap.PersistentMap):
        return len(a) == len(b) and _match(list(a.items()), list(b.items()), lambda p, q: same(p[0], q[0]) and same(p[1], q[1]))
    return a == b


def _match(xs, ys, eq):
    ys = list(ys)
    for x in xs:
        for i, y in enumerate(ys):
            if eq(x, y):
                del ys[i]
                break
        else:
            return False
    return not ys


def show(v):
    from basilisp.lang import runtime

    try:
        return f"{runtime.lrepr(v)} <{type(v).__name__}>"[:300]
    except Exception as e:  # noqa
        return f"<unprintable {type(v).__name__}: {type(e).__name__}>"


def crc(x):
    if isinstance(x, str):
        x = x.encode("utf-8", "surrogatepass")
    return zlib.crc32(x)


def strings_upto(alpha, n):
    yield ""
    for k in range(1, n + 1):
        for t in itertools.product(alpha, repeat=k):
            yield "".join(t)


def compositions(total, max_parts=None):
    """All ordered tuples of positive integers summing to `total`."""
    if total == 0:
        yield ()
        return
    for first in range(1, total + 1):
        for rest in compositions(total - first):
            yield (first,) + rest


def sj(spec):
    return json.dumps(spec, sort_keys=True, ensure_ascii=True)


# ------------------------------------------------------------------------------------------------ alphabets

STR_ALPHA = ["a", '"', "\\", "\n", "\t", "\x00", "\x1f", "\x7f", "é", "中", "😀", "\u2028", "f", "0"]
STR_EXTRA = ["\r", "\x07", "\x08", "\x0c", "\x0b", "u"]  # the writers' remaining named escapes, and the \u introducer

NAME_ALPHA = list("ab1.*+!-_?$%&=<>:#'é")
NAMESPACES = [None, "n", "n.s"]


def valid_name(n, is_kw, has_ns):
    """Names the EDN spec admits (and that basilisp's readers do not reject on purpose)."""
    if not n:
        return False
    if n == "/":
        return True
    if "/" in n:
        return False
    if n[0].isdigit() or n[0] in ":#'":
        return False
    if n[0] in "+-." and len(n) > 1 and n[1].isdigit():
        return False
    if n[-1] in "#:" or "::" in n:
        return False
    if n in ("nil", "true", "false"):
        return False
    if is_kw and "." in n:
        return False  # edn reader: "Found '.' in keyword name" (asserted by tests/basilisp/test_edn.lpy)
    if has_ns and n.startswith("."):
        return False  # edn reader: "Symbols starting with '.' may not have a namespace" (asserted by the tests)
    return True


def name_specs(maxlen):
    out = []
    names = ["/"] + [s for s in strings_upto(NAME_ALPHA, maxlen) if s]
    for n in names:
        for ns in NAMESPACES:
            for tag in ("kw", "sym"):
                if valid_name(n, tag == "kw", ns is not None):
                    out.append([tag, ns, n])
    return out


def int_specs():
    xs = set()
    for k in range(0, 131):
        for d in (-1, 0, 1):
            xs.add(2**k + d)
            xs.add(-(2**k + d))
    for k in range(0, 41):
        xs.add(10**k)
        xs.add(-(10**k))
    return [["i", str(x)] for x in sorted(xs, key=lambda x: (abs(x), x))]


FLOAT_SIGNIFICANDS = ["1", "1.1", "1.5", "4.9", "2.2250738585072014", "9.999999999999999", "1.7976931348623157"]


def float_specs(tier="thorough"):
    seen = {}
    sigs = FLOAT_SIGNIFICANDS if tier == "thorough" else FLOAT_SIGNIFICANDS[:2] + FLOAT_SIGNIFICANDS[-2:-1]
    for base in ("0.0", "0.5", "0.1", "100.0", "123456789.125", "1e16", "1e15", "0.0001", "0.00001", "1e22", "1e23", "1.1e-7", "5e-324"):
        seen.setdefault(repr(float(base)), None)
    for e in range(-324, 309):
        for m in sigs:
            f = float(f"{m}e{e}")
            if f in (float("inf"), 0.0):
                continue
            seen.setdefault(repr(f), None)
    out = []
    for r in seen:
        out.append(["fl", r])
        out.append(["fl", "-" + r])
    out += [["fl", "inf"], ["fl", "-inf"], ["fl", "nan"]]
    return out


UUIDS = ["00000000-0000-0000-0000-000000000000", "ffffffff-ffff-ffff-ffff-ffffffffffff", "12345678-1234-5678-1234-567812345678", "c232ab00-9414-11ec-b3c8-9f68deced846"]
INSTS = [
    "2020-01-02T03:04:05+00:00",
    "2020-01-02T03:04:05",
    "2020-01-02T03:04:05.123456",
    "2020-01-02T03:04:05.000001+00:00",
    "1999-12-31T23:59:59-08:00",
    "2024-02-29T00:00:00+05:30",
    "0001-01-01T00:00:00+00:00",
    "9999-12-31T23:59:59.999999+00:00",
]


def edn_scalar_specs(tier):
    out = [["nil"], ["t"], ["f"]]
    if tier == "quick":
        strs = dict.fromkeys(list(strings_upto(STR_ALPHA, 3)) + list(strings_upto(STR_ALPHA + STR_EXTRA, 2)))
    else:
        strs = dict.fromkeys(strings_upto(STR_ALPHA + STR_EXTRA, 3))
    out += [["s", s] for s in strs]
    out += name_specs(2 if tier == "quick" else 3)
    out += int_specs()
    out += float_specs(tier)
    out += [["uuid", u] for u in UUIDS]
    out += [["inst", i] for i in INSTS]
    return out


EDN_CONTEXTS = ("bare", "vec", "map")
SENTINEL = ["kw", None, "z"]


def edn_wrap(spec, ctx):
    if ctx == "bare":
        return spec
    if ctx == "vec":
        return ["V", [spec, SENTINEL]]
    if ctx == "map":
        return ["M", [[spec, spec]]]
    raise KeyError(ctx)


EDN_ATOMS = [
    ["nil"],
    ["t"],
    ["i", "-1"],
    ["fl", "1e+23"],
    ["fl", "nan"],
    ["s", 'a"\\\n'],
    ["kw", "n", "k"],
    ["sym", None, "-"],
    ["uuid", UUIDS[2]],
]


def edn_terms(max_size, max_depth=3):
    """Every EDN term with <= max_size nodes and depth <= max_depth over EDN_ATOMS and list/vector/set/map.
    A collection is one node; set members and map keys are pairwise different and listed in one canonical order
    (sets and maps are unordered, so permutations would be the same value)."""
    memo = {}

    def gen(n, d):
        key = (n, d)
        if key in memo:
            return memo[key]
        out = []
        if n == 1:
            out = [a for a in EDN_ATOMS]
            if d >= 1:
                out += [["L", []], ["V", []], ["S", []], ["M", []]]
        elif d >= 1:
            for comp in compositions(n - 1):
                pools = [gen(c, d - 1) for c in comp]
                if any(not p for p in pools):
                    continue
                for kids in itertools.product(*pools):
                    kids = list(kids)
                    out.append(["L", kids])
                    out.append(["V", kids])
                    keys = [sj(k) for k in kids]
                    if all(keys[i] < keys[i + 1] for i in range(len(keys) - 1)):
                        out.append(["S", kids])
                    if len(kids) % 2 == 0:
                        mk = keys[0::2]
                        if all(mk[i] < mk[i + 1] for i in range(len(mk) - 1)):
                            out.append(["M", [[kids[i], kids[i + 1]] for i in range(0, len(kids), 2)]])
        memo[key] = out
        return out

    res = []
    for n in range(1, max_size + 1):
        res += gen(n, max_depth)
    return res


# ------------------------------------------------------------------------------------------------ EDN


_DASH_RUN = re.compile(r"-{2,}[0-9]")


def explain_edn(spec, kind, leg, exc):
    """Model of known finding `dash-run-before-digit-read-as-number`: both readers start a *number* at a '-' that is followed
    by another '-' (begin-num-chars = [0-9-]), so an un-namespaced symbol such as `--1` (valid EDN: the second character is
    not numeric) is rejected as a malformed number - ValueError from int()/float() in the EDN reader, SyntaxError 'Invalid
    number format' in the Lisp reader.  Nothing else gets the tag."""
    if kind != "edn-read-raises" or spec[0] != "sym" or spec[1] is not None or not _DASH_RUN.match(spec[2]):
        return None
    if (leg, exc) in (("edn-reader", "ValueError"), ("lisp-reader", "SyntaxError")):
        return "dash-run-before-digit-read-as-number"
    return None


def lisp_read_all(text):
    from basilisp.lang import reader

    return list(reader.read_str(text))


def edn_case(res: Result, family, spec, ctx):
    """Write one value with the EDN writer, read it back through both readers."""
    f = fns()
    case = {"family": family, "spec": spec, "ctx": ctx}
    full = edn_wrap(spec, ctx)
    v = build(full)
    res.evaluations += 1
    res.transitions += 1
    try:
        text = f["edn_write"](v)
    except Exception as e:  # noqa
        res.fail("edn-write-raises", case, value=show(v), exc=type(e).__name__, msg=str(e)[:160])
        return None
    if not isinstance(text, str):
        res.fail("edn-write-not-a-string", case, value=show(v), got=repr(text)[:200])
        return None
    res.outcomes.add(("edn", crc(text)))
    for leg, rd in (("edn-reader", f["edn_read"]), ("lisp-reader", lisp_read_all)):
        res.transitions += 1
        try:
            back = rd(text)
        except Exception as e:  # noqa
            extra = {}
            tag = explain_edn(spec, "edn-read-raises", leg, type(e).__name__)
            if tag:
                extra["explained_by"] = tag
            res.fail("edn-read-raises", dict(case, reader=leg), text=text, value=show(v), exc=type(e).__name__, msg=str(e)[:160], **extra)
            continue
        if leg == "lisp-reader":
            if len(back) != 1:
                res.fail("edn-misframed", dict(case, reader=leg), text=text, value=show(v), got=[show(x) for x in back][:6])
                continue
            back = back[0]
        if not same(v, back):
            res.fail("edn-roundtrip-differs", dict(case, reader=leg), text=text, value=show(v), got=show(back))
    return text


def edn_scalar_shard(args):
    tier, shard, nshards = args
    res = Result()
    n = 0
    for i, spec in enumerate(edn_scalar_specs(tier)):
        if i % nshards != shard:
            continue
        for ctx in EDN_CONTEXTS:
            if tier == "quick" and ctx == "map" and spec[0] in ("i", "fl"):
                continue  # quick: numbers bare and inside a vector only
            text = edn_case(res, "edn-scalar", spec, ctx)
            n += 1
            if spec != ["s", ""]:
                res.distinct_count += 1
            if text is not None and ctx == "vec" and i % 977 == 0:
                res.sample({"codec": "edn", "value": show(build(spec)), "written": text})
    res.part("edn/scalars", cases=n)
    return res.compact()


def edn_terms_shard(args):
    max_size, shard, nshards = args
    res = Result()
    n = 0
    for i, spec in enumerate(edn_terms(max_size)):
        if i % nshards != shard:
            continue
        text = edn_case(res, "edn-term", spec, "bare")
        n += 1
        res.distinct_count += 1
        if text is not None and i % 4999 == 7:
            res.sample({"codec": "edn", "written": text})
    res.part("edn/terms", cases=n, max_nodes=f"<={max_size}")
    return res.compact()


def edn_excluded(res: Result):
    """Values the writer rejects are outside its domain (recorded, not judged)."""
    f = fns()
    n = 0
    for spec in (["ratio", "1/2"], ["dec", "1.5"]):
        try:
            f["edn_write"](build(spec))
        except Exception:  # noqa
            n += 1
    res.part("edn/outside-writer-domain", ratio_and_decimal_rejected_by_writer=n)


# ------------------------------------------------------------------------------------------------ JSON

JSON_ATOMS = [
    ["nil"],
    ["t"],
    ["f"],
    ["i", "0"],
    ["i", "-1"],
    ["i", str(2**64)],
    ["fl", "1.5"],
    ["fl", "1e+23"],
    ["fl", "-0.0"],
    ["fl", "1.1e-07"],
    ["fl", "nan"],
    ["fl", "inf"],
    ["s", ""],
    ["s", "a"],
    ["s", 'é"\\\n'],
    ["s", "\x00\x7f😀\u2028"],
]
JSON_ATOMS_SMALL = [["nil"], ["t"], ["i", "-1"], ["fl", "1e+23"], ["fl", "nan"], ["s", ""], ["s", 'é"\\\n']]
# pairwise different after every write key-fn used below
JSON_KEYS = [["s", "k"], ["kw", None, "a"], ["kw", "b", "c"], ["s", "é\n\""], ["s", ""]]


def _full_name(k):
    if isinstance(k, str):
        return k
    return f"{k.ns}/{k.name}" if k.ns else k.name


def json_wopts():
    return {
        "default": [],
        "keyfn-full": [K("key-fn"), _full_name],
        "raw-unicode": [K("escape-non-ascii"), False],
        "indent": [K("indent"), 2],
        "compact-sep": [K("item-sep"), ",", K("key-sep"), ":"],
    }


def json_ropts():
    return {
        "default": [],
        "keywordize": [K("key-fn"), fns()["keyword"]],
        "lenient": [K("strict?"), False],
    }


def json_expect(spec, wname, rname):
    from basilisp.lang import map as lmap, vector as vec

    t = spec[0]
    if t in ("V", "L"):
        return vec.vector([json_expect(k, wname, rname) for k in spec[1]])
    if t == "M":
        d = {}
        for k, v in spec[1]:
            kv = build(k)
            ks = _full_name(kv) if wname == "keyfn-full" else (kv if isinstance(kv, str) else kv.name)
            if rname == "keywordize":
                ks = fns()["keyword"](ks)
            d[ks] = json_expect(v, wname, rname)
        return lmap.map(d)
    return build(spec)


def keyed_terms(atoms, seq_tags, map_tags, keys, max_size, max_depth=3):
    """Terms whose maps take their keys from a fixed list (keys are not counted as nodes); map keys in canonical order."""
    memo = {}

    def gen(n, d):
        key = (n, d)
        if key in memo:
            return memo[key]
        out = []
        if n == 1:
            out = list(atoms)
            if d >= 1:
                out += [[t, []] for t in seq_tags + map_tags]
        elif d >= 1:
            for comp in compositions(n - 1):
                pools = [gen(c, d - 1) for c in comp]
                if any(not p for p in pools):
                    continue
                kcombos = list(itertools.combinations(range(len(keys)), len(comp))) if len(comp) <= len(keys) else []
                for kids in itertools.product(*pools):
                    kids = list(kids)
                    for t in seq_tags:
                        out.append([t, kids])
                    for t in map_tags:
                        for kc in kcombos:
                            out.append([t, [[keys[ki], kid] for ki, kid in zip(kc, kids)]])
        memo[key] = out
        return out

    res = []
    for n in range(1, max_size + 1):
        res += gen(n, max_depth)
    return res


JSON_STRING_POSITIONS = ("bare", "elem", "mapval", "mapkey")


def json_string_specs(s, pos):
    if pos == "bare":
        return ["s", s]
    if pos == "elem":
        return ["V", [["s", s], ["i", "1"]]]
    if pos == "mapval":
        return ["M", [[["s", "k"], ["s", s]]]]
    return ["M", [[["s", s], ["i", "1"]]]]


def json_case(res: Result, family, spec, wname, rname, wopts=None, ropts=None):
    f = fns()
    wopts = wopts or json_wopts()
    ropts = ropts or json_ropts()
    case = {"family": family, "spec": spec, "write_opts": wname, "read_opts": rname}
    v = build(spec)
    res.evaluations += 1
    res.transitions += 2
    try:
        text = f["json_write"](v, *wopts[wname])
    except Exception as e:  # noqa
        res.fail("json-write-raises", case, value=show(v), exc=type(e).__name__, msg=str(e)[:160])
        return None
    res.outcomes.add(("json", crc(text)))
    try:
        back = f["json_read"](text, *ropts[rname])
    except Exception as e:  # noqa
        res.fail("json-read-raises", case, text=text[:300], value=show(v), exc=type(e).__name__, msg=str(e)[:160])
        return text
    exp = json_expect(spec, wname, rname)
    if not same(exp, back):
        res.fail("json-roundtrip-differs", case, text=text[:300], value=show(v), expected=show(exp), got=show(back))
    return text


def json_terms(tier):
    terms = keyed_terms(JSON_ATOMS, ["V", "L"], ["M"], JSON_KEYS, 3)
    if tier == "thorough":
        seen = {sj(t) for t in terms}
        terms += [t for t in keyed_terms(JSON_ATOMS_SMALL, ["V", "L"], ["M"], JSON_KEYS, 4) if sj(t) not in seen]
    return terms


def json_shard(args):
    tier, shard, nshards = args
    res = Result()
    wopts, ropts = json_wopts(), json_ropts()
    combos = [(w, r) for w in wopts for r in ropts]
    if tier == "quick":  # every option set once against the default of the other side, plus both key functions together
        combos = [(w, r) for w, r in combos if w == "default" or r == "default" or (w, r) == ("keyfn-full", "keywordize")]
    terms = json_terms(tier)
    n = 0
    for i, spec in enumerate(terms):
        if i % nshards != shard:
            continue
        for w, r in combos:
            text = json_case(res, "json-term", spec, w, r, wopts, ropts)
            n += 1
            res.distinct_count += 1
            if text is not None and i % 1999 == 11 and w == "default" and r == "keywordize":
                res.sample({"codec": "json", "value": show(build(spec)), "written": text})
    res.part("json/terms", cases=n, terms=str(len(terms)), option_combinations=str(len(combos)))
    m = 0
    strs = list(strings_upto(STR_ALPHA + STR_EXTRA, 2 if tier == "quick" else 3))
    for i, s in enumerate(strs):
        if i % nshards != shard:
            continue
        for pos in JSON_STRING_POSITIONS:
            spec = json_string_specs(s, pos)
            for w, r in combos:
                json_case(res, "json-string", spec, w, r, wopts, ropts)
                m += 1
                if s:
                    res.distinct_count += 1
    res.part("json/strings", cases=m, strings=str(len(strs)), positions=str(len(JSON_STRING_POSITIONS)))
    return res.compact()


# ------------------------------------------------------------------------------------------------ bencode


def hx(b: bytes):
    return ["bytes", b.hex()]


B_INTS = [["i", "0"], ["i", "1"], ["i", "-1"], ["i", "10"], ["i", str(2**64)], ["i", str(-(2**64))]]
B_BYTES = [hx(b) for b in (b"", b"a", b"0123456789", b":", b"e", b"i", b"1:a", b"i1e", b"le", b"de", b"l", b"d", b"12", b"3:")]
B_STRS = [["s", ""], ["s", "a"], ["s", "é"], ["s", "中😀"], ["s", "2:ab"]]
B_NAMES = [["kw", None, "a"], ["kw", "n", "k"], ["sym", None, "s"], ["sym", "q", "s"]]
B_ATOMS = B_INTS + B_BYTES + B_STRS + B_NAMES + [["nil"]]
B_ATOMS_SMALL = [["i", "-1"], ["i", "10"], hx(b""), hx(b"0123456789"), hx(b"e"), ["s", "é"], ["kw", "n", "k"], ["nil"]]
B_KEYS = [["s", "a"], ["s", "é"], ["kw", None, "k"], ["kw", "n", "k2"], ["sym", None, "b"]]
B_KEYS_SMALL = [["s", "a"], ["kw", "n", "k2"], ["sym", None, "b"]]
B_SEQ = ["V", "L", "PL", "PT"]
B_MAP = ["M", "PD"]
B_MODES = ("default", "nrepl", "key-fn")


def b_opts(mode):
    from basilisp.lang import map as lmap

    if mode == "default":
        return lmap.map({})
    if mode == "nrepl":  # what contrib/nrepl_server.lpy passes
        return lmap.map({K("keywordize-keys"): True, K("string-fn"): lambda b: b.decode("utf-8")})
    if mode == "key-fn":
        return lmap.map({K("key-fn"): lambda b: b.decode("utf-8")})
    raise KeyError(mode)


def _bstr(spec):
    t = spec[0]
    if t == "s":
        return spec[1]
    if t in ("kw", "sym"):
        return f"{spec[1]}/{spec[2]}" if spec[1] else spec[2]
    raise KeyError(t)


def b_expect(spec, mode):
    """Reference coercion: what decode must return for the encoding of `spec`."""
    from basilisp.lang import keyword as kw, map as lmap, vector as vec

    t = spec[0]
    text_values = mode == "nrepl"
    if t == "i":
        return int(spec[1])
    if t == "bytes":
        b = bytes.fromhex(spec[1])
        return b.decode("utf-8") if text_values else b
    if t == "nil":
        return "" if text_values else b""
    if t in ("s", "kw", "sym"):
        s = _bstr(spec)
        return s if text_values else s.encode("utf-8")
    if t in B_SEQ:
        return vec.vector([b_expect(k, mode) for k in spec[1]])
    if t in B_MAP:
        d = {}
        for k, v in spec[1]:
            ks = _bstr(k)
            if mode == "default":
                key = ks.encode("utf-8")
            elif mode == "key-fn":
                key = ks
            else:
                ns, _, name = ks.rpartition("/") if "/" in ks else (None, None, ks)
                key = kw.keyword(name, ns=ns or None)
            d[key] = b_expect(v, mode)
        return lmap.map(d)
    raise KeyError(t)


def b_value_case(res: Result, family, spec, mode):
    f = fns()
    case = {"family": family, "spec": spec, "mode": mode}
    v = build(spec)
    res.evaluations += 1
    res.transitions += 2
    try:
        enc = f["b_encode"](v)
    except Exception as e:  # noqa
        res.fail("bencode-encode-raises", case, value=show(v), exc=type(e).__name__, msg=str(e)[:160])
        return None
    if type(enc) is not bytes:
        res.fail("bencode-encode-not-bytes", case, value=show(v), got=repr(enc)[:200])
        return None
    res.outcomes.add(("bencode", crc(enc)))
    try:
        out = f["b_decode"](enc, b_opts(mode))
        item, rest = out[0], out[1]
    except Exception as e:  # noqa
        res.fail("bencode-decode-raises", case, encoded=repr(enc), exc=type(e).__name__, msg=str(e)[:160])
        return enc
    exp = b_expect(spec, mode)
    if not same(exp, item) or rest not in (None, b""):
        res.fail("bencode-roundtrip-differs", case, value=show(v), encoded=repr(enc)[:300], expected=show(exp), got=show(item), rest=repr(rest)[:80])
    return enc


B_BINARY = [hx(b"\xff\x00")]  # not UTF-8: only where byte strings stay byte strings (skipped under the nREPL :string-fn)


def b_value_specs(tier):
    specs = keyed_terms(B_ATOMS + B_BINARY, B_SEQ, B_MAP, B_KEYS, 3 if tier == "thorough" else 2)
    seen = {sj(s) for s in specs}
    extra = keyed_terms(B_ATOMS_SMALL, B_SEQ, B_MAP, B_KEYS_SMALL, 4 if tier == "thorough" else 3)
    for s in extra:
        if sj(s) not in seen:
            specs.append(s)
    return specs


def b_values_shard(args):
    tier, shard, nshards = args
    res = Result()
    n = 0
    specs = b_value_specs(tier)
    for i, spec in enumerate(specs):
        if i % nshards != shard:
            continue
        for mode in B_MODES:
            if mode == "nrepl" and not _utf8_ok(spec):
                continue
            enc = b_value_case(res, "bencode-value", spec, mode)
            n += 1
            res.distinct_count += 1
            if enc is not None and i % 2999 == 13 and mode == "default":
                res.sample({"codec": "bencode", "value": show(build(spec)), "encoded": repr(enc)})
    res.part("bencode/values", cases=n, terms=str(len(specs)))
    return res.compact()


def _utf8_ok(spec):
    t = spec[0]
    if t == "bytes":
        try:
            bytes.fromhex(spec[1]).decode("utf-8")
            return True
        except UnicodeDecodeError:
            return False
    if t in B_SEQ:
        return all(_utf8_ok(k) for k in spec[1])
    if t in B_MAP:
        return all(_utf8_ok(v) for _, v in spec[1])
    return True


def M_(pairs):
    return ["M", [[k, v] for k, v in pairs]]


def b_messages():
    """Message universe for the framing part (all UTF-8 clean so that every option set applies)."""
    s = lambda x: ["s", x]  # noqa
    msgs = list(B_ATOMS)
    msgs += [
        ["V", []],
        ["V", [["i", "1"]]],
        ["V", [hx(b"e"), ["i", "-1"]]],
        ["L", [s("é")]],
        ["PT", [["i", "0"], ["i", "10"]]],
        ["V", [["V", [["V", [["i", "1"]]]]]]],
        ["V", [M_([(s("a"), ["V", []])])]],
        M_([]),
        M_([(s("op"), s("eval")), (s("code"), s("(+ 1 2)")), (s("id"), s("1"))]),
        M_([(["kw", None, "a"], ["i", "1"])]),
        M_([(s("k"), M_([(s("k"), M_([]))]))]),
        M_([(s("a"), hx(b"e")), (s("b"), ["V", [["i", "1"], s("")]])]),
        M_([(s("10"), ["i", "10"])]),
        M_([(s("0123456789"), hx(b"0123456789"))]),
        hx(b"0123456789" * 10),  # three-digit length prefix
    ]
    return msgs


def b_subset(msgs, size):
    """Indices of the `size` (8, 12, 16 or 20) messages used where the full square / cube is too large."""
    s_ = lambda x: ["s", x]  # noqa
    want = [
        ["i", "1"], hx(b""), hx(b"0123456789"), hx(b"e"), ["s", "\u00e9"], ["V", [["V", [["V", [["i", "1"]]]]]]], ["M", []],
        M_([(s_("op"), s_("eval")), (s_("code"), s_("(+ 1 2)")), (s_("id"), s_("1"))]),
        ["i", str(2**64)], hx(b"i1e"), ["kw", "n", "k"], M_([(s_("k"), M_([(s_("k"), M_([]))]))]),
        ["i", "-1"], hx(b"3:"), ["V", []], M_([(s_("0123456789"), hx(b"0123456789"))]),
        ["nil"], hx(b"l"), ["s", "\u4e2d\U0001f600"], ["PT", [["i", "0"], ["i", "10"]]],
    ]
    idx = [msgs.index(w) for w in want[:size]]
    assert len(set(idx)) == size, idx
    return idx


def pending_like_nrepl(un):
    return un if un else None


def deliver(res: Result, case, stream, ends, cuts, expected, mode, opts):
    """Deliver `stream` in len(cuts)+1 chunks the way nrepl_server/on-connect does (pending + data -> decode-all);
    after every chunk exactly the messages that are complete so far must have been produced, and the unconsumed bytes
    must be exactly the tail that starts at the first incomplete message."""
    f = fns()
    bounds = [0] + list(cuts) + [len(stream)]
    pending = None
    got = []
    for a, b in zip(bounds, bounds[1:]):
        chunk = stream[a:b]
        data = pending + chunk if pending else chunk
        res.evaluations += 1
        res.transitions += 1
        try:
            out = f["b_decode_all"](data, opts)
            items, un = list(out[0]), out[1]
        except Exception as e:  # noqa
            res.fail("bencode-decode-all-raises", case, stream=repr(stream)[:300], data=repr(data)[:300], exc=type(e).__name__, msg=str(e)[:160])
            return False
        got.extend(items)
        k = sum(1 for e in ends if e <= b)
        exp_un = stream[(ends[k - 1] if k else 0) : b]
        res.outcomes.add(("frame", len(items), len(exp_un)))
        if len(got) != k or not all(same(e, g) for e, g in zip(expected[:k], got)):
            kind = "bencode-partial-message-reported-complete" if len(got) > k else "bencode-framing-messages-differ"
            res.fail(kind, case, stream=repr(stream)[:300], delivered_upto=b, data=repr(data)[:300], expected=[show(x) for x in expected[:k]], got=[show(x) for x in got][:8])
            return False
        if not ((un is None and not exp_un) or (type(un) is bytes and un == exp_un)):
            res.fail("bencode-remainder-differs", case, stream=repr(stream)[:300], delivered_upto=b, data=repr(data)[:300], expected=repr(exp_un)[:200], got=repr(un)[:200])
            return False
        pending = pending_like_nrepl(un)
    return True


def stream_case(res: Result, specs, mode, ncuts, only_cuts=None):
    f = fns()
    opts = b_opts(mode)
    encs = []
    for sp in specs:
        try:
            encs.append(f["b_encode"](build(sp)))
        except Exception as e:  # noqa
            res.fail("bencode-encode-raises", {"family": "bencode-stream", "specs": specs, "mode": mode}, exc=type(e).__name__, msg=str(e)[:160])
            return
    stream = b"".join(encs)
    ends = list(itertools.accumulate(len(e) for e in encs))
    expected = [b_expect(sp, mode) for sp in specs]
    res.outcomes.add(("stream", crc(stream)))
    if only_cuts is not None:
        cutsets = [tuple(only_cuts)]
    else:
        cutsets = itertools.combinations_with_replacement(range(len(stream) + 1), ncuts)
    for cuts in cutsets:
        case = {"family": "bencode-stream", "specs": specs, "mode": mode, "cuts": list(cuts)}
        deliver(res, case, stream, ends, cuts, expected, mode, opts)
        res.distinct_count += 1


def b_stream_jobs(tier):
    """(message index tuple, mode, number of cuts), simplest first."""
    msgs = b_messages()
    idx = range(len(msgs))
    jobs = []
    if tier == "quick":
        s12, s8 = b_subset(msgs, 12), b_subset(msgs, 8)
        jobs += [((i,), m, 1) for m in ("default", "nrepl") for i in idx]
        jobs += [((i, j), "default", 1) for i in idx for j in idx]
        jobs += [((i, j), "nrepl", 1) for i in s12 for j in s12]
        jobs += [((i, j, k), "default", 1) for i in s8 for j in s8 for k in s8]
    else:
        s16, s20 = b_subset(msgs, 16), b_subset(msgs, 20)
        for m in B_MODES:
            jobs += [((i,), m, 1) for i in idx]
            jobs += [((i, j), m, 1) for i in idx for j in idx]
        for m in ("default", "nrepl"):
            jobs += [((i, j, k), m, 1) for i in s20 for j in s20 for k in s20]
            jobs += [((i,), m, 2) for i in idx]
            jobs += [((i, j), m, 2) for i in s16 for j in s16]
    return msgs, jobs


def b_streams_shard(args):
    tier, shard, nshards = args
    res = Result()
    msgs, jobs = b_stream_jobs(tier)
    n = 0
    for ji, (ids, mode, ncuts) in enumerate(jobs):
        if ji % nshards != shard:
            continue
        stream_case(res, [msgs[i] for i in ids], mode, ncuts)
        n += 1
    res.part("bencode/streams", streams=n, message_universe=str(len(msgs)))
    return res.compact()


# ------------------------------------------------------------------------------------------------ run / replay


def _work(job):
    """One worker = shard `s` of every part (cases of each part are dealt round-robin, so shards are balanced)."""
    tier, s, n = job
    res = Result()
    res.merge(edn_scalar_shard((tier, s, n)))
    res.merge(edn_terms_shard((4 if tier == "quick" else 5, s, n)))
    res.merge(json_shard((tier, s, n)))
    res.merge(b_values_shard((tier, s, n)))
    res.merge(b_streams_shard((tier, s, n)))
    return res.compact()


def run(tier, seed):
    import gc

    f = fns()
    res = Result()
    edn_excluded(res)
    # three written-out cases (one per codec)
    try:
        v = build(["V", [["fl", "1e+23"], ["s", 'a"\\\n'], ["kw", "n", "k"]]])
        t = f["edn_write"](v)
        res.sample({"codec": "edn", "value": show(v), "written": t, "edn_reader": show(f["edn_read"](t)), "lisp_reader": show(lisp_read_all(t)[0])})
        v = build(["M", [[["kw", "b", "c"], ["V", [["fl", "1.5"], ["nil"], ["s", "\u00e9"]]]]]])
        t = f["json_write"](v)
        res.sample({"codec": "json", "value": show(v), "written": t, "read_default": show(f["json_read"](t)), "read_keywordized": show(f["json_read"](t, *json_ropts()["keywordize"]))})
        stream = f["b_encode"](build(["i", "10"])) + f["b_encode"](build(["bytes", b"0123456789".hex()]))
        out = f["b_decode_all"](stream[:9], b_opts("default"))
        res.sample({"codec": "bencode", "stream": repr(stream), "cut": 9, "decode_all_of_prefix": [[show(x) for x in out[0]], repr(out[1])]})
    except Exception as e:  # noqa  (samples are illustration only; the enumeration below judges)
        res.notes.append(f"sample generation raised {type(e).__name__}")
    n = 16 if tier == "quick" else 48
    gc.collect()
    gc.freeze()  # keep the bootstrapped heap shared between forked workers (no copy-on-write storm from the collector)
    try:
        for r in env.parallel(_work, [(tier, (s + seed) % n, n) for s in range(n)]):
            res.merge(r)
    finally:
        gc.unfreeze()
    return res


def replay(failure):
    """Re-execute ONE failing case from its recorded spec; returns a failure again iff it still fails."""
    fns()
    case = failure["case"]
    fam = case.get("family")
    r = Result()
    if fam in ("edn-scalar", "edn-term"):
        edn_case(r, fam, case["spec"], case["ctx"])
        for f in r.failures:
            if f["kind"] == failure["kind"] and f["case"].get("reader") == case.get("reader"):
                return f
        return None
    if fam in ("json-term", "json-string"):
        json_case(r, fam, case["spec"], case["write_opts"], case["read_opts"])
    elif fam == "bencode-value":
        b_value_case(r, fam, case["spec"], case["mode"])
    elif fam == "bencode-stream":
        stream_case(r, case["specs"], case["mode"], len(case.get("cuts", [])), only_cuts=case.get("cuts", []))
    else:
        return None
    for f in r.failures:
        if f["kind"] == failure["kind"]:
            return f
    return None
