"""C18 — multimethod dispatch depends only on the current methods, preferences and hierarchy.

Engine B (breadth-first search over operation histories with canonical-state dedup, replay-built):

  hier    level-synchronous BFS over the REAL hierarchy values reached by derive / underive (dedup on the
          value itself); every edge is executed; parents / ancestors / descendants / isa? of every distinct
          value are compared with the transitive closure computed from the history.
  bfs     histories of defmethod / remove-method / remove-all-methods / prefer-method / derive / underive /
          call over four universes (5 keywords; 3 keywords; classes A<B<C + 2 keywords; vectors of two tags),
          each with the global hierarchy and with a private hierarchy passed as a Var.  Every operation of the
          alphabet is executed from every canonical state below the depth bound (history rebuilt on fresh
          objects), followed by a call with every dispatch value; each answer is compared with a from-scratch
          reference resolution.
  static  every reachable (methods, preferences, hierarchy) combination is rebuilt on a FRESH multimethod in
          every permutation of insertion order (and, where classes are keys, under six assignments of class
          hash values, i.e. six iteration orders of the method table); all answers must agree.
  text    the same histories through the defmulti / defmethod macros as compiled text.
"""
from __future__ import annotations

import gc
import itertools
import time
from collections import Counter

from vlib import bfs, env
from vlib import multifn_model as M
from vlib.evidence import Result

PROPERTY = "C18"
LEVEL = "model_checking"
BOUNDS = {
    "quick": "hier: every derive/underive history of length <=2 over 5 keywords + 3 classes and <=3 over 5 keywords; bfs: every "
    "history of length <=3 over the 5-keyword, class and vector universes (vector universe with a private hierarchy: <=2) and <=5 "
    "over the 3-keyword universe (<=4 with a private hierarchy), each with the global and with a private hierarchy, every dispatch value called after the last "
    "step; static: every (methods, preferences, hierarchy) combination reachable in <=3 steps x every insertion order x 6 "
    "class-hash assignments; text: <=2 (variants <=1)",
    "thorough": "hier: <=3 over 8 tags, <=5 over 5 keywords; bfs: length <=4 (5 keywords, both modes; vectors global; classes "
    "private), <=5 (classes, global), <=3 (vectors private), <=7 (3 keywords, both modes); static: combinations reachable in <=4 "
    "steps; text: <=3 (variants <=2)",
}
RULE = (
    "engine B: breadth-first search over operation histories (defmethod, remove-method, remove-all-methods, prefer-method, "
    "derive, underive, call); canonical state = (method keys, declared preferences, derive edges, dispatch values cached since "
    "the last invalidation, stale-hierarchy snapshot); one shortest history per canonical state is kept, and from every kept "
    "state EVERY operation of the alphabet is executed on a freshly built multimethod (history replayed on new objects), followed "
    "by a call with every dispatch value of the universe; a case is distinct by (universe, hierarchy mode, resulting canonical "
    "state); the keyword universes are closed under renaming of the keywords, so every iteration order of the method table is "
    "reached under the fixed hash seed; where classes are keys the table order is varied through six assignments of class hashes; "
    "hierarchy values are searched breadth-first on the real values (dedup on the value); nothing is sampled"
)
ASSUMPTIONS = [
    "reference resolution: candidates = methods whose key isa?-covers the dispatch value; x precedes y iff (isa? x y) or "
    "(prefer-method x y) was declared (declared pairs only, no inheritance of preferences); the unique candidate preceding "
    "all others wins; no candidate -> default method, else an exception; otherwise an exception",
    "where a declared preference contradicts isa? among the candidates (prefer x y although y isa x) the property does not fix "
    "the winner: any of the three consistent readings is accepted there, but isomorphic problems must get isomorphic answers "
    "and the answer may not depend on insertion order or table order",
    "descendants inverts derive relationships only (class inheritance is documented as unsupported there); a redundant but "
    "non-cyclic derive is accepted; underive of a missing relationship is a no-op; a derive that would close a cycle is rejected",
    "two histories with the same canonical state are assumed to behave alike afterwards (one representative is extended); the "
    "hier part checks that a hierarchy value is a function of its derive edges, which justifies this for the hierarchy component",
    "derive and underive are pure functions of the hierarchy value: when a history is replayed, the value of an already executed "
    "prefix of hierarchy operations is installed directly (the operation under test is always executed for real)",
    "in the static part, insertion orders / hash assignments after the first only call dispatch values matched by >=2 methods",
    "any exception class counts as 'raises'; the classes have fixed hash values (deterministic table order)",
]

NS = "c18"
CLASS_HASHES = [p for p in itertools.permutations((3, 17, 40))]

# --------------------------------------------------------------------------- universes


def universe(name):
    """Alphabet of one sub-universe: keywords (renamable), ops, probe values."""
    if name == "kw5":
        kws = ["k0", "k1", "k2", "k3", "k4"]
        tags, keys, prefk = kws, kws + ["default"], kws
        calls = kws + ["default"]
        dv = [(t, p) for t in tags for p in kws if t != p]
    elif name == "kw3":
        kws = ["k0", "k1", "k2"]
        tags, keys, prefk = kws, kws + ["default"], kws
        calls = kws + ["default"]
        dv = [(t, p) for t in tags for p in kws if t != p]
    elif name == "cls":
        kws = ["k0", "k1"]
        tags = ["A", "B", "C"] + kws
        keys, prefk = tags + ["default"], tags
        calls = keys
        dv = [(t, p) for t in tags for p in kws if t != p]
    elif name == "vec":
        # vectors of two tags: the four vectors over {A, B} and one keyword/class vector; dispatch values add
        # vectors of subclasses and of a keyword that may be derived from the key's keyword
        kws = []  # k0 / k1 play different roles here: no renaming symmetry is claimed
        cv = [(x, y) for x in "AB" for y in "AB"]
        keys = cv + [("k1", "A")] + ["default"]
        prefk = None
        prefs = [(x, y) for x in cv for y in cv if x != y]
        calls = keys + [("C", "C"), ("C", "B"), ("B", "C"), ("k0", "C"), ("k0", "A")]
        dv = [("k0", "k1"), ("k1", "k0")]
    else:
        raise KeyError(name)
    ops = [("dm", k) for k in keys] + [("rm", k) for k in keys] + [("ra",)]
    ops += [("pf", x, y) for x, y in (prefs if prefk is None else [(x, y) for x in prefk for y in prefk if x != y])]
    ops += [("dv", t, p) for t, p in dv] + [("ud", t, p) for t, p in dv] + [("call", d) for d in calls]
    return {"name": name, "kws": kws, "ops": ops, "probes": calls, "classes": name in ("cls", "vec")}


TIERS = {
    # bfs: universe -> (history length bound with the global hierarchy, with a private hierarchy Var)
    # text: (bound for the plain defmulti, bound for the :hierarchy / :default variants)
    "quick": {"bfs": {"kw5": (3, 3), "kw3": (5, 4), "cls": (3, 3), "vec": (3, 2)}, "static": 3, "hier8": 2, "hier5": 3, "text": (2, 1)},
    "thorough": {"bfs": {"kw5": (4, 4), "kw3": (7, 7), "cls": (5, 4), "vec": (4, 3)}, "static": 4, "hier8": 3, "hier5": 5, "text": (3, 2)},
}


_FAIL_CAP = 60


def _fail(res, kind, case, **kw):
    """Result.fail with a cap per (kind, explanation, part, universe) and worker, so that thousands of cases
    of one defect cannot crowd out a different failure; every case is still counted."""
    part = case.get("part")
    key = "%s|%s|%s|%s" % (kind, kw.get("explained_by", ""), part, case.get("universe", ""))
    cnt = res.parts.setdefault("failure_counts", {})
    cnt[key] = cnt.get(key, 0) + 1
    if cnt[key] <= _FAIL_CAP:
        res.fail(kind, case, **kw)


def J(t):
    """JSON form of a tag / op (tuples become lists)."""
    return list(J(x) for x in t) if isinstance(t, tuple) else t


def T(x):
    """Inverse of J."""
    return tuple(T(y) for y in x) if isinstance(x, list) else x


# --------------------------------------------------------------------------- binding to the real objects

_CLASSES = {}


def real_classes(variant):
    """Three classes A, B(A), C(B) whose hashes are fixed (deterministic table order; six variants)."""
    if variant not in _CLASSES:
        ha, hb, hc = CLASS_HASHES[variant]

        class HashMeta(type):
            def __hash__(cls):
                return cls._c18_hash

        A = HashMeta("A", (), {"_c18_hash": ha})
        B = HashMeta("B", (A,), {"_c18_hash": hb})
        C = HashMeta("C", (B,), {"_c18_hash": hc})
        _CLASSES[variant] = {"A": A, "B": B, "C": C, "object": object}
    return _CLASSES[variant]


class Binding:
    """Maps model tags to real objects and executes operations on the real implementation."""

    _priv_counter = [0]

    def __init__(self, mode="global", variant=0, default="default"):
        from basilisp.lang import keyword as kw, runtime, symbol as sym, vector as vec
        from basilisp.lang.multifn import MultiFunction

        self.mode, self.variant = mode, variant
        self.MultiFunction = MultiFunction
        self.sym = sym.symbol("c18-multi")
        self.vec = vec
        cls = real_classes(variant)
        self.obj = dict(cls)
        for i in range(5):
            self.obj["k%d" % i] = kw.keyword("k%d" % i, ns=NS)
        self.obj["default"] = kw.keyword("default")
        self.default = self.obj[default]
        self.name = {v: k for k, v in self.obj.items()}
        f = env.core_fn
        self.f_derive, self.f_underive = f("derive"), f("underive")
        self.f_make = f("make-hierarchy")
        self.f_alter = f("alter-var-root")
        self.f_remove, self.f_remove_all = f("remove-method"), f("remove-all-methods")
        self.f_prefer, self.f_prefers = f("prefer-method"), f("prefers")
        self.f_methods, self.f_get = f("methods"), f("get-method")
        self.f_identity = f("identity")
        self.k_parents = kw.keyword("parents")
        self.gvar = env.core_var("global-hierarchy")
        if mode == "private":
            Binding._priv_counter[0] += 1
            ns = env.fresh_ns("verif.c18")
            self.var = runtime.Var.intern(ns, sym.symbol("h%d" % Binding._priv_counter[0]), self.f_make())
        else:
            self.var = self.gvar
        self.fns = {}
        self.m = None
        self.hmemo = {}

    # -- tags
    def real(self, t):
        if isinstance(t, tuple):
            return self.vec.v(*[self.obj[x] for x in t])
        return self.obj[t]

    def tagname(self, o):
        if isinstance(o, self.vec.PersistentVector):
            return tuple(self.tagname(x) for x in o)
        try:
            return self.name[o]
        except (KeyError, TypeError):
            return repr(o)

    def method_fn(self, k):
        fn = self.fns.get(k)
        if fn is None:
            fn = self.fns[k] = lambda v, _k=k: ("ran", _k)
        return fn

    # -- lifecycle
    def fresh(self):
        self.var.bind_root(self.f_make())
        self.m = self.new_multi()
        return self.m

    def new_multi(self):
        return self.MultiFunction(self.sym, self.f_identity, self.default, self.var if self.mode == "private" else None)

    # -- operations; return None or the exception class name
    def apply(self, op, m=None):
        m = self.m if m is None else m
        kind = op[0]
        try:
            if kind == "dm":
                m.add_method(self.real(op[1]), self.method_fn(op[1]))
            elif kind == "rm":
                self.f_remove(m, self.real(op[1]))
            elif kind == "ra":
                self.f_remove_all(m)
            elif kind == "pf":
                self.f_prefer(m, self.real(op[1]), self.real(op[2]))
            elif kind == "dv":
                if self.mode == "private":
                    self.f_alter(self.var, self.f_derive, self.real(op[1]), self.real(op[2]))
                else:
                    self.f_derive(self.real(op[1]), self.real(op[2]))
            elif kind == "ud":
                if self.mode == "private":
                    self.f_alter(self.var, self.f_underive, self.real(op[1]), self.real(op[2]))
                else:
                    self.f_underive(self.real(op[1]), self.real(op[2]))
            elif kind == "call":
                m(self.real(op[1]))
            else:
                raise env.HarnessError("bad op %r" % (op,))
        except env.HarnessError:
            raise
        except Exception as e:  # noqa
            return type(e).__name__
        return None

    def apply_prefix(self, op, hkey):
        """A derive / underive that is NOT the operation under test: derive and underive are pure functions
        of the hierarchy value, so the value computed the first time this prefix of hierarchy operations was
        executed is installed directly (the multimethod observes the same sequence of hierarchy values)."""
        v = self.hmemo.get(hkey)
        if v is None:
            self.apply(op)
            if len(self.hmemo) < 300000:
                self.hmemo[hkey] = self.var.value
        else:
            self.var.bind_root(v)

    def call(self, d, m=None):
        m = self.m if m is None else m
        try:
            r = m(self.real(d))
        except Exception as e:  # noqa
            return ("err", type(e).__name__)
        if isinstance(r, tuple) and len(r) == 2 and r[0] == "ran":
            return ("ok", r[1])
        return ("bad", repr(r))

    def get_method(self, d, m=None):
        m = self.m if m is None else m
        try:
            g = self.f_get(m, self.real(d))
        except Exception as e:  # noqa
            return ("err", type(e).__name__)
        if g is None:
            return ("nil",)
        try:
            r = g(self.real(d))
        except Exception as e:  # noqa
            return ("bad", "method raised " + type(e).__name__)
        if isinstance(r, tuple) and len(r) == 2 and r[0] == "ran":
            return ("ok", r[1])
        return ("bad", repr(r))

    # -- observers
    def methods_keys(self, m=None):
        m = self.m if m is None else m
        return frozenset(self.tagname(k) for k in self.f_methods(m).keys())

    def table_order(self, m=None):
        m = self.m if m is None else m
        return [self.tagname(k) for k in self.f_methods(m).keys()]

    def prefs(self, m=None):
        m = self.m if m is None else m
        out = set()
        for k, vs in self.f_prefers(m).items():
            for v in vs:
                out.add((self.tagname(k), self.tagname(v)))
        return frozenset(out)

    def edges(self):
        h = self.var.value
        ps = h.val_at(self.k_parents)
        out = set()
        for t, s in ps.items():
            for p in s:
                out.add((self.tagname(t), self.tagname(p)))
        return frozenset(out)


# --------------------------------------------------------------------------- defect models (for triage only)


def single_pass(order, prefs, edges, d, methods):
    """What a best-so-far scan over the method table in `order` answers (the pinned tree's algorithm)."""
    best = None
    for k in order:
        if M.isa(edges, d, k):
            if best is None or (k, best) in prefs or M.isa(edges, k, best):
                best = k
            if not ((best, k) in prefs or M.isa(edges, best, k)):
                return ("err", "ambiguous")
    if best is None:
        return ("ok", M.DEFAULT) if M.DEFAULT in methods else ("err", "no-method")
    return ("ok", best)


def weak_isa(edges, x, y):
    if x == y:
        return True
    if M.is_vec(x) or M.is_vec(y):
        return M.is_vec(x) and M.is_vec(y) and len(x) == len(y) and all(weak_isa(edges, a, b) for a, b in zip(x, y))
    if M.is_class(x):
        supers = M.ancestors_of(frozenset(), x)
        if y in supers:
            return True
        own = {p for (c, p) in edges if c == x}
        kw_edges = frozenset(e for e in edges if not M.is_class(e[0]))
        return y in own or any(y in M.ancestors_of(kw_edges, p) for p in own)
    return y in M.ancestors_of(edges, x)


def weak_resolve(methods, prefs, edges, d):
    cands = [k for k in methods if weak_isa(edges, d, k)]
    if not cands:
        return ("ok", M.DEFAULT) if M.DEFAULT in methods else ("err", "no-method")
    win = [x for x in cands if all(weak_isa(edges, x, y) or (x, y) in prefs for y in cands if y != x)]
    return ("ok", win[0]) if len(win) == 1 else ("err", "ambiguous")


def explain(got, order, methods, prefs, edges, d):
    g = got if got[0] == "ok" else ("err",)
    sp = single_pass(order, prefs, edges, d, methods)
    if (sp if sp[0] == "ok" else ("err",)) == g:
        return "single-pass-best-so-far-selection"
    wr = weak_resolve(methods, prefs, edges, d)
    if (wr if wr[0] == "ok" else ("err",)) == g:
        return "class-does-not-inherit-derived-ancestors-of-superclasses"
    return ""


# --------------------------------------------------------------------------- part bfs


def bfs_states(uni, depth):
    """Canonical states reachable in < depth steps, one shortest history each (model only; engine B driver)."""
    order = []
    if depth >= 1:
        bfs.search(
            ((), M.EMPTY_STATE),
            lambda st: uni["ops"],
            lambda st, op: (st[0] + (op,), M.step(st[1], op)[0]),
            depth - 1,
            canon=lambda st: st[1],
            on_state=lambda st, d: order.append(st),
        )
    return order


def abstract(out):
    return out if out[0] == "ok" else ("err",)


def check_probes(b, uni, static, res, case, eq, m=None, probes=None, get_method_on_error=False):
    """Call the multimethod with every dispatch value and compare with the reference resolution."""
    methods, prefs, edges = static
    order = None
    answers = []
    for d in probes if probes is not None else uni["probes"]:
        got = b.call(d, m)
        answers.append(abstract(got))
        res.transitions += 1
        acc, contradicted = M.resolve(methods, prefs, edges, d)
        acc_abs = {abstract(a) for a in acc}
        g = abstract(got)
        cands = [k for k in methods if M.isa(edges, d, k)]
        ncand = len(cands)
        if ncand >= 2:
            only = next(iter(acc)) if len(acc) == 1 else None
            by_pref = only is not None and only[0] == "ok" and any(k != only[1] and not M.isa(edges, only[1], k) for k in cands)
            res.part("probes", two_or_more_candidates=1, three_or_more_candidates=int(ncand >= 3), decided_by_a_preference=int(by_pref), ambiguous=int(only is not None and only[0] == "err"), preference_contradicts_isa=int(contradicted))
        res.outcomes.add((got[0], got[1] if got[0] == "err" else ("exact" if d in methods else "default" if got[1] == "default" else "inherited"), min(ncand, 3)))
        if got[0] == "bad" or g not in acc_abs:
            if order is None:
                order = b.table_order(m)
            c = dict(case)
            c["probe"] = J(d)
            _fail(res, 
                "wrong-method",
                c,
                got=J(got),
                reference=sorted(J(a) for a in acc),
                table_order=J(tuple(order)),
                methods=sorted(map(repr, methods)),
                prefs=sorted(map(repr, prefs)),
                derived=sorted(map(repr, edges)),
                explained_by=explain(got, order, methods, prefs, edges, d),
            )
        if contradicted:
            key, maps = M.canon_problem(methods, prefs, edges, d, uni["kws"])
            co = M.canon_outcome(got if got[0] == "ok" else ("err",), maps)
            if co not in eq.setdefault(key, {}):
                c = dict(case)
                c["probe"] = J(d)
                c["table_order"] = J(tuple(b.table_order(m)))
                c["answer"] = J(abstract(got))
                eq[key][co] = c
        # get-method must name the same method
        if got[0] != "ok" and not get_method_on_error:
            continue
        gm = b.get_method(d, m)
        res.transitions += 1
        if got[0] == "ok":
            if gm != got:
                c = dict(case)
                c["probe"] = J(d)
                _fail(res, "get-method-disagrees-with-call", c, call=J(got), get_method=J(gm))
        elif gm[0] not in ("nil", "err"):
            c = dict(case)
            c["probe"] = J(d)
            _fail(res, "get-method-disagrees-with-call", c, call=J(got), get_method=J(gm))
    return tuple(answers)


def check_edge(b, uni, hist, res, eq):
    """Rebuild `hist` on fresh objects (the last operation is the edge under test), then probe."""
    b.fresh()
    s = M.EMPTY_STATE
    last = len(hist) - 1
    case = {"part": "bfs", "universe": uni["name"], "mode": b.mode, "variant": b.variant, "history": [J(o) for o in hist]}
    hkey = ()
    for i, op in enumerate(hist):
        if i != last and op[0] in ("dv", "ud"):
            hkey = hkey + (op,)
            s2, must = M.step(s, op)
            b.apply_prefix(op, hkey)
            s = s2
            res.transitions += 1
            continue
        if op[0] == "call":
            acc, _c = M.resolve(s[0], s[1], s[2], op[1])
            exc = b.apply(op)
            if i == last:  # earlier calls were judged when they were the last operation
                if exc and ("err",) not in {abstract(a) for a in acc}:
                    _fail(res, "call-raised", case, exc=exc, reference=sorted(J(a) for a in acc), explained_by=explain(("err", exc), b.table_order(), s[0], s[1], s[2], op[1]))
                if not exc and all(a[0] == "err" for a in acc):
                    _fail(res, "call-did-not-raise", case, reference=sorted(J(a) for a in acc))
            s, _ = M.step(s, op)
        else:
            s2, must = M.step(s, op)
            exc = b.apply(op)
            if i == last:
                if must and not exc:
                    _fail(res, "operation-not-rejected", case, op=J(op))
                elif exc and not must:
                    _fail(res, "operation-raised", case, op=J(op), exc=exc)
                res.outcomes.add(("op", op[0], exc or "ok"))
            if exc and not must:
                s2 = s  # keep going on what the implementation did; already reported when it was the last op
            s = s2
        res.transitions += 1
    static = (s[0], s[1], s[2])
    # observable tables
    mk = b.methods_keys()
    if mk != s[0]:
        _fail(res, "methods-table-differs", case, got=sorted(map(repr, mk)), expected=sorted(map(repr, s[0])))
    pf = b.prefs()
    if pf != s[1]:
        _fail(res, "prefers-table-differs", case, got=sorted(map(repr, pf)), expected=sorted(map(repr, s[1])))
    ed = b.edges()
    if ed != s[2]:
        _fail(res, "hierarchy-parents-differ", case, got=sorted(map(repr, ed)), expected=sorted(map(repr, s[2])))
    check_probes(b, uni, static, res, case, eq)
    res.evaluations += 1
    return s


def run_bfs_shard(args):
    name, mode, depth, hists = args
    uni = universe(name)
    b = Binding(mode=mode, variant=0)
    res = Result()
    eq = {}
    nstate = Counter()
    t0 = time.process_time()
    for hist in hists:
        for op in uni["ops"]:
            s = check_edge(b, uni, hist + (op,), res, eq)
            res.distinct.add(hash((name, mode, s)))
            nstate[len(hist) + 1] += 1
    res.part("bfs:%s:%s" % (name, mode), edges_executed=sum(nstate.values()), states_expanded=len(hists), cpu_s=round(time.process_time() - t0, 2))
    if mode == "global":
        b.gvar.bind_root(b.f_make())
    return res.compact(), eq


# --------------------------------------------------------------------------- part static


def static_states(uni, depth):
    """(methods, prefs, edges) combinations reachable within `depth` steps."""
    ops = [o for o in uni["ops"] if o[0] != "call"]
    start = (frozenset(), frozenset(), frozenset())
    seen = {start}
    frontier = [start]
    for _ in range(depth):
        nxt = []
        for st in frontier:
            full = st + (frozenset(), None)
            for op in ops:
                s2, _ = M.step(full, op)
                k = s2[:3]
                if k not in seen:
                    seen.add(k)
                    nxt.append(k)
        frontier = nxt
    return sorted(seen, key=lambda st: (len(st[0]) + len(st[1]) + len(st[2]), repr(st)))


def topo_edges(edges):
    """An order of derive edges that never hits the cycle check: any order works for an acyclic relation."""
    return sorted(edges, key=repr)


def check_static(bs, uni, st, res, eq, orders=None):
    methods, prefs, edges = st
    items = [("dm", k) for k in sorted(methods, key=repr)] + [("pf", x, y) for x, y in sorted(prefs, key=repr)]
    answers = {}
    # after the first build (sorted insertion order, first hash assignment, every dispatch value) the further
    # insertion orders / hash assignments only call the dispatch values that at least two methods match:
    # with fewer candidates there is nothing an order could decide
    multi = [d for d in uni["probes"] if sum(1 for k in methods if M.isa(edges, d, k)) >= 2]
    first = True
    for b in bs:
        if not first and not multi:
            break
        b.var.bind_root(b.f_make())
        for t, p in topo_edges(edges):
            exc = b.apply(("dv", t, p))
            res.transitions += 1
            if exc:
                _fail(res, "operation-raised", {"part": "static", "universe": uni["name"], "variant": b.variant, "methods": J(tuple(sorted(methods, key=repr))), "prefs": J(tuple(sorted(prefs, key=repr))), "edges": J(tuple(topo_edges(edges)))}, op=J(("dv", t, p)), exc=exc)
        perms = itertools.permutations(items) if (b.variant == 0 and len(items) <= 4) else [tuple(items)]
        for perm in perms:
            if not first and not multi:
                break
            m = b.new_multi()
            bad = False
            for op in perm:
                if b.apply(op, m):
                    bad = True
                res.transitions += 1
            case = {
                "part": "static",
                "universe": uni["name"],
                "variant": b.variant,
                "methods": J(tuple(sorted(methods, key=repr))),
                "prefs": J(tuple(sorted(prefs, key=repr))),
                "edges": J(tuple(topo_edges(edges))),
                "insertion": [J(o) for o in perm],
            }
            if bad:
                _fail(res, "operation-raised", case)
                continue
            probes = uni["probes"] if first else multi
            ans = check_probes(b, uni, st, res, case, eq, m=m, probes=probes, get_method_on_error=first)
            if first:
                ans = tuple(a for d, a in zip(probes, ans) if d in multi)
            first = False
            res.evaluations += 1
            if orders is not None and len(methods) == 3:
                orders.setdefault(methods, set()).add(tuple(b.table_order(m)))
            # differential: identical answers whatever the insertion order / hash assignment
            if ans not in answers:
                case["table_order"] = J(tuple(b.table_order(m)))
                answers[ans] = case
    if len(answers) > 1:
        (a1, c1), (a2, c2) = list(answers.items())[:2]
        diff = [d for d, x, y in zip(multi, a1, a2) if x != y]
        expl = "single-pass-best-so-far-selection"
        for c, a in ((c1, a1), (c2, a2)):
            for d, x in zip(multi, a):
                if d in diff and abstract(single_pass([T(k) for k in c["table_order"]], prefs, edges, d, methods)) != x:
                    expl = ""
        _fail(res, "answer-depends-on-insertion-or-table-order", c1, other=c2, differing_dispatch_values=[J(d) for d in diff], explained_by=expl)


def run_static_shard(args):
    name, states = args
    uni = universe(name)
    nvar = len(CLASS_HASHES) if uni["classes"] else 1
    bs = [Binding(mode="private", variant=v) for v in range(nvar)]
    res = Result()
    eq = {}
    orders = {}
    t0 = time.process_time()
    for st in states:
        check_static(bs, uni, st, res, eq, orders)
        res.distinct.add(hash(("static", name, st)))
    full = sum(1 for v in orders.values() if len(v) == 6)
    res.part("static:%s" % name, combinations=len(states), three_method_tables=len(orders), tables_seen_in_all_6_orders=full, table_orders_seen=sum(len(v) for v in orders.values()), cpu_s=round(time.process_time() - t0, 2))
    return res.compact(), eq


# --------------------------------------------------------------------------- part hier


def hier_universe(which):
    kws = ["k0", "k1", "k2", "k3", "k4"]
    tags = kws + (["A", "B", "C"] if which == "hier8" else [])
    ops = [("dv", t, p) for t in tags for p in kws] + [("ud", t, p) for t in tags for p in kws if t != p]
    return {"name": which, "kws": kws, "tags": tags, "ops": ops}


class HierBinding(Binding):
    """Works on hierarchy VALUES through the 3-argument API."""

    def __init__(self):
        super().__init__(mode="private", variant=0)
        f = env.core_fn
        self.f_parents, self.f_ancestors, self.f_descendants, self.f_isa = f("parents"), f("ancestors"), f("descendants"), f("isa?")

    def step_value(self, h, op):
        fn = self.f_derive if op[0] == "dv" else self.f_underive
        try:
            return fn(h, self.real(op[1]), self.real(op[2])), None
        except Exception as e:  # noqa
            return h, type(e).__name__

    def value_key(self, h):
        out = []
        for sec in ("parents", "ancestors", "descendants"):
            from basilisp.lang import keyword as kw

            mp = h.val_at(kw.keyword(sec))
            out.append(tuple(sorted((repr(self.tagname(t)), tuple(sorted(repr(self.tagname(x)) for x in s))) for t, s in mp.items())))
        return tuple(out) + (len(h),)

    def names(self, s):
        return frozenset() if s is None else frozenset(self.tagname(x) for x in s)


def check_hier_value(b, uni, h, edges, res, case):
    """parents / ancestors / descendants / isa? of one real hierarchy value against the closure of `edges`."""
    tags = uni["tags"]
    anc_got = {}
    for t in tags:
        rt = b.real(t)
        try:
            ps = b.names(b.f_parents(h, rt))
            an = b.names(b.f_ancestors(h, rt))
        except Exception as e:  # noqa
            _fail(res, "hierarchy-query-raised", case, tag=t, exc=type(e).__name__)
            continue
        res.transitions += 2
        anc_got[t] = an
        exp_p = frozenset(M.parents_of(edges, t))
        exp_a = M.ancestors_of(edges, t)
        if ps != exp_p:
            _fail(res, "parents-differ-from-derive-history", case, tag=t, got=sorted(map(repr, ps)), expected=sorted(map(repr, exp_p)))
        if an != exp_a:
            expl = ""
            if M.is_class(t) and an == frozenset(x for x in exp_a if weak_isa(edges, t, x)):
                expl = "class-does-not-inherit-derived-ancestors-of-superclasses"
            _fail(res, "ancestors-not-transitive-closure-of-parents", case, tag=t, got=sorted(map(repr, an)), expected=sorted(map(repr, exp_a)), explained_by=expl)
        try:
            de = b.names(b.f_descendants(h, rt))
            res.transitions += 1
        except Exception as e:  # noqa
            if M.is_class(t) and type(e).__name__ == "TypeError":
                de = None  # documented: descendants of classes are not supported
            else:
                _fail(res, "hierarchy-query-raised", case, tag=t, exc=type(e).__name__)
                de = None
        if de is not None and not M.is_class(t):
            req, allowed = M.descendants_required(edges, t), M.descendants_allowed(edges, t)
            if not (req <= de <= allowed):
                _fail(res, "descendants-not-inverse-of-ancestors", case, tag=t, got=sorted(map(repr, de)), required=sorted(map(repr, req)))
    for x in tags:
        for y in tags:
            try:
                got = bool(b.f_isa(h, b.real(x), b.real(y)))
            except Exception as e:  # noqa
                _fail(res, "hierarchy-query-raised", case, tag=[x, y], exc=type(e).__name__)
                continue
            res.transitions += 1
            exp = M.isa(edges, x, y)
            res.outcomes.add(("isa", got, M.is_class(x), M.is_class(y)))
            if got != exp:
                expl = "class-does-not-inherit-derived-ancestors-of-superclasses" if got == weak_isa(edges, x, y) else ""
                _fail(res, "isa-differs-from-closure", case, x=x, y=y, got=got, expected=exp, explained_by=expl)
            # consistency with the implementation's own ancestors answer
            if x in anc_got and x != y and not (M.is_class(x) and M.is_class(y)) and got != (y in anc_got[x]):
                _fail(res, "isa-inconsistent-with-ancestors", case, x=x, y=y, isa=got, ancestors=sorted(map(repr, anc_got[x])))
    # vectors: pointwise
    x, y = tags[0], tags[-1] if M.is_class(tags[-1]) else tags[1]
    for v1, v2 in (((x, x), (y, y)), ((y, y), (x, x)), ((x, y), (y, y)), ((y, x), (x, x)), ((x, y), (y, x)), ((x, y), (x, y))):
        got = bool(b.f_isa(h, b.real(v1), b.real(v2)))
        res.transitions += 1
        exp = M.isa(edges, v1, v2)
        if got != exp:
            expl = "class-does-not-inherit-derived-ancestors-of-superclasses" if got == weak_isa(edges, v1, v2) else ""
            _fail(res, "isa-differs-from-closure", case, x=J(v1), y=J(v2), got=got, expected=exp, explained_by=expl)


_HIER_SEEN = set()  # value keys checked in earlier levels (inherited by forked workers)


def replay_hier(b, hist):
    h = b.f_make()
    edges = frozenset()
    for op in hist:
        h, exc = b.step_value(h, op)
        if op[0] == "dv":
            if not M.derive_must_raise(edges, op[1], op[2]):
                edges = edges | {(op[1], op[2])}
        else:
            edges = edges - {(op[1], op[2])}
    return h, edges


def run_hier_shard(args):
    which, hists = args
    uni = hier_universe(which)
    b = HierBinding()
    res = Result()
    found = {}
    local = set()
    t0 = time.process_time()
    for hist in hists:
        h, edges = replay_hier(b, hist)
        res.transitions += len(hist)
        for op in uni["ops"]:
            h2, exc = b.step_value(h, op)
            res.transitions += 1
            res.evaluations += 1
            case = {"part": "hier", "universe": which, "history": [J(o) for o in hist + (op,)]}
            if op[0] == "dv":
                must = M.derive_must_raise(edges, op[1], op[2])
                e2 = edges if must else edges | {(op[1], op[2])}
            else:
                must = False
                e2 = edges - {(op[1], op[2])}
            res.outcomes.add(("hop", op[0], exc or "ok"))
            if must and not exc:
                _fail(res, "cyclic-derive-not-rejected", case)
                continue
            if exc and not must:
                _fail(res, "operation-raised", case, op=J(op), exc=exc)
                continue
            if exc:
                continue
            key = b.value_key(h2)
            if key in _HIER_SEEN or key in local:
                continue
            local.add(key)
            found[key] = (hist + (op,), e2)
            check_hier_value(b, uni, h2, e2, res, case)
    res.part("hier:%s" % which, edges_executed=len(hists) * len(uni["ops"]), cpu_s=round(time.process_time() - t0, 2))
    return res.compact(), found


def run_hier(which, depth, res, seed):
    uni = hier_universe(which)
    _HIER_SEEN.clear()
    b = HierBinding()
    _HIER_SEEN.add(b.value_key(b.f_make()))
    frontier = [()]
    rel_of_value = {}
    nvalues = 1
    for level in range(1, depth + 1):
        nsh = max(1, min(env.ncores(), len(frontier) // 8))
        shards = [(which, frontier[(i + seed) % nsh :: nsh]) for i in range(nsh)]
        nxt = {}
        for r, found in env.parallel(run_hier_shard, shards):
            res.merge(r)
            for key, (hist, edges) in found.items():
                if key not in nxt or (len(hist), repr(hist)) < (len(nxt[key][0]), repr(nxt[key][0])):
                    nxt[key] = (hist, edges)
        for key, (hist, edges) in nxt.items():
            rel_of_value.setdefault(edges, set()).add(key)
            res.distinct.add(hash(("hier", which, key)))
        _HIER_SEEN.update(nxt.keys())
        nvalues += len(nxt)
        frontier = sorted((v[0] for v in nxt.values()), key=lambda h: (len(h), repr(h)))
    multi = sum(1 for v in rel_of_value.values() if len(v) > 1)
    res.part("hier:%s" % which, depth_bound=depth, distinct_values=nvalues, distinct_relations=len(rel_of_value) + 1, relations_with_more_than_one_value=multi)
    if multi:
        res.notes.append("hier: %d derive relations are represented by more than one hierarchy value; the bfs part dedups on the relation" % multi)


# --------------------------------------------------------------------------- part text (macros)


def lisp_tag(t, default="default"):
    """Lisp text of a model tag; the model's default key is written `:default` or, when the multimethod
    is created with `:default :c18/dflt2`, as that keyword (then "plain" is the ordinary keyword :default)."""
    if isinstance(t, tuple):
        return "[" + " ".join(lisp_tag(x, default) for x in t) + "]"
    if t == "default":
        return ":default" if default == "default" else ":c18/" + default
    if t == "plain":
        return ":default"
    return ":c18/" + t


def text_forms(hist, mode, default):
    forms = []
    opts = ""
    lt = lambda t: lisp_tag(t, default)  # noqa
    if mode == "private":
        forms.append("(def h (make-hierarchy))")
        opts += " :hierarchy #'h"
    if default != "default":
        opts += " :default " + lt("default")
    forms.append("(defmulti m identity%s)" % opts)
    for op in hist:
        k = op[0]
        if k == "dm":
            forms.append("(defmethod m %s [x] [:ran %s])" % (lt(op[1]), lt(op[1])))
        elif k == "rm":
            forms.append("(remove-method m %s)" % lt(op[1]))
        elif k == "ra":
            forms.append("(remove-all-methods m)")
        elif k == "pf":
            forms.append("(prefer-method m %s %s)" % (lt(op[1]), lt(op[2])))
        elif k in ("dv", "ud"):
            f = "derive" if k == "dv" else "underive"
            if mode == "private":
                forms.append("(alter-var-root #'h %s %s %s)" % (f, lt(op[1]), lt(op[2])))
            else:
                forms.append("(%s %s %s)" % (f, lt(op[1]), lt(op[2])))
        elif k == "call":
            forms.append("(try (m %s) (catch python/Exception e :raised))" % lt(op[1]))
    return forms


def check_text(hist, mode, default, uni, res, ev_box):
    """One history through compiled text (defmulti / defmethod macros)."""
    from basilisp.lang import keyword as kw

    gvar = env.core_var("global-hierarchy")
    gvar.bind_root(env.core_fn("make-hierarchy")())
    if ev_box[1] >= 40:
        ev_box[0] = env.Evaluator(ns=ev_box[0].ns)
        ev_box[1] = 0
    ev = ev_box[0]
    case = {"part": "text", "universe": uni["name"], "mode": mode, "default": default, "history": [J(o) for o in hist]}
    s = M.EMPTY_STATE
    forms = text_forms(hist, mode, default)
    nprefix = len(forms) - len(hist)
    try:
        for f in forms[:nprefix]:
            ev.eval(f)
            ev_box[1] += 1
        for op, f in zip(hist, forms[nprefix:]):
            s2, must = M.step(s, op)
            try:
                ev.eval(f)
                exc = None
            except Exception as e:  # noqa
                exc = type(e).__name__
            ev_box[1] += 1
            res.transitions += 1
            if op[0] != "call":
                if must and not exc:
                    _fail(res, "operation-not-rejected", case, op=J(op))
                if exc and not must:
                    _fail(res, "operation-raised", case, op=J(op), exc=exc)
                    s2 = s
            s = s2
        for d in uni["probes"] + (["plain"] if default != "default" else []):
            r = ev.eval("(try (m %s) (catch python/Exception e :raised))" % lisp_tag(d, default))
            ev_box[1] += 1
            res.transitions += 1
            if r == kw.keyword("raised"):
                got = ("err",)
            else:
                k = r[1]
                got = ("ok", "default" if k.name == default else k.name)
            acc, _c = M.resolve(s[0], s[1], s[2], d)
            res.outcomes.add(("text", got[0]))
            if got not in {abstract(a) for a in acc}:
                c = dict(case)
                c["probe"] = J(d)
                _fail(res, "wrong-method", c, got=J(got), reference=sorted(J(a) for a in acc), forms=forms)
    except Exception as e:  # noqa
        _fail(res, "text-history-failed", case, exc=type(e).__name__, msg=str(e)[:200], forms=forms)
    res.evaluations += 1


def run_text_shard(args):
    name, jobs = args
    uni = universe(name)
    res = Result()
    box = [env.Evaluator(), 0]
    t0 = time.process_time()
    for hist, mode, default in jobs:
        check_text(hist, mode, default, uni, res, box)
        res.distinct.add(hash(("text", hist, mode, default)))
    env.core_var("global-hierarchy").bind_root(env.core_fn("make-hierarchy")())
    res.part("text:%s" % name, histories=len(jobs), cpu_s=round(time.process_time() - t0, 2))
    return res.compact(), {}


# --------------------------------------------------------------------------- driver


def merge_eq(total, eq):
    for key, outs in eq.items():
        t = total.setdefault(key, {})
        for co, case in outs.items():
            t.setdefault(co, case)


def run(tier, seed):
    env.bootstrap()
    cfg = TIERS[tier]
    res = Result()
    eq_total = {}
    gvar = env.core_var("global-hierarchy")
    if len(gvar.value.val_at(__import__("basilisp.lang.keyword", fromlist=["keyword"]).keyword("parents"))) != 0:
        raise env.HarnessError("the global hierarchy is not empty at start")
    # build every Binding class variant before forking so that workers share them
    for v in range(len(CLASS_HASHES)):
        real_classes(v)
    gc.collect()
    gc.freeze()

    # hier
    run_hier("hier8", cfg["hier8"], res, seed)
    run_hier("hier5", cfg["hier5"], res, seed)

    # bfs + static + text shards, all in one pool
    shards = []
    for name, depths in cfg["bfs"].items():
        uni = universe(name)
        for mode, depth in zip(("global", "private"), depths):
            states = [h for h, _s in bfs_states(uni, depth)]
            nsh = max(1, min(48, len(states) // 8))
            for i in range(nsh):
                part = states[(i + seed) % nsh :: nsh]
                if part:
                    shards.append(("bfs", (name, mode, depth, part)))
            res.part("plan:%s:%s" % (name, mode), canonical_states_expanded=len(states), alphabet=len(uni["ops"]), history_bound=depth)
        sdepth = cfg["static"]
        st = static_states(uni, sdepth)
        nsh = max(1, min(32, len(st) // 50))
        for i in range(nsh):
            part = st[(i + seed) % nsh :: nsh]
            if part:
                shards.append(("static", (name, part)))
        res.part("plan:%s:static" % name, static_combinations=len(st), step_bound=sdepth)
    uni3 = universe("kw3")
    jobs = []
    for h, _s in bfs_states(uni3, cfg["text"][0] + 1):
        jobs.append((h, "global", "default"))
    for h, _s in bfs_states(uni3, cfg["text"][1] + 1):
        jobs.append((h, "private", "default"))
        jobs.append((h, "global", "dflt2"))
    nsh = max(1, min(16, len(jobs) // 20))
    for i in range(nsh):
        shards.append(("text", ("kw3", jobs[i::nsh])))

    # few, equally loaded worker processes (every fork pays for copy-on-write of the bootstrapped heap):
    # longest task first into the least loaded of 2 x cores bins
    def cost(sh):
        kind, a = sh
        if kind == "bfs":
            return len(a[3]) * len(universe(a[0])["ops"]) * (4 if a[0] == "vec" else 1)
        if kind == "static":
            return len(a[1]) * {"vec": 60, "cls": 10}.get(a[0], 4)
        return len(a[1]) * 100

    shards.sort(key=cost, reverse=True)
    nb = max(1, min(len(shards), 2 * env.ncores()))
    bins = [[0, []] for _ in range(nb)]
    for sh in shards:
        bn = min(bins, key=lambda x: x[0])
        bn[0] += cost(sh)
        bn[1].append(sh)
    for r, eq in env.parallel(run_bin, [bn[1] for bn in bins]):
        res.merge(r)
        merge_eq(eq_total, eq)

    # equivariance of the answers where preference and isa? contradict each other
    ncontra = 0
    eqres = Result()
    for key, outs in sorted(eq_total.items()):
        ncontra += 1
        if len(outs) > 1:
            (o1, c1), (o2, c2) = sorted(outs.items())[:2]
            expl = "single-pass-best-so-far-selection" if all(_single_pass_explains(c) for c in (c1, c2)) else ""
            _fail(eqres, "isomorphic-problems-answered-differently", {"part": "equivariance", "universe": c1["universe"], "a": c1, "b": c2}, answer_a=J(o1), answer_b=J(o2), explained_by=expl)
    res.failures[:0] = eqres.failures
    res.part("failure_counts", **eqres.parts.get("failure_counts", {}))
    res.part("equivariance", contradicted_problem_classes=ncontra)
    gvar.bind_root(env.core_fn("make-hierarchy")())
    b = Binding()
    res.sample({"universe": "vec", "history": ["(defmethod m [A B] ..)", "(defmethod m [B A] ..)", "(defmethod m [B B] ..)"], "call": "(m [C C])", "reference": "method [B B]: it is isa? both others, which are incomparable; must hold for every table order"})
    res.sample({"universe": "kw3", "history": ["(defmethod m ::k1 ..)", "(defmethod m :default ..)", "(m ::k2)", "(derive ::k2 ::k1)"], "call": "(m ::k2)", "reference": "method ::k1 (the cached default answer is stale)"})
    res.sample({"universe": "cls", "history": ["(defmethod m A ..)", "(defmethod m B ..)", "(prefer-method m A B)"], "call": "(m C)", "reference": "preference contradicts isa?: A, B or an exception accepted, but the same answer for every table order"})
    res.sample({"history": ["(derive ::k0 ::k1)", "(defmethod m ::k1 ...)", "(m ::k0)"], "reference": "method ::k1 (inherited)", "real_keywords_in_table_order": [repr(k) for k in __import__("basilisp.lang.map", fromlist=["map"]).map({b.obj["k%d" % i]: 1 for i in range(5)}).keys()]})
    return res


def _single_pass_explains(c):
    """Does a best-so-far scan in the recorded table order give the recorded answer of this case?"""
    methods, prefs, edges = _problem(c)
    sp = single_pass([T(k) for k in c["table_order"]], prefs, edges, T(c["probe"]), methods)
    return J(abstract(sp)) == c["answer"]


def run_bin(tasks):
    res = Result()
    eq_total = {}
    for sh in tasks:
        r, eq = run_any_shard(sh)
        res.merge(r)
        merge_eq(eq_total, eq)
    return res.compact(), eq_total


def run_any_shard(sh):
    kind, a = sh
    if kind == "bfs":
        return run_bfs_shard(a)
    if kind == "static":
        return run_static_shard(a)
    return run_text_shard(a)


# --------------------------------------------------------------------------- replay


def _first(res, failure, keys=("probe",)):
    for f in res.failures:
        if f["kind"] == failure["kind"] and all(f["case"].get(k) == failure["case"].get(k) for k in keys) and all(f.get(k) == failure.get(k) for k in ("tag", "x", "y")):
            return f
    return None


def _answer(case):
    """Outcome of the probe of a recorded bfs/static case (for the equivariance replay)."""
    uni = universe(case["universe"])
    d = T(case["probe"])
    if case["part"] == "bfs":
        b = Binding(mode=case["mode"], variant=case.get("variant", 0))
        b.fresh()
        for op in case["history"]:
            b.apply(T(op))
        for p in uni["probes"]:
            got = b.call(p)
            if p == d:
                break
        if case["mode"] == "global":
            b.gvar.bind_root(b.f_make())
    else:
        b = Binding(mode="private", variant=case["variant"])
        b.var.bind_root(b.f_make())
        for e in case["edges"]:
            b.apply(("dv",) + tuple(T(e)))
        m = b.new_multi()
        for op in case["insertion"]:
            b.apply(T(op), m)
        for p in uni["probes"]:
            got = b.call(p, m)
            if p == d:
                break
    return got


def _problem(case):
    if case["part"] == "bfs":
        s = M.EMPTY_STATE
        for op in case["history"]:
            s, _ = M.step(s, T(op))
        return s[0], s[1], s[2]
    return frozenset(T(k) for k in case["methods"]), frozenset(tuple(T(p)) for p in case["prefs"]), frozenset(tuple(T(e)) for e in case["edges"])


def replay(failure):
    env.bootstrap()
    case = failure["case"]
    part = case.get("part")
    res = Result()
    eq = {}
    if part == "bfs":
        uni = universe(case["universe"])
        b = Binding(mode=case["mode"], variant=case.get("variant", 0))
        check_edge(b, uni, tuple(T(o) for o in case["history"]), res, eq)
        if case["mode"] == "global":
            b.gvar.bind_root(b.f_make())
        return _first(res, failure)
    if part == "static":
        uni = universe(case["universe"])
        nvar = len(CLASS_HASHES) if uni["classes"] else 1
        bs = [Binding(mode="private", variant=v) for v in range(nvar)]
        st = _problem(case)
        check_static(bs, uni, st, res, eq)
        if failure["kind"] == "answer-depends-on-insertion-or-table-order":
            return _first(res, failure, keys=())
        return _first(res, failure, keys=("probe", "variant", "insertion"))
    if part == "hier":
        uni = hier_universe(case["universe"])
        b = HierBinding()
        hist = tuple(T(o) for o in case["history"])
        h, edges = replay_hier(b, hist[:-1])
        op = hist[-1]
        h2, exc = b.step_value(h, op)
        must = op[0] == "dv" and M.derive_must_raise(edges, op[1], op[2])
        if failure["kind"] == "cyclic-derive-not-rejected":
            return dict(failure) if must and not exc else None
        if failure["kind"] == "operation-raised":
            return dict(failure) if exc and not must else None
        if exc:
            return None
        _h, e2 = replay_hier(b, hist)
        check_hier_value(b, uni, h2, e2, res, case)
        return _first(res, failure, keys=())
    if part == "text":
        uni = universe(case["universe"])
        box = [env.Evaluator(), 0]
        check_text(tuple(T(o) for o in case["history"]), case["mode"], case["default"], uni, res, box)
        env.core_var("global-hierarchy").bind_root(env.core_fn("make-hierarchy")())
        return _first(res, failure)
    if part == "equivariance":
        a, b_ = case["a"], case["b"]
        uni = universe(a["universe"])
        outs = []
        keys = []
        for c in (a, b_):
            methods, prefs, edges = _problem(c)
            key, maps = M.canon_problem(methods, prefs, edges, T(c["probe"]), uni["kws"])
            got = _answer(c)
            outs.append(M.canon_outcome(got if got[0] == "ok" else ("err",), maps))
            keys.append(key)
        return dict(failure) if keys[0] == keys[1] and outs[0] != outs[1] else None
    return None
