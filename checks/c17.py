"""C17 — compare is a consistent total order; sort / sort-by return the ordered, stable permutation.

Engine C (finite universes): all pairs and triples of a 12-13 element universe per comparable
family, and all permutations of every <=k-subset through every sort entry point.
"""
from __future__ import annotations

import itertools
from decimal import Decimal
from fractions import Fraction

from vlib import env
from vlib.evidence import Result

PROPERTY = "C17"
LEVEL = "model_checking"
BOUNDS = {
    "quick": "pairs+triples of every family universe; all permutations of every <=4-subset through 8 sort entry points",
    "thorough": "pairs+triples; all permutations of every <=6-subset of every family through 6 sort entry points",
}
RULE = (
    "engine C: per family (numbers, strings, keywords, symbols, vectors; nil added) every ordered pair and triple of the "
    "universe is compared; every permutation of every <=k-subset is sorted through sort, sort with compare, sort with a boolean "
    "< comparator, sort with a 3-way fn, sort-by identity and sort-by with a tie-creating key; a case is distinct by (family, "
    "entry point, input tuple); non-trivial = at least two elements"
)
ASSUMPTIONS = [
    "reference order: Python exact comparison for numbers, code-point order for strings, (ns is None, ns, name) for keywords/symbols among namespaced names, (length, elementwise) for vectors, nil below everything",
    "direction between un-namespaced and namespaced names is not fixed by the property: only consistency is checked there",
    "NaN is outside the families (unordered)",
]


def sgn(n):
    return (n > 0) - (n < 0)


def families():
    from basilisp.lang import keyword as kw, symbol as sym, vector as vec

    nums = [-1, 0, 0.0, 1, 1.0, Fraction(1, 2), 0.5, Decimal(1), 2**64, float(2**64), float("-inf"), float("inf"), 2**64 + 1]
    strs = ["", "a", "b", "ab", "aa", "B", "a b", "é", "中", "b/a", "a/b", "aaa"]
    # namespaces where one is a proper prefix of the other and the longer continues with a character below "/" (".", "-")
    # distinguish ordering by (namespace, name) from ordering by the joined text "ns/name"
    grid = [(ns, n) for ns in (None, "a", "b") for n in ("a", "b", "c")] + [("a", "aa"), ("aa", "a"), ("ab", "b"), ("a.b", "a"), ("a-b", "c"), ("a", "d")]
    kws = [kw.keyword(n, ns=ns) for ns, n in grid]
    syms = [sym.symbol(n, ns=ns) for ns, n in grid]
    v = vec.v
    numvecs = [v(), v(0), v(1), v(1.0), v(0, 1), v(1, 0), v(1, 1), v(0, 0), v(2), v(0, 2), v(None), v(None, 1), v(1, None), v(None, None)]
    nested = [v(), v(v(1)), v(v(0)), v(v()), v(v(0), v(1)), v(v(1), v(0)), v(v(0, 0)), v(v(None)), v(None), v(v(1), None)]
    kwvecs = [v(), v(kws[0]), v(kws[3]), v(kws[4]), v(kws[6]), v(kws[7]), v(kws[3], kws[7]), v(kws[7], kws[3]), v(None), v(kws[3], None)]
    strvecs = [v(), v("a"), v("b"), v("a", "b"), v("b", "a"), v(""), v("", "a"), v(None, "a")]
    # each family is a set of *mutually comparable* values (e.g. [0] and [[1]] are not, and live in different families)
    return {
        "numbers": nums,
        "strings": strs,
        "keywords": kws,
        "symbols": syms,
        "numvectors": numvecs,
        "nestedvectors": nested,
        "kwvectors": kwvecs,
        "strvectors": strvecs,
    }


def ref_key(family, x):
    """Reference sort key defining the expected order among *non-nil* members (None if direction not fixed)."""
    if family == "numbers":
        if isinstance(x, float) and x in (float("inf"), float("-inf")):
            return (1 if x > 0 else -1, 0)
        return (0, Fraction(x))
    if family == "strings":
        return x
    if family in ("keywords", "symbols"):
        return (x.ns is not None, x.ns or "", x.name)
    raise KeyError(family)


def ref_cmp(family, a, b):
    """Expected sign of compare(a,b); None when the property does not fix it."""
    if a is None or b is None:
        return (a is not None) - (b is not None)
    if family in ("numbers", "strings"):
        ka, kb = ref_key(family, a), ref_key(family, b)
        return (ka > kb) - (ka < kb)
    if family in ("keywords", "symbols"):
        if (a.ns is None) != (b.ns is None):
            return None  # mixed un-namespaced / namespaced: consistency only
        ka, kb = ref_key(family, a), ref_key(family, b)
        return (ka > kb) - (ka < kb)
    if family.endswith("vectors"):
        if len(a) != len(b):
            return (len(a) > len(b)) - (len(a) < len(b))
        for x, y in zip(a, b):
            c = ref_cmp_elem(x, y)
            if c != 0:
                return c
        return 0
    raise KeyError(family)


def ref_cmp_elem(x, y):
    from basilisp.lang import keyword as kw, vector as vec

    if x is None or y is None:
        return (x is not None) - (y is not None)
    if isinstance(x, vec.PersistentVector):
        return ref_cmp("vectors", x, y)
    if isinstance(x, kw.Keyword):
        return ref_cmp("keywords", x, y)
    if isinstance(x, str):
        return ref_cmp("strings", x, y)
    return ref_cmp("numbers", x, y)


def show(x):
    from basilisp.lang import runtime

    return runtime.lrepr(x)


def check_pairs(res: Result, family, U, compare, equals):
    n = len(U)
    C = {}
    for i, a in enumerate(U):
        for j, b in enumerate(U):
            res.evaluations += 1
            res.transitions += 1
            try:
                c = compare(a, b)
            except Exception as e:  # noqa
                res.fail("compare-raises", {"family": family, "a": show(a), "b": show(b)}, exc=type(e).__name__, msg=str(e)[:200])
                c = None
            C[i, j] = c
            res.outcomes.add((family, "cmp", c))
            if c is None:
                continue
            if not isinstance(c, int) or isinstance(c, bool):
                res.fail("compare-not-int", {"family": family, "a": show(a), "b": show(b)}, got=repr(c))
                continue
            exp = ref_cmp(family, a, b)
            if exp is not None and sgn(c) != exp:
                res.fail("compare-wrong-sign", {"family": family, "a": show(a), "b": show(b)}, got=c, expected=exp)
            eq = bool(equals(a, b))
            if (c == 0) != eq:
                res.fail("compare-zero-vs-equal", {"family": family, "a": show(a), "b": show(b)}, got=c, equal=eq)
            if i != j:
                res.distinct.add((family, "pair", i, j))
    for i in range(n):
        for j in range(n):
            if C[i, j] is None or C[j, i] is None:
                continue
            if sgn(C[i, j]) != -sgn(C[j, i]):
                res.fail("compare-antisymmetry", {"family": family, "a": show(U[i]), "b": show(U[j])}, ab=C[i, j], ba=C[j, i])
    for i, j, k in itertools.product(range(n), repeat=3):
        res.evaluations += 1
        ab, bc, ac = C[i, j], C[j, k], C[i, k]
        if ab is None or bc is None or ac is None:
            continue
        if len({i, j, k}) == 3:
            res.distinct.add((family, "triple", i, j, k))
        if sgn(ab) <= 0 and sgn(bc) <= 0:
            # a<=b, b<=c => a<=c ; strict if either is strict
            if sgn(ac) > 0 or ((sgn(ab) < 0 or sgn(bc) < 0) and sgn(ac) >= 0):
                res.fail(
                    "compare-transitivity",
                    {"family": family, "a": show(U[i]), "b": show(U[j]), "c": show(U[k])},
                    ab=ab, bc=bc, ac=ac,
                )


def sort_entry_points():
    from basilisp.lang import runtime

    core_sort = env.core_fn("sort")
    core_sort_by = env.core_fn("sort-by")
    compare = env.core_fn("compare")
    identity = env.core_fn("identity")

    def lt(a, b):
        return compare(a, b) < 0

    def three(a, b):
        return compare(a, b) * 7

    eps = {
        "sort": lambda xs, key: core_sort(xs),
        "sort-compare": lambda xs, key: core_sort(compare, xs),
        "sort-bool<": lambda xs, key: core_sort(lt, xs),
        "sort-3way": lambda xs, key: core_sort(three, xs),
        "sort-by-identity": lambda xs, key: core_sort_by(identity, xs),
        "sort-by-tiekey": lambda xs, key: core_sort_by(key, xs),
        "sort-by-tiekey-bool<": lambda xs, key: core_sort_by(key, lt, xs),
        "rt-sort-list": lambda xs, key: runtime.sort(list(xs)),
    }
    return eps


def tie_key(family):
    from basilisp.lang import vector as vec

    if family == "numbers":
        return lambda x: None if x is None else (x > 0) - (x < 0)
    if family == "strings":
        return lambda x: None if x is None else len(x)
    if family in ("keywords", "symbols"):
        return lambda x: None if x is None else x.name
    return lambda x: None if x is None else len(x)


def check_sorts_shard(args):
    family, k, shard, nshards = args
    from basilisp.lang import vector as vec

    res = Result()
    U = families()[family] + [None]
    compare = env.core_fn("compare")
    eps = sort_entry_points()
    key = tie_key(family)
    idx = 0
    for r in range(0, k + 1):
        for comb in itertools.combinations(range(len(U)), r):
            idx += 1
            if idx % nshards != shard:
                continue
            # expected: stable sort of the input by compare (insertion sort using the *implementation's*
            # compare, whose consistency is established by check_pairs) -- no reliance on Python's sorted.
            perms = list(itertools.permutations(comb))
            canonical = {}
            for perm in perms:
                xs = [U[i] for i in perm]
                for name, ep in eps.items():
                    res.evaluations += 1
                    res.transitions += 1
                    if r >= 2:
                        res.distinct_count += 1
                    kf = key if "tiekey" in name else (lambda x: x)
                    try:
                        out = ep(vec.vector(xs), key)
                        out = list(out) if out is not None else []
                    except Exception as e:  # noqa
                        res.fail("sort-raises", {"family": family, "entry": name, "input": [show(x) for x in xs]}, exc=type(e).__name__, msg=str(e)[:200])
                        continue
                    # permutation (by identity of the universe members)
                    # permutation: match each output object (by identity) to an unused input index
                    unused = list(perm)
                    ids_out = []
                    okperm = True
                    for o in out:
                        for t in unused:
                            if U[t] is o:
                                unused.remove(t)
                                ids_out.append(t)
                                break
                        else:
                            okperm = False
                            break
                    if not okperm or unused:
                        res.fail("sort-not-permutation", {"family": family, "entry": name, "input": [show(x) for x in xs]}, got=[show(o) for o in out])
                        continue
                    # ordered + stable
                    bad = None
                    for p, q in zip(ids_out, ids_out[1:]):
                        try:
                            c = compare(kf(U[p]), kf(U[q]))
                        except Exception:
                            c = None
                        if c is None:
                            continue
                        if c > 0:
                            bad = ("unordered", p, q)
                            break
                        if c == 0 and perm.index(p) > perm.index(q):
                            bad = ("unstable", p, q)
                            break
                    if bad:
                        res.fail(
                            "sort-" + bad[0],
                            {"family": family, "entry": name, "input": [show(x) for x in xs]},
                            got=[show(o) for o in out],
                            pair=[show(U[bad[1]]), show(U[bad[2]])],
                        )
                        continue
                    res.outcomes.add((family, name, tuple(ids_out)))
                    # independence of input order when all keys are distinct under compare
                    sig = tuple(ids_out)
                    distinct_keys = True
                    for p, q in itertools.combinations(perm, 2):
                        try:
                            if compare(kf(U[p]), kf(U[q])) == 0:
                                distinct_keys = False
                                break
                        except Exception:
                            distinct_keys = False
                            break
                    if distinct_keys:
                        prev = canonical.setdefault(name, (sig, xs))
                        if prev[0] != sig:
                            res.fail(
                                "sort-depends-on-input-order",
                                {"family": family, "entry": name, "input": [show(x) for x in xs]},
                                got=[show(o) for o in out],
                                other_input=[show(x) for x in prev[1]],
                                other_result=[show(U[i]) for i in prev[0]],
                            )
            if r >= 2 and len(res.samples) < 2 and shard == 0:
                res.sample({"family": family, "input": [show(U[i]) for i in perms[-1]], "sorted": [show(x) for x in (eps["sort"](vec.vector([U[i] for i in perms[-1]]), key) or [])]})
    res.part(f"sort/{family}", subsets_max=f"<={k}", evaluations=res.evaluations)
    return res.compact()


def run(tier, seed):
    res = Result()
    compare = env.core_fn("compare")
    equals = env.core_fn("=")
    fams = families()
    for family, U in fams.items():
        check_pairs(res, family, U + [None], compare, equals)
        res.part(f"compare/{family}", universe=len(U) + 1, pairs=(len(U) + 1) ** 2, triples=(len(U) + 1) ** 3)
    res.sample({"family": "keywords", "pair": [show(fams["keywords"][3]), show(fams["keywords"][7])], "compare": compare(fams["keywords"][3], fams["keywords"][7])})
    shards = []
    nsh = 8
    for family in fams:
        if tier == "quick":
            k = 4
        else:
            k = 6
        for s in range(nsh):
            shards.append((family, k, (s + seed) % nsh, nsh))
    for r in env.parallel(check_sorts_shard, shards):
        res.merge(r)
    return res


def replay(failure):
    """Re-execute one failing case from its printed form."""
    case = failure["case"]
    family = case["family"]
    U = families()[family] + [None]
    by = {show(x): x for x in U}
    compare = env.core_fn("compare")
    equals = env.core_fn("=")
    r = Result()
    if failure["kind"].startswith("compare"):
        vals = [by[case[k]] for k in ("a", "b", "c") if k in case]
        check_pairs(r, family, vals, compare, equals)
        for f in r.failures:
            if f["kind"] == failure["kind"]:
                return f
        return None
    # sorts: re-run the one entry point on the one input
    from basilisp.lang import vector as vec

    eps = sort_entry_points()
    xs = [by[s] for s in case["input"]]
    key = tie_key(family)
    try:
        out = eps[case["entry"]](vec.vector(xs), key)
        out = [show(o) for o in (out or [])]
    except Exception as e:  # noqa
        return {"kind": "sort-raises", "exc": type(e).__name__} if failure["kind"] == "sort-raises" else None
    if failure["kind"] == "sort-raises":
        return None
    return dict(failure) if out == failure.get("got") else None
