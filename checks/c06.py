"""C06 — lazy sequences realize each element once, only on demand, safely shared.

Part 1 (engine B, single thread): every consumption history up to a length over sequences built by lazy-seq
       chains, map, filter, concat, iterate, take/drop and seqs over Python iterators, on instrumented sources;
       the same with a producer that throws (once or always) at every source index.
Part 2 (engine A + guarded hook H1): every schedule up to a preemption bound of 2-3 consumer threads on one shared
       lazy seq whose producers are pure / yield / throw once / touch their own sequence.
Part 3 (free-running, watchdog): the production wait path (cell mutex x GIL) is driven with forced thread orders in a
       child process; a whole-interpreter freeze is detected by a heartbeat watchdog.
All on the native module built from /repo/rust.
"""
from __future__ import annotations

import itertools
import json
import os
import subprocess
import sys
import time

from vlib import env, sched
from vlib.evidence import Result

PROPERTY = "C06"
LEVEL = "model_checking"
BOUNDS = {
    "quick": "part 1: all histories of length <=3 over 9 operations from every handle, 7 builders x source lengths 0..3 (+ infinite), and 9 builders x lengths 2..3 x a producer throwing (once | always) at every source index; part 2: 8 scenarios, preemption bound 3 (2 for 3 threads); part 3: 90 forced-order scenarios (6 shapes incl. an inner lazy seq shared between a direct consumer and an outer cell x 3 ways of releasing the GIL x 5 operations)",
    "thorough": "part 1: length <=5 (<=4 with throwing producers); part 2: preemption bound 4 (3 for 3 threads); part 3: 180 scenarios (x 10 operations)",
}
RULE = (
    "part 1: breadth-first over histories of (handle, operation) on real lazy seqs with instrumented producers; part 2: every schedule within the bound on real threads "
    "(scheduling points: explicit yields in producers, every contended acquisition of a cell lock through the guarded hook, operation boundaries); part 3: forced "
    "orders on free-running threads; distinct = (builder, source, history | schedule | scenario); non-trivial = at least two operations touching the same cell"
)
ASSUMPTIONS = [
    "reference: a lazy seq over a list of elements; first/rest/seq at position p demand cell p, next demands p and p+1, nth k demands p+k, count/doall demand everything; the highest source index produced must not exceed the highest demanded",
    "re-running a producer that THREW is allowed (no run has returned); later consumption may raise again or yield the reference elements, never a different sequence",
    "native code is atomic between call-backs into Python: scheduling points inside the Rust module exist only at contended cell locks (guarded hook) and inside producers",
]

# ----------------------------------------------------------------------------- instrumented sources / builders


class Src:
    """elements 0..n-1 (or infinite); counts how often each index was produced and remembers the highest index"""

    def __init__(self, n, throw_at=None, throw_times=1):
        self.n = n
        self.count = {}
        self.throws = {}
        self.throw_at = throw_at
        self.throw_left = throw_times
        self.hook = None  # called inside every producer (scheduling point / self-touch)

    def elem(self, i):
        return ("e", i)

    def produce(self, i):
        self.count[i] = self.count.get(i, 0) + 1
        if self.hook:
            self.hook(i)
        if self.throw_at == i and self.throw_left > 0:
            self.throw_left -= 1
            self.throws[i] = self.throws.get(i, 0) + 1
            raise Boom(i)

    @property
    def high(self):
        return max(self.count) if self.count else -1


class Boom(Exception):
    pass


def chain(src, i=0):
    """hand-rolled (lazy-seq (cons e_i (chain i+1))): producer i runs when cell i is realized"""
    from basilisp.lang import seq as lseq

    def gen():
        src.produce(i)
        if src.n is not None and i >= src.n:
            return None
        return lseq.Cons(src.elem(i), chain(src, i + 1))

    return lseq.LazySeq(gen)


class ClassIter:
    """a Python iterator that is NOT a generator: a producer that throws leaves it usable (a generator would be finished for
    good by the exception, which is Python's rule, not basilisp's)"""

    def __init__(self, s):
        self.s, self.i = s, 0

    def __iter__(self):
        return self

    def __next__(self):
        s = self.s
        s.produce(self.i)
        if s.n is not None and self.i >= s.n:
            raise StopIteration
        self.i += 1
        return s.elem(self.i - 1)


def build(kind, n, throw=None):
    """-> (seq, src, expected elements (list or None for infinite), demand_fn: position -> highest source index needed to know cell p)
    throw = (source index whose producer throws, how many times) or None"""
    core = env.core_fn
    if throw is not None:
        return _build_throwing(kind, n, throw)
    if kind == "chain":
        s = Src(n)
        return chain(s), s, _els(n), lambda p: p
    if kind == "map":
        s = Src(n)
        f = lambda x: ("m", x)  # noqa
        return core("map")(f, chain(s)), s, [("m", e) for e in _els(n)] if n is not None else None, lambda p: p
    if kind == "filter":
        s = Src(n)
        pred = lambda x: x[1] % 2 == 1  # noqa  keeps odd indices
        exp = [e for e in _els(n) if e[1] % 2 == 1] if n is not None else None
        # to know filtered cell p we need source index 2p+1 (or the end of the source)
        return core("filter")(pred, chain(s)), s, exp, lambda p: 2 * p + 1
    if kind == "concat":
        s = Src(n)
        s2 = Src(1)
        # second part has one element produced by a separate source; demand on s: position p needs cell p of s (or its end)
        return core("concat")(chain(s), chain(s2)), s, (_els(n) + [("e", 0)]) if n is not None else None, lambda p: p
    if kind == "pyiter":
        s = Src(n)

        def it():
            i = 0
            while s.n is None or i < s.n:
                s.produce(i)
                yield s.elem(i)
                i += 1
            s.produce(i)

        return core("iterator-seq")(it()), s, _els(n), lambda p: p
    if kind == "iterate":
        s = Src(None)

        def f(x):
            s.produce(x[1] + 1)  # producing element i+1
            return ("e", x[1] + 1)

        # element 0 is given; cell p needs f applied p times: source index p
        s.count[0] = 1
        return core("iterate")(f, ("e", 0)), s, None, lambda p: p
    if kind == "take-drop":
        s = Src(n)
        exp = _els(n)[1:3] if n is not None else [("e", 1), ("e", 2)]
        # (take 2 (drop 1 chain)): cell p needs source index p+1; take never looks past its last element
        return core("take")(2, core("drop")(1, chain(s))), s, exp, lambda p: p + 1
    raise ValueError(kind)


def _build_throwing(kind, n, throw):
    core = env.core_fn
    s = Src(n, throw_at=throw[0], throw_times=throw[1])
    if kind == "chain":
        return chain(s), s, _els(n), lambda p: p
    if kind == "map":
        return core("map")(lambda x: ("m", x), chain(s)), s, [("m", e) for e in _els(n)] if n is not None else None, lambda p: p
    if kind == "filter":
        exp = [e for e in _els(n) if e[1] % 2 == 1] if n is not None else None
        return core("filter")(lambda x: x[1] % 2 == 1, chain(s)), s, exp, lambda p: 2 * p + 1
    if kind == "concat":
        return core("concat")(chain(s), chain(Src(1))), s, (_els(n) + [("e", 0)]) if n is not None else None, lambda p: p
    if kind == "concat2":
        # the throwing producer is in the SECOND part; the first part is a one-element vector: position p needs index p-1 of s
        from basilisp.lang import vector as vec

        return core("concat")(vec.v(("v", 0)), chain(s)), s, ([("v", 0)] + _els(n)) if n is not None else None, lambda p: p - 1
    if kind == "mapcat":
        # (mapcat (fn [x] [x x]) chain): position p needs source index p // 2
        from basilisp.lang import vector as vec

        exp = [e for e in _els(n) for _ in (0, 1)] if n is not None else None
        from basilisp.lang import seq as lseq

        # mapcat is `apply concat`, which looks at the head of its argument when called: defer the call itself
        return lseq.LazySeq(lambda: core("mapcat")(lambda x: vec.v(x, x), chain(s))), s, exp, None
    if kind == "pyiter":
        return core("iterator-seq")(ClassIter(s)), s, _els(n), lambda p: p
    if kind == "iterate":
        s.n = None

        def f(x):
            s.produce(x[1] + 1)
            return ("e", x[1] + 1)

        s.count[0] = 1
        return core("iterate")(f, ("e", 0)), s, None, lambda p: p
    if kind == "take-drop":
        exp = _els(n)[1:3] if n is not None else [("e", 1), ("e", 2)]
        return core("take")(2, core("drop")(1, chain(s))), s, exp, lambda p: p + 1
    raise ValueError(kind)


THROW_KINDS = ["chain", "map", "filter", "concat", "concat2", "mapcat", "pyiter", "iterate", "take-drop"]


def op_demand(op, p):
    """highest position an operation applied at position p may have to know (None: none / everything)"""
    return {"first": p, "rest": p, "next": p + 1, "seq": p, "nth1": p + 1, "take2": p + 1, "iter2": p + 1}.get(op)


def _els(n):
    return [("e", i) for i in range(n)] if n is not None else None


# ----------------------------------------------------------------------------- part 1: histories

OPS = ["first", "rest", "next", "seq", "nth1", "realized?", "take2", "iter2", "count"]


def apply_op(op, h):
    """h = (object, position) ; returns (kind, payload) where kind in value|handle|none"""
    core = env.core_fn
    obj, p = h
    if op == "first":
        return "value", core("first")(obj), p
    if op == "rest":
        return "handle", (core("rest")(obj), p + 1), p
    if op == "next":
        r = core("next")(obj)
        return ("handle", (r, p + 1), p + 1) if r is not None else ("nil-handle", None, p + 1)
    if op == "seq":
        r = core("seq")(obj)
        return ("handle", (r, p), p) if r is not None else ("nil-handle", None, p)
    if op == "nth1":
        return "value-nth", core("nth")(obj, 1, "NF"), p + 1
    if op == "realized?":
        if hasattr(obj, "is_realized"):
            return "bool", bool(core("realized?")(obj)), None
        return "skip", None, None
    if op == "take2":
        return "values", list(core("doall")(core("take")(2, obj))), p + 1
    if op == "iter2":
        out = []
        for x in obj:
            out.append(x)
            if len(out) == 2:
                break
        return "values", out, p + 1 + 0
    if op == "count":
        return "count", core("count")(obj), None
    raise ValueError(op)


def run_history(kind, n, hist, res, throw=None):
    """hist: list of (handle_index, op). Re-built from scratch (live lazy seqs do not copy).
    throw = (source index, times): that producer throws Boom that many times.  An operation may then raise Boom (only if it
    demands a position that needs the throwing producer); an operation that returns must return what the reference sequence
    holds (a producer that threw may be re-run; the sequence may never end early or change)."""
    s, src, exp, need = build(kind, n, throw)
    handles = [(s, 0)]
    demanded = -1  # highest *position* whose cell some operation had to know
    case = {"part": 1, "builder": kind, "n": n, "history": [[i, op] for i, op in hist]}
    if throw is not None:
        case["throw"] = list(throw)

    def elem_at(p):
        if exp is None:  # infinite source
            return {"map": ("m", ("e", p)), "filter": ("e", 2 * p + 1), "take-drop": ("e", p + 1)}.get(kind, ("e", p))
        return exp[p] if p < len(exp) else None

    def exists(p):
        return exp is None or p < len(exp)

    for hi, op in hist:
        if hi >= len(handles):
            return False  # history not applicable (handle does not exist)
        h = handles[hi]
        if h is None:
            return False
        obj, p = h
        if op == "count" and exp is None:
            return False
        boom = False
        try:
            kind_, payload, dem = apply_op(op, h)
        except Boom as e:
            if throw is None:
                res.fail("operation-raises", case, op=op, exc="Boom", msg=str(e)[:120])
                return True
            boom = True
            d_op = op_demand(op, p)
            reach = None if (d_op is None or need is None) else need(d_op)
            if kind == "take-drop" and d_op is not None:
                reach = min(reach, 2)  # take 2 never looks past source index 2
            if e.args != (throw[0],) or (reach is not None and reach < throw[0]):
                res.fail("exception-not-from-a-demanded-producer", case, op=op, position=p, exc=repr(e), reach=reach)
                return True
            kind_, payload, dem = "boom", None, d_op
            if op in ("rest", "next", "seq"):
                handles.append(None)  # the handle this operation would have created does not exist
        except Exception as e:  # noqa
            res.fail("operation-raises", case, op=op, exc=type(e).__name__, msg=str(e)[:120])
            return True
        res.transitions += 1
        if kind_ == "skip":
            return False
        if dem is not None:
            demanded = max(demanded, dem)
        if op == "count":
            demanded = 10**6
        ok = True
        if boom:
            res.outcomes.add((kind, "boom", op))
        elif kind_ == "value":
            ok = payload == (elem_at(p) if exists(p) else None)
        elif kind_ == "value-nth":
            ok = payload == (elem_at(p + 1) if exists(p + 1) else "NF")
        elif kind_ == "values":
            want = [elem_at(q) for q in (p, p + 1) if exists(q)]
            ok = payload == want
            if op == "iter2" and len(want) == 2:
                pass
        elif kind_ == "count":
            ok = payload == max(0, len(exp) - p)
        elif kind_ == "handle":
            handles.append(payload)
            if op == "next" or op == "seq":
                ok = exists(payload[1])
        elif kind_ == "nil-handle":
            handles.append(None)
            ok = not exists(dem)
        elif kind_ == "bool":
            pass
        if not ok:
            res.fail("consumer-sees-wrong-elements", case, op=op, position=p, got=repr(payload)[:120])
            return True
        # at most once
        multi = {i: c for i, c in src.count.items() if c - src.throws.get(i, 0) > 1}
        if multi:
            res.fail("producer-ran-more-than-once", case, counts={str(k): v for k, v in multi.items()})
            return True
        # demand bound: highest source index produced <= index needed for the deepest demanded position
        if need is not None and (demanded >= 0 or src.high >= 0):
            limit = need(demanded) if demanded >= 0 else -1
            if kind == "iterate":
                limit = max(limit, 0)
            if src.n is not None:
                limit = min(limit, src.n)  # the end-of-source probe is index n
            if src.high > limit:
                res.fail("computed-beyond-demand", case, op=op, highest_produced=src.high, allowed=limit, demanded_position=demanded)
                return True
    return True


def part1_shard(args):
    shard, nshards, depth = args
    res = Result()
    combos = []
    for kind in ["chain", "map", "filter", "concat", "pyiter", "iterate", "take-drop"]:
        ns = [None] if kind == "iterate" else [0, 1, 2, 3, None]
        for n in ns:
            combos.append((kind, n, None))
    # producers that throw: once (a retry succeeds) or every time; at every source index up to the end-of-source probe
    tdepth = min(depth, 4)
    for kind in THROW_KINDS:
        for n in ([3] if kind == "iterate" else [2, 3]):
            for at in range(0, n + 1):
                if kind == "iterate" and at == 0:
                    continue  # element 0 is given, not produced
                for times in (1, 10**9):
                    combos.append((kind, n, (at, times)))
    idx = 0
    for kind, n, throw in combos:
        # breadth-first over histories; a history is extended only if it was applicable
        frontier = [[]]
        for d in range(depth if throw is None else tdepth):
            nxt = []
            for hist in frontier:
                nh = 1 + sum(1 for _, op in hist if op in ("rest", "next", "seq"))
                for hi in range(nh):
                    for op in OPS:
                        idx += 1
                        h2 = hist + [(hi, op)]
                        if idx % nshards != shard:
                            # still need to know applicability to extend: cheap re-run is avoided by extending blindly
                            nxt.append(h2)
                            continue
                        r0 = Result()
                        applicable = run_history(kind, n, h2, r0, throw)
                        if applicable:
                            res.evaluations += 1
                            res.transitions += r0.transitions
                            if len(h2) >= 2:
                                res.distinct_count += 1
                            res.failures.extend(r0.failures)
                            res.outcomes.add((kind, bool(r0.failures)))
                            res.outcomes |= r0.outcomes
                        nxt.append(h2)
            frontier = nxt if d + 1 < (depth if throw is None else tdepth) else []
    res.part(f"1/depth<={depth}", builders=len(combos), throwing_builders=sum(1 for c in combos if c[2]), throwing_depth=tdepth)
    return res.compact()


# ----------------------------------------------------------------------------- part 2: schedules


def lock_wait_hook(addr):
    """called by the native module (guard on) when a LazySeq cell lock is held by another thread"""
    s = sched.CURRENT
    if s is None or not sched.active():
        time.sleep(0.0005)
        return
    me = sched.current_tid()
    mark = len(s.ex.trace)
    # fair yield: this thread is not offered again until some OTHER thread has made real progress (a step that is not
    # itself a failed lock attempt); otherwise two waiters would keep enabling each other while the holder starves
    s.yield_point("lazyseq.lock-wait", blocked_on=lambda: any(t != me and l != "lazyseq.lock-wait" for t, l in s.ex.trace[mark:]))


def install_hook():
    import basilisp._lang as native

    native.seq._verif_set_lock_wait_hook(lock_wait_hook)


SCENARIOS = {
    # name: (source length, producer behaviour, per-thread op lists)
    "2x-first-rest": (2, "yield", [["first", "rest-first"], ["first", "rest-first"]]),
    "2x-vec": (2, "yield", [["vec"], ["vec"]]),
    "count-vs-walk": (3, "yield", [["count"], ["first", "next-first", "vec"]]),
    "3x-vec": (2, "yield", [["vec"], ["vec"], ["first"]]),
    "throw-once": (2, "throw1", [["vec"], ["vec"]]),
    "throw-once-3": (2, "throw0", [["first"], ["vec"], ["count"]]),
    "self-touch": (3, "self", [["vec"], ["first", "vec"]]),
    "pure-iter": (3, "pure", [["iter"], ["iter"]]),
}


def scenario_factory(name):
    n, behaviour, threads = SCENARIOS[name]
    core = env.core_fn

    def make(s):
        throw_at = {"throw1": 1, "throw0": 0}.get(behaviour)
        src = Src(n, throw_at=throw_at)
        head = chain(src)
        if behaviour == "yield":
            src.hook = lambda i: (sched.yield_point(f"producer:{i}:a"), sched.yield_point(f"producer:{i}:b"))
        elif behaviour.startswith("throw"):
            src.hook = lambda i: sched.yield_point(f"producer:{i}")
        elif behaviour == "self":
            # producer of cell i>0 looks at the already realized prefix of its own sequence (co-recursive shape)
            def hook(i):
                sched.yield_point(f"producer:{i}")
                if i > 0:
                    core("first")(head)

            src.hook = hook
        obs = []

        def op_run(op):
            if op == "first":
                return core("first")(head)
            if op == "rest-first":
                return core("first")(core("rest")(head))
            if op == "next-first":
                return core("first")(core("next")(head))
            if op == "vec":
                return list(core("vec")(head))
            if op == "count":
                return core("count")(head)
            if op == "iter":
                return [x for x in head]
            raise ValueError(op)

        def body(tid, ops):
            def run():
                for op in ops:
                    sched.yield_point(f"op:{op}")
                    try:
                        r = ("ok", op_run(op))
                    except sched.Abort:
                        raise
                    except Boom:
                        r = ("boom",)
                    except Exception as e:  # noqa
                        r = ("exc", type(e).__name__, str(e)[:80])
                    obs.append((tid, op, r))
            return run

        for tid, ops in enumerate(threads):
            s.spawn(body(tid, ops))
        return (src, obs, n, behaviour)

    return make


def expected_for(op, n):
    els = [("e", i) for i in range(n)]
    return {"first": els[0] if n else None, "rest-first": els[1] if n > 1 else None, "next-first": els[1] if n > 1 else None,
            "vec": els, "count": n, "iter": els}[op]


def build_explorer(spec, res):
    name, bound = spec
    make = scenario_factory(name)

    def check(ex, ctx):
        src, obs, n, behaviour = ctx
        res.evaluations += 1
        res.transitions += ex.steps
        if sum(sched.Execution.point_cost(p) for p in ex.points):
            res.distinct_count += 1
        case = {"part": 2, "scenario": name, "choices": list(ex.choices), "bound": bound}
        if ex.outcome != "ok":
            res.fail("schedule-" + ex.outcome, case, detail=ex.detail[:300])
            return
        nops = sum(len(t) for t in SCENARIOS[name][2])
        if len(obs) != nops:
            res.fail("operation-did-not-complete", case, completed=len(obs), expected=nops, results={str(k): str(v) for k, v in ex.results.items()})
            return
        res.outcomes.add((name, tuple(sorted((op, r[0]) for _, op, r in obs)), tuple(sorted(src.count.items()))))
        booms = 0
        for tid, op, r in obs:
            if r[0] == "boom":
                booms += 1
                continue
            if r[0] != "ok":
                res.fail("consumer-raises", case, op=op, result=list(map(str, r)))
                return
            if r[1] != expected_for(op, n):
                res.fail("consumer-sees-wrong-elements", case, thread=tid, op=op, got=repr(r[1])[:160], expected=repr(expected_for(op, n))[:160])
                return
        throws = 1 if behaviour.startswith("throw") else 0
        if booms and not throws:
            res.fail("unexpected-producer-exception", case)
        for i, c in src.count.items():
            allowed = 1 + (throws if i == src.throw_at else 0)
            if c > allowed:
                res.fail("producer-ran-more-than-once", case, index=i, runs=c, allowed=allowed)
                return

    kw = dict(trace_files=(), spin_limit=None, horizon=4000)
    return sched.Explorer(make, check, bound, kw)


# ----------------------------------------------------------------------------- part 3: free-running GIL x mutex

PART3_CHILD = r'''
import sys, threading, time, json, os
sys.path.insert(0, sys.argv[1])
from vlib import env
env.bootstrap()
from basilisp.lang import seq as lseq
core = env.core_fn
n_scen = int(sys.argv[2])
ways = {
  "event": lambda ev: ev.wait(2.0),
  "sleep": lambda ev: time.sleep(0.05),
  "cpu": lambda ev: sum(i*i for i in range(300000)),
}
opsB = ["first", "rest", "next", "seq", "count", "vec", "is_realized", "iter", "with_meta", "nth"]
shapes = ["direct", "nested-lazy", "shared-inner", "shared-inner-rev", "pyiter", "concat"]
import itertools
# n_scen = number of B operations used (a prefix of opsB): every shape x way is covered in both tiers
scen = list(itertools.product(shapes, ways, opsB[:n_scen]))
sys.setswitchinterval(1e-5)
print(json.dumps({"ready": True}), flush=True)
for k, (shape, way, opb) in enumerate(scen):
    entered, release = threading.Event(), threading.Event()
    def producer():
        entered.set()
        ways[way](release)
        return lseq.Cons(1, lseq.LazySeq(lambda: lseq.Cons(2, None)))
    if shape == "direct":
        s = lseq.LazySeq(producer)
    elif shape == "nested-lazy":
        s = lseq.LazySeq(lambda: lseq.LazySeq(producer))
    elif shape == "pyiter":
        def gen():
            entered.set(); ways[way](release); yield 1; yield 2
        s = core("iterator-seq")(gen())
    elif shape == "shared-inner":
        # the producer's seq is reachable on its own AND is what another lazy seq's producer returns:
        # A realizes it directly, B comes in through the outer cell (and must wait for the inner cell's lock)
        sA = lseq.LazySeq(producer)
        s = lseq.LazySeq(lambda sA=sA: sA)
    elif shape == "shared-inner-rev":
        s = lseq.LazySeq(producer)
        sA = lseq.LazySeq(lambda s=s: s)
    else:
        s = core("concat")(lseq.LazySeq(producer), [3])
    if not shape.startswith("shared-inner"):
        sA = s
    out = {}
    def A(sA=sA):
        out["A"] = list(core("take")(2, sA))
    def B():
        entered.wait(5)
        f = {"first": lambda: core("first")(s), "rest": lambda: core("first")(core("rest")(s)), "next": lambda: core("first")(core("next")(s)),
             "seq": lambda: core("first")(core("seq")(s)), "count": lambda: core("count")(s), "vec": lambda: list(core("vec")(s)),
             "is_realized": lambda: s.is_realized if hasattr(s, "is_realized") else None, "iter": lambda: [x for x in s],
             "with_meta": lambda: core("first")(core("with-meta")(s, None)), "nth": lambda: core("nth")(s, 1)}[opb]
        out["B"] = f()
    ta, tb = threading.Thread(target=A, daemon=True), threading.Thread(target=B, daemon=True)
    ta.start(); tb.start()
    time.sleep(0.01)
    release.set()
    ta.join(15); tb.join(15)
    print(json.dumps({"k": k, "scenario": [shape, way, opb], "alive": [ta.is_alive(), tb.is_alive()], "A": repr(out.get("A")), "B": repr(out.get("B"))}), flush=True)
print(json.dumps({"done": True}), flush=True)
'''


def part3(args):
    (n_scen,) = args
    res = Result()
    envv = dict(os.environ)
    envv.pop("BASILISP_LANG_BASILISP_VERIF", None)  # the production wait path, no hook
    envv["VERIF_REPO"] = str(env.REPO)
    p = subprocess.Popen([sys.executable, "-c", PART3_CHILD, str(env.VERIF), str(n_scen)], stdout=subprocess.PIPE, stderr=subprocess.DEVNULL, text=True, env=envv)
    import select

    def cpu_ticks():
        try:
            f = open(f"/proc/{p.pid}/stat").read().rsplit(")", 1)[1].split()
            return int(f[11]) + int(f[12])  # utime + stime of the whole process (all threads)
        except Exception:
            return -1

    last = None
    done = False
    ready = False
    ticks = cpu_ticks()
    while True:
        # Between two scenario reports at most ~35 s can pass on a live interpreter (two joins of 15 s); the window is 60 s,
        # stretched by the machine's oversubscription so that a slow child is not mistaken for a frozen one.
        over = max(1.0, os.getloadavg()[0] / (os.cpu_count() or 1))
        r, _, _ = select.select([p.stdout], [], [], 60.0 * min(over, 10.0))
        if not r:
            now = cpu_ticks()
            if not ready and now >= 0 and ticks >= 0 and now - ticks >= 20:
                # still bootstrapping (single-threaded, CPU-bound): consuming CPU means alive.  Not usable once the scenario
                # threads exist: threads waiting for a GIL that is never released wake up every switch interval.
                ticks = now
                continue
            # the interpreter is frozen (a thread blocked on the cell mutex while holding the GIL)
            p.kill()
            res.fail("whole-interpreter-freeze", {"part": 3, "after_scenario": last}, detail="no heartbeat for 60 s (x oversubscription factor)")
            break
        ticks = cpu_ticks()
        line = p.stdout.readline()
        if not line:
            break
        try:
            d = json.loads(line)
        except Exception:
            continue
        if d.get("done"):
            done = True
            break
        if d.get("ready"):
            ready = True
            continue
        last = d["scenario"]
        res.evaluations += 1
        res.transitions += 2
        res.distinct_count += 1
        res.outcomes.add((d["A"], d["B"][:20]))
        if any(d["alive"]):
            res.fail("consumer-thread-stuck", {"part": 3, "scenario": d["scenario"]}, alive=d["alive"])
        elif d["A"] != "[1, 2]":
            res.fail("consumer-sees-wrong-elements", {"part": 3, "scenario": d["scenario"]}, got=d["A"])
    p.wait(timeout=30) if p.poll() is None and done else None
    if p.poll() is None:
        p.kill()
    if not done and not res.failures:
        res.fail("part3-child-died", {"part": 3, "after_scenario": last}, returncode=p.returncode)
    res.part("3/forced-orders", scenarios=res.evaluations)
    return res.compact()


# ----------------------------------------------------------------------------- run


def run(tier, seed):
    res = Result()
    install_hook()
    depth = 3 if tier == "quick" else 5
    nsh = 16 if tier == "quick" else 64
    jobs1 = [((s + seed) % nsh, nsh, depth) for s in range(nsh)]
    # part 3 runs in its own child process concurrently with part 1
    import threading

    box = {}
    t3 = threading.Thread(target=lambda: box.setdefault("r", part3((5 if tier == "quick" else 10,))))
    t3.start()
    for r in env.parallel(part1_shard, jobs1):
        res.merge(r)
    quick = tier == "quick"
    specs = []
    for name, (n, beh, threads) in SCENARIOS.items():
        b = (2 if len(threads) >= 3 else 3) if quick else (3 if len(threads) >= 3 else 4)
        specs.append((name, b))
    for r in sched.staged_explore(env, specs, build_explorer, Result):
        res.merge(r)
    t3.join()
    res.merge(box["r"])
    E = build_explorer(specs[0], Result())
    ex, ctx = E.run_one([])
    res.sample({"part": 2, "scenario": specs[0][0], "schedule": "default", "trace": [f"t{t}:{l}" for t, l in ex.trace[:20]], "producer_runs": {str(k): v for k, v in ctx[0].count.items()}})
    res.part("2", scenarios=len(specs), bounds=str(dict(specs)))
    return res


def replay(failure):
    install_hook()
    case = failure["case"]
    if case["part"] == 1:
        r = Result()
        run_history(case["builder"], case["n"], [tuple(x) for x in case["history"]], r, tuple(case["throw"]) if case.get("throw") else None)
        for f in r.failures:
            if f["kind"] == failure["kind"]:
                return f
        return None
    if case["part"] == 2:
        r = Result()
        E = build_explorer((case["scenario"], case["bound"]), r)
        ex, ctx = E.run_one(case["choices"])
        E.check(ex, ctx)
        for f in r.failures:
            if f["kind"] == failure["kind"]:
                return f
        return None
    r = part3((10,))
    for f in r.failures:
        if f["kind"] == failure["kind"]:
            return f
    return None
