"""C05 — equality is an equivalence that hashing and lookup respect.

Engine C: all ordered pairs and triples of a universe built to contain equal values of different
representation; reference equality on hand-written structural models.
"""
from __future__ import annotations

import itertools
import math
from decimal import Decimal
from fractions import Fraction

from vlib import env
from vlib.evidence import Result

PROPERTY = "C05"
LEVEL = "model_checking"
BOUNDS = {
    "quick": "all ordered pairs (4 equality entry points, hash, 6 lookup/dedup forms) and all triples of the ~90-value universe",
    "thorough": "same universe plus one further nesting level (every value wrapped in vector / list / map value / set element / map key): pairs and triples",
}
RULE = (
    "engine C: universe of values with equal contents in different representations (vector/list/cons/lazy seq/queue/map entry/seq/range, "
    "int/float/ratio/decimal, booleans, nil, NaN, strings/symbols/keywords, maps/records, sets, nested one level); every ordered pair is "
    "compared through =, not=, runtime.equals and Python ==, hashed, and used as key / member against the other; every triple is checked for "
    "transitivity; distinct = unordered pair of different universe entries; non-trivial = the two entries have different representation"
)
ASSUMPTIONS = [
    "reference equality on structural models: numbers by exact value (documented Python semantics of =), booleans only equal to themselves, sequentials pairwise in order, maps/sets by entries, different categories unequal; record-vs-map pairs are checked for consistency only",
    "values containing NaN are exempt from reflexivity and lookup expectations",
]

# (label, lisp text, model)
N = lambda v: ("num", v)  # noqa
B = lambda v: ("bool", v)  # noqa
NIL = ("nil",)
S = lambda *xs: ("seq", list(xs))  # noqa
M = lambda *kvs: ("map", [(kvs[i], kvs[i + 1]) for i in range(0, len(kvs), 2)])  # noqa
SET = lambda *xs: ("set", list(xs))  # noqa
K = lambda s: ("kw", s)  # noqa
SY = lambda s: ("sym", s)  # noqa
ST = lambda s: ("str", s)  # noqa
NAN = ("num", float("nan"))

BASE = [
    # sequentials with elements 1 2
    ("vec12", "[1 2]", S(N(1), N(2))),
    ("list12", "'(1 2)", S(N(1), N(2))),
    ("cons12", "(cons 1 '(2))", S(N(1), N(2))),
    ("cons12v", "(cons 1 [2])", S(N(1), N(2))),
    ("map12", "(map identity [1 2])", S(N(1), N(2))),
    ("lazy12", "(lazy-seq [1 2])", S(N(1), N(2))),
    ("lazycons12", "(lazy-seq (cons 1 (lazy-seq (cons 2 nil))))", S(N(1), N(2))),
    ("seq12", "(seq [1 2])", S(N(1), N(2))),
    ("queue12", "#queue (1 2)", S(N(1), N(2))),
    ("entry12", "(first {1 2})", S(N(1), N(2))),
    ("rest012", "(rest [0 1 2])", S(N(1), N(2))),
    ("subvec12", "(subvec [0 1 2] 1)", S(N(1), N(2))),
    ("concat12", "(concat [1] [2])", S(N(1), N(2))),
    ("range12", "(range 1 3)", S(N(1), N(2))),
    ("vec12f", "[1 2.0]", S(N(1), N(2.0))),
    ("vec21", "[2 1]", S(N(2), N(1))),
    ("vec123", "[1 2 3]", S(N(1), N(2), N(3))),
    ("list123", "'(1 2 3)", S(N(1), N(2), N(3))),
    # empties
    ("vec0", "[]", S()),
    ("list0", "'()", S()),
    ("lazy0", "(lazy-seq nil)", S()),
    ("queue0", "#queue ()", S()),
    ("rest1", "(rest [1])", S()),
    ("map0", "(map identity [])", S()),
    ("emptymap", "{}", M()),
    ("emptyset", "#{}", SET()),
    ("emptystr", '""', ST("")),
    # one element
    ("vec1", "[1]", S(N(1))),
    ("list1", "'(1)", S(N(1))),
    ("lazy1", "(lazy-seq [1])", S(N(1))),
    ("queue1", "#queue (1)", S(N(1))),
    ("vec1f", "[1.0]", S(N(1.0))),
    ("vectrue", "[true]", S(B(True))),
    ("listtrue", "'(true)", S(B(True))),
    ("vec0n", "[0]", S(N(0))),
    ("vecfalse", "[false]", S(B(False))),
    ("vecnil", "[nil]", S(NIL)),
    ("listnil", "'(nil)", S(NIL)),
    ("vecvec12", "[[1 2]]", S(S(N(1), N(2)))),
    ("veclist12", "['(1 2)]", S(S(N(1), N(2)))),
    ("listlazy12", "(list (lazy-seq [1 2]))", S(S(N(1), N(2)))),
    ("vecnan", "[##NaN]", S(NAN)),
    ("vecvec0", "[[]]", S(S())),
    ("veclist0", "['()]", S(S())),
    # scalars
    ("i1", "1", N(1)),
    ("f1", "1.0", N(1.0)),
    ("d1", "1M", N(Decimal(1))),
    ("d10", "1.0M", N(Decimal("1.0"))),
    ("r22", "(/ 2 2)", N(1)),
    ("r12", "1/2", N(Fraction(1, 2))),
    ("f05", "0.5", N(0.5)),
    ("d05", "0.5M", N(Decimal("0.5"))),
    ("true", "true", B(True)),
    ("false", "false", B(False)),
    ("i0", "0", N(0)),
    ("f0", "0.0", N(0.0)),
    ("fneg0", "-0.0", N(-0.0)),
    ("nil", "nil", NIL),
    ("nan", "##NaN", NAN),
    ("inf", "##Inf", N(float("inf"))),
    ("big", "18446744073709551616", N(2**64)),
    ("bigf", "18446744073709551616.0", N(float(2**64))),
    ("stra", '"a"', ST("a")),
    ("syma", "'a", SY("a")),
    ("kwa", ":a", K("a")),
    ("kwaa", ":a/a", K("a/a")),
    ("symaa", "'a/a", SY("a/a")),
    ("str1", '"1"', ST("1")),
    ("strkwa", '":a"', ST(":a")),
    # maps
    ("mapa1", "{:a 1}", M(K("a"), N(1))),
    ("hmapa1", "(hash-map :a 1)", M(K("a"), N(1))),
    ("assoca1", "(assoc {} :a 1)", M(K("a"), N(1))),
    ("mapa1f", "{:a 1.0}", M(K("a"), N(1.0))),
    ("mapatrue", "{:a true}", M(K("a"), B(True))),
    ("mapa2", "{:a 2}", M(K("a"), N(2))),
    ("mapb1", "{:b 1}", M(K("b"), N(1))),
    ("map1a", "{1 :a}", M(N(1), K("a"))),
    ("map1fa", "{1.0 :a}", M(N(1.0), K("a"))),
    ("maptruea", "{true :a}", M(B(True), K("a"))),
    ("mapvec12x", "{[1 2] :x}", M(S(N(1), N(2)), K("x"))),
    ("maplist12x", "{'(1 2) :x}", M(S(N(1), N(2)), K("x"))),
    ("mapavec", "{:a [1 2]}", M(K("a"), S(N(1), N(2)))),
    ("mapalist", "{:a '(1 2)}", M(K("a"), S(N(1), N(2)))),
    ("mapab", "{:a 1 :b 2}", M(K("a"), N(1), K("b"), N(2))),
    ("mapba", "(hash-map :b 2 :a 1)", M(K("a"), N(1), K("b"), N(2))),
    ("mapanil", "{:a nil}", M(K("a"), NIL)),
    ("reca1", "(->RecA 1)", ("rec", "RecA", [(K("a"), N(1))])),
    ("reca1b", "(->RecA 1)", ("rec", "RecA", [(K("a"), N(1))])),
    ("reca2", "(->RecA 2)", ("rec", "RecA", [(K("a"), N(2))])),
    ("recb1", "(->RecB 1)", ("rec", "RecB", [(K("a"), N(1))])),
    # sets
    ("set12", "#{1 2}", SET(N(1), N(2))),
    ("hset21", "(hash-set 2 1)", SET(N(1), N(2))),
    ("set1", "#{1}", SET(N(1))),
    ("set1f", "#{1.0}", SET(N(1.0))),
    ("settrue", "#{true}", SET(B(True))),
    ("setvec12", "#{[1 2]}", SET(S(N(1), N(2)))),
    ("setlist12", "#{'(1 2)}", SET(S(N(1), N(2)))),
    ("seta", "#{:a}", SET(K("a"))),
    ("setnil", "#{nil}", SET(NIL)),
]

WRAPPERS = [
    ("vec", "[{}]", lambda m: S(m)),
    ("list", "(list {})", lambda m: S(m)),
    ("mapval", "{{:k {}}}", lambda m: M(K("k"), m)),
    ("set", "(hash-set {})", lambda m: SET(m)),
    ("mapkey", "(hash-map {} :v)", lambda m: M(m, K("v"))),
]


def contains_nan(m):
    if m[0] == "num":
        return isinstance(m[1], float) and math.isnan(m[1])
    if m[0] in ("seq", "set"):
        return any(contains_nan(x) for x in m[1])
    if m[0] == "map":
        return any(contains_nan(k) or contains_nan(v) for k, v in m[1])
    if m[0] == "rec":
        return any(contains_nan(v) for _, v in m[2])
    return False


def contains_bool_in_coll(m, depth=0):
    if m[0] == "bool":
        return depth > 0
    if m[0] in ("seq", "set"):
        return any(contains_bool_in_coll(x, depth + 1) for x in m[1])
    if m[0] == "map":
        return any(contains_bool_in_coll(k, depth + 1) or contains_bool_in_coll(v, depth + 1) for k, v in m[1])
    if m[0] == "rec":
        return any(contains_bool_in_coll(v, depth + 1) for _, v in m[2])
    return False


def num_eq(a, b):
    for x in (a, b):
        if isinstance(x, float) and math.isnan(x):
            return False
        if isinstance(x, Decimal) and x.is_nan():
            return False
    inf = [isinstance(x, float) and math.isinf(x) for x in (a, b)]
    if any(inf):
        return all(inf) and (a > 0) == (b > 0)
    return Fraction(a) == Fraction(b)


def ref_eq(a, b, conflate_bool=False, _direct=False):
    """True / False / None (= the property does not fix this pair).

    conflate_bool=True is a *model of the known defect F-05b*: a boolean that is directly a key, value or
    member of a map / set / record is compared like the number 1 / 0 (Python ==, hash(True) == hash(1));
    booleans at the top level or directly inside sequential collections are never conflated."""
    ta, tb = a[0], b[0]
    if conflate_bool and _direct:
        if ta == "bool":
            a, ta = ("num", int(a[1])), "num"
        if tb == "bool":
            b, tb = ("num", int(b[1])), "num"
    if ta == "num" and tb == "num":
        return num_eq(a[1], b[1])
    if ta == "bool" or tb == "bool":
        return ta == tb and a[1] == b[1]
    if ta == "nil" or tb == "nil":
        return ta == tb
    if ta in ("str", "kw", "sym") or tb in ("str", "kw", "sym"):
        return ta == tb and a[1] == b[1]
    if ta == "seq" and tb == "seq":
        if len(a[1]) != len(b[1]):
            return False
        out = True
        for x, y in zip(a[1], b[1]):
            r = ref_eq(x, y, conflate_bool, False)
            if r is False:
                return False
            if r is None:
                out = None
        return out
    if ta == "set" and tb == "set":
        return _match_unordered(a[1], b[1], lambda x, y: ref_eq(x, y, conflate_bool, True))
    if ta == "map" and tb == "map":
        return _match_unordered(
            a[1], b[1], lambda x, y: _and(ref_eq(x[0], y[0], conflate_bool, True), ref_eq(x[1], y[1], conflate_bool, True))
        )
    if ta == "rec" and tb == "rec":
        if a[1] != b[1]:
            return False
        return _match_unordered(a[2], b[2], lambda x, y: _and(ref_eq(x[0], y[0], conflate_bool, True), ref_eq(x[1], y[1], conflate_bool, True)))
    if {ta, tb} == {"rec", "map"}:
        return None
    return False


def bool_in_mapset(m, direct=False):
    """does the model contain a boolean that is directly a key/value/member of a map/set/record?"""
    if m[0] == "bool":
        return direct
    if m[0] == "seq":
        return any(bool_in_mapset(x, False) for x in m[1])
    if m[0] == "set":
        return any(bool_in_mapset(x, True) for x in m[1])
    if m[0] == "map":
        return any(bool_in_mapset(k, True) or bool_in_mapset(v, True) for k, v in m[1])
    if m[0] == "rec":
        return any(bool_in_mapset(v, True) for _, v in m[2])
    return False


def _and(p, q):
    if p is False or q is False:
        return False
    if p is None or q is None:
        return None
    return True


def _match_unordered(xs, ys, eq):
    if len(xs) != len(ys):
        return False
    ys = list(ys)
    unknown = False
    for x in xs:
        for k, y in enumerate(ys):
            r = eq(x, y)
            if r:
                del ys[k]
                break
            if r is None:
                unknown = True
        else:
            return None if unknown else False
    return True


_UNIVERSE_CACHE = {}


def build_universe(tier):
    if tier in _UNIVERSE_CACHE:
        return _UNIVERSE_CACHE[tier]
    ev = env.Evaluator()
    ev.eval("(defrecord RecA [a]) (defrecord RecB [a])")
    entries = []
    for label, text, model in BASE:
        entries.append((label, text, model))
    if tier == "thorough":
        inner = [e for e in BASE if e[0] in (
            "vec12", "list12", "lazy12", "queue12", "vec12f", "vec0", "list0", "vec1", "vec1f", "vectrue", "vecnil", "i1", "f1", "d1", "true",
            "false", "i0", "nil", "nan", "stra", "kwa", "mapa1", "mapa1f", "mapatrue", "map1a", "maptruea", "set1", "settrue", "set1f", "reca1",
            "setvec12", "setlist12", "emptymap", "emptyset", "vec0n", "vecfalse", "r12", "f05")]
        for wl, wt, wm in WRAPPERS:
            for label, text, model in inner:
                entries.append((f"{wl}<{label}>", wt.format(text), wm(model)))
    U = []
    for label, text, model in entries:
        try:
            v = ev.eval(text)
        except Exception as e:  # noqa
            raise env.HarnessError(f"cannot build universe entry {label}: {text}: {e!r}")
        U.append((label, text, model, v))
    _UNIVERSE_CACHE[tier] = (ev, U)
    return ev, U


def verdicts(a, b, fns):
    """All equality entry points on (a, b); returns dict name -> bool | ('exc', cls)."""
    out = {}
    for name, f in fns.items():
        try:
            r = f(a, b)
            out[name] = r if isinstance(r, bool) else ("nonbool", repr(r))
        except Exception as e:  # noqa
            out[name] = ("exc", type(e).__name__)
    return out


def eq_fns():
    from basilisp.lang import runtime
    import operator

    eq = env.core_fn("=")
    neq = env.core_fn("not=")
    return {
        "=": lambda a, b: eq(a, b),
        "not=": lambda a, b: (lambda r: (not r) if isinstance(r, bool) else r)(neq(a, b)),
        "runtime.equals": runtime.equals,
        "=3": lambda a, b: eq(a, b, b),
    }


def do_hash(v):
    try:
        return ("ok", env.core_fn("hash")(v))
    except Exception as e:  # noqa
        return ("exc", type(e).__name__)


def lookups(a, b):
    """Use a as key/member, look it up with b. Returns dict name -> observed."""
    core = env.core_fn
    out = {}

    def t(name, th):
        try:
            out[name] = th()
        except Exception as e:  # noqa
            out[name] = ("exc", type(e).__name__)

    KV = core("keyword")("v")
    t("get-map", lambda: core("get")(core("hash-map")(a, KV), b) is KV)
    t("map-invoke", lambda: core("hash-map")(a, KV)(b) is KV)
    t("contains-set", lambda: bool(core("contains?")(core("hash-set")(a), b)))
    t("contains-map", lambda: bool(core("contains?")(core("hash-map")(a, 1), b)))
    t("count-set2", lambda: core("count")(core("hash-set")(a, b)) == 1)
    t("count-map2", lambda: core("count")(core("assoc")(core("hash-map")(a, 1), b, 2)) == 1)
    t("find-map", lambda: core("find")(core("hash-map")(a, KV), b) is not None)
    t("distinct", lambda: core("count")(core("distinct")(core("vector")(a, b))) == 1)
    return out


def run_rows(args):
    tier, rows = args
    res = Result()
    ev, U = build_universe(tier)
    fns = eq_fns()
    n = len(U)
    V = {}
    for i in rows:
        la, ta, ma, a = U[i]
        ha = do_hash(a)
        for j in range(n):
            lb, tb, mb, b = U[j]
            vs = verdicts(a, b, fns)
            res.evaluations += len(vs)
            res.transitions += len(vs)
            case = {"a": ta, "b": tb}
            base = vs["="]
            V[i, j] = base
            res.outcomes.add((base if isinstance(base, bool) else str(base),))
            if i < j and ta != tb:
                res.distinct.add((la, lb))
            for name, v in vs.items():
                if v != base:
                    res.fail("entry-points-disagree", case, entry=name, got=v, eq=base)
            if not isinstance(base, bool):
                res.fail("eq-not-boolean", case, got=base)
                continue
            nan = contains_nan(ma) or contains_nan(mb)
            exp = ref_eq(ma, mb)
            if i == j:
                if not nan and base is not True:
                    res.fail("not-reflexive", case)
            elif exp is not None and base != exp:
                expl = ""
                if (bool_in_mapset(ma) or bool_in_mapset(mb)) and ref_eq(ma, mb, conflate_bool=True) == base:
                    expl = "bool-number-conflation-inside-map-or-set"
                res.fail("eq-differs-from-reference", case, got=base, expected=exp, explained_by=expl)
            # hash + lookups
            if base is True and not nan:
                hb = do_hash(b)
                res.evaluations += 1
                expl = ""
                if exp is False:
                    continue  # judged above as an equality failure; lookups follow the wrong verdict
                if ha[0] == "ok" and hb[0] == "ok":
                    if ha[1] != hb[1]:
                        res.fail("equal-but-hash-differs", case, hash_a=ha[1], hash_b=hb[1])
                    lk = lookups(a, b)
                    res.evaluations += len(lk)
                    res.transitions += len(lk)
                    for name, ok in lk.items():
                        if ok is not True:
                            res.fail("equal-but-lookup-fails", case, lookup=name, got=ok)
                elif ha[0] != hb[0]:
                    res.fail("equal-but-only-one-hashable", case, hash_a=ha, hash_b=hb)
            elif base is False and exp is False and not nan and ha[0] == "ok":
                # unequal values must not find each other
                hb = do_hash(b)
                if hb[0] == "ok":
                    lk = lookups(a, b)
                    res.evaluations += len(lk)
                    res.transitions += len(lk)
                    for name, ok in lk.items():
                        if ok is not False:
                            expl = ""
                            if ref_eq(ma, mb, conflate_bool=True, _direct=True) is True:
                                expl = "bool-number-conflation-in-lookup"
                            res.fail("unequal-but-lookup-succeeds", case, lookup=name, got=ok, explained_by=expl)
    return res.compact(), V


def _py_eq_models(ma, mb):
    """top-level bool vs number with Python-equal value (true/1, false/0): the documented exception is = itself, not hashing."""
    return {ma[0], mb[0]} == {"bool", "num"} and ref_eq(ma, mb, conflate_bool=True) is True


def run(tier, seed):
    res = Result()
    ev, U = build_universe(tier)
    n = len(U)
    nsh = 16
    shards = [(tier, [i for i in range(n) if i % nsh == (s + seed) % nsh]) for s in range(nsh)]
    V = {}
    for r, v in env.parallel(run_rows, shards):
        res.merge(r)
        V.update(v)
    # symmetry + transitivity on the verdict matrix (the calls were made above)
    for i in range(n):
        for j in range(i + 1, n):
            if V[i, j] != V[j, i]:
                res.fail("not-symmetric", {"a": U[i][1], "b": U[j][1]}, ab=V[i, j], ba=V[j, i])
    eqto = {i: [j for j in range(n) if V[i, j] is True and i != j] for i in range(n)}
    ntri = 0
    for i in range(n):
        for j in eqto[i]:
            for k in eqto[j]:
                ntri += 1
                if k != i and V[i, k] is not True:
                    expl = ""
                    ms = [U[x][2] for x in (i, j, k)]
                    if any(bool_in_mapset(m) for m in ms):
                        expl = "bool-number-conflation-inside-map-or-set"
                    res.fail("not-transitive", {"a": U[i][1], "b": U[j][1], "c": U[k][1]}, ac=V[i, k], explained_by=expl)
    res.evaluations += n * n * n
    res.part("universe", size=n, pairs=n * n, triples=n**3, equal_chains_checked=ntri)
    res.sample({"a": "[1 2]", "b": "'(1 2)", "=": True, "hash_equal": do_hash(U[0][3]) == do_hash(U[1][3])})
    res.sample({"a": U[5][1], "b": U[8][1], "=": V[5, 8]})
    return res


def replay(failure):
    case = failure["case"]
    kind = failure["kind"]
    for tier in ("quick", "thorough"):
        ev, U = build_universe(tier)
        texts = [u[1] for u in U]
        if all(case[k] in texts for k in ("a", "b", "c") if k in case):
            break
    else:
        return None
    idx = {u[1]: k for k, u in enumerate(U)}
    if kind in ("not-symmetric", "not-transitive"):
        fns = eq_fns()
        a, b = U[idx[case["a"]]][3], U[idx[case["b"]]][3]
        if kind == "not-symmetric":
            return dict(failure) if fns["="](a, b) != fns["="](b, a) else None
        c = U[idx[case["c"]]][3]
        return dict(failure) if fns["="](a, b) is True and fns["="](b, c) is True and fns["="](a, c) is not True else None
    r, _ = run_rows((tier, [idx[case["a"]]]))
    for f in r.failures:
        if f["kind"] == kind and f["case"] == case and all(f.get(k) == failure.get(k) for k in ("lookup", "entry")):
            return f
    return None
