"""C07 — sequence functions, their transducers and the five application forms agree with the reference.

Engine C (finite enumeration): every pipeline of depth <= 2 (thorough: <= 3) over the 18 listed
functions x every element sequence up to a length over {nil false 0 1 2 :a} x four input
representations x the application forms, executed on the real functions (called as values, nothing is
compiled per case) and compared with plain-Python reference generators (vlib/seqfns_model.py).

What is observed per application
  * the produced elements (canonical text; a vector and a seq with equal elements are the same),
  * through two transparent spy transducers composed around the pipeline — `outer` (what the application
    form calls) and `inner` (what reaches the form's own reducing function): number of completion
    (1-arity) calls, whether a step returned `reduced`, steps made after that, and
  * the number of elements pulled from the input when the input is an instrumented lazy seq
    (exactly: pulls made after a step has returned `reduced` must be 0; on an infinite input every
    application runs under a pull budget and "never stops" is reported as a failure, not a hang).
"""
from __future__ import annotations

import itertools
import signal
from collections import Counter

from vlib import env
from vlib import seqfns_model as M
from vlib.evidence import Result

PROPERTY = "C07"
LEVEL = "model_checking"
BOUNDS = {
    "quick": "all 324 depth-3 pipelines X->cat->Y (inputs of length<=2, and length 3 over {nil false 0}) and all 342 pipelines of depth<=2 over the 18 functions (one parameter instance each) x ALL element sequences of length<=3 over {nil false 0 1 2 :a} (259; pipelines that need collections as elements, e.g. starting with cat: length<=3 over 5 collections) x {lazy fn form, into, sequence, transduce, eduction}; representations: vector/list/Python list/instrumented lazy seq at length<=1, vector+instrumented lazy seq at length 2, instrumented lazy seq at length 3; plus every pipeline whose reference terminates on (range), (repeat nil), (iterate not true), (repeat [1 2 3]), (map (fn [i] [i nil]) (range)), (repeat [[1] [2 3]]) under a 64-pull budget",
    "thorough": "all 2862 pipelines of depth<=2 over ALL 53 parameter instances x all sequences of length<=3 (259) and, for the 342 one-instance pipelines, length 4 (1296); all 5832 depth-3 pipelines (one instance per function) x all sequences of length<=2 over the full alphabet and length 3 over {nil false 0}; six forms (eduction consumed by into and by seq); representations as in quick; same infinite inputs",
}
RULE = (
    "engine C: pipelines are enumerated by depth then instance order, inputs by length then alphabet order (simplest first); a case is "
    "(pipeline, element sequence) and is executed through the representations of its length class x every application form; every case is "
    "non-trivial except the empty input (counted separately); cases whose reference is undefined (cat/mapcat meeting a non-collection) and "
    "infinite inputs on which the reference itself does not terminate are skipped and counted"
)
ASSUMPTIONS = [
    "reference: vlib/seqfns_model.py (18 generators of <=10 lines) with the language's truthiness (nil/false) and = (booleans are not numbers, sequentials elementwise)",
    "parameter functions are inputs, not subjects: each Lisp parameter function is checked against its Python twin on the whole alphabet at start-up",
    "(take n) may signal `reduced` one input later than necessary (DESIGN 5.0): only pulls AFTER a step returned `reduced`, budget overruns and wrong elements are failures",
    "transduce/into return init for an empty input without calling the completion arity (documented): completion count 0 is accepted for an empty input in every form, exactly 1 otherwise",
    "`cat` has no lazy function of its own: its lazy form is (apply concat coll)",
    "known finding F-05b (a set conflates false/0 and true/1) reaches `distinct`: such failures carry explained_by, computed by re-running the reference with a Python-equality set inside distinct and requiring the observed elements to equal exactly that",
    "not implemented (DESIGN 0): the 'random longer inputs' half of the quantifier; lengths 5-6 of the property text are outside the bound (cost per application measured at ~0.4 ms, not the 40 us the design assumed)",
    "infinite inputs are the real (range)/(repeat x)/(iterate f x) seqs read through a counting pass-through iterator; a pipeline counts as terminating when the reference needs <= 24 inputs; the implementation may use 64",
]

ALPHABETS = {
    0: ["nil", "false", "0", "1", "2", ":a"],
    1: ["nil", "[]", "[nil]", "[false 0]", "(1 2 :a)"],
    2: ["nil", "[]", "[[nil] []]", "[nil [false 0]]", "([1] (2 :a))"],
    3: ["nil", "[[]]", "[[[nil] [false]] [[0 1]]]", "([[2] nil] [])"],
}

# (function, parameter key, level delta).  First instance of each function = the quick instance.
INSTANCES = [
    ("map", "nil?", 0), ("map", "identity", 0), ("map", "some?", 0), ("map", "evenish", 0), ("map", "dup", 1),
    ("filter", "identity", 0), ("filter", "nil?", 0), ("filter", "some?", 0), ("filter", "evenish", 0),
    ("remove", "nil?", 0), ("remove", "identity", 0), ("remove", "some?", 0), ("remove", "evenish", 0),
    ("keep", "identity", 0), ("keep", "truthy-or-nil", 0), ("keep", "nil?", 0),
    ("keep-indexed", "idx-even", 0), ("keep-indexed", "idx-pair", 1),
    ("map-indexed", "idx-even", 0), ("map-indexed", "idx-pair", 1),
    ("take", "2", 0), ("take", "0", 0), ("take", "1", 0), ("take", "3", 0),
    ("take-while", "identity", 0), ("take-while", "some?", 0), ("take-while", "nil?", 0), ("take-while", "evenish", 0),
    ("take-nth", "2", 0), ("take-nth", "1", 0), ("take-nth", "3", 0),
    ("drop", "1", 0), ("drop", "0", 0), ("drop", "2", 0), ("drop", "3", 0),
    ("drop-while", "some?", 0), ("drop-while", "identity", 0), ("drop-while", "nil?", 0), ("drop-while", "evenish", 0),
    ("interpose", "nil", 0), ("interpose", ":sep", 0),
    ("partition-all", "2", 1), ("partition-all", "1", 1), ("partition-all", "3", 1),
    ("partition-by", "identity", 1), ("partition-by", "nil?", 1), ("partition-by", "some?", 1), ("partition-by", "evenish", 1),
    ("distinct", "", 0),
    ("dedupe", "", 0),
    ("mapcat", "dup", 0), ("mapcat", "unit-some", 0),
    ("cat", "", -1),
]
NAMES = list(dict.fromkeys(n for n, _, _ in INSTANCES))
INT_PARAM = {"take", "take-nth", "drop", "partition-all"}

# parameter functions: key -> (core name | Lisp text, Python twin, arity)
PARAM_FNS = {
    "identity": ("identity", lambda x: x, 1),
    "nil?": ("nil?", lambda x: x is None, 1),
    "some?": ("some?", lambda x: x is not None, 1),
    "evenish": ("(fn [x] (and (integer? x) (not (boolean? x)) (even? x)))", lambda x: type(x) is int and x % 2 == 0, 1),
    "dup": ("(fn [x] [x x])", lambda x: [x, x], 1),
    "unit-some": ("(fn [x] (when (some? x) (list x)))", lambda x: None if x is None else [x], 1),
    "truthy-or-nil": ("(fn [x] (when x x))", lambda x: x if M.truthy(x) else None, 1),
    "idx-even": ("(fn [i x] (when (even? i) x))", lambda i, x: x if i % 2 == 0 else None, 2),
    "idx-pair": ("(fn [i x] [i x])", lambda i, x: [i, x], 2),
}

FORMS = ["lazy", "into", "sequence", "transduce", "eduction", "eduction-seq"]
KINDS = ["vector", "list", "lazy", "pylist"]
INFINITE = {
    0: ["range", "repeat-nil", "iterate-not-true"],
    1: ["repeat-vec", "range-pairs"],
    2: ["repeat-nested"],
}
REF_PULL_LIMIT = 24
IMPL_PULL_BUDGET = 64
WATCHDOG_S = 20


class BudgetExceeded(Exception):
    pass


class Watchdog(BaseException):
    pass


class Source:
    """Counting single-use iterator (the instrumented input)."""

    __slots__ = ("it", "pulls", "budget")

    def __init__(self, iterable, budget=None):
        self.it = iter(iterable)
        self.pulls = 0
        self.budget = budget

    def __iter__(self):
        return self

    def __next__(self):
        self.pulls += 1
        if self.budget is not None and self.pulls > self.budget:
            raise BudgetExceeded()
        return next(self.it)


class Rec:
    __slots__ = ("src", "o_init", "o_done", "o_steps", "o_after", "reduced", "red_pulls", "i_done", "i_steps")

    def reset(self, src):
        self.src = src
        self.o_init = self.o_done = self.o_steps = self.o_after = self.i_done = self.i_steps = 0
        self.reduced = False
        self.red_pulls = None


# --------------------------------------------------------------------------- per-process context

_CTX = None


class Ctx:
    def __init__(self):
        from basilisp.lang import keyword as kw, list as llist, reader, runtime, vector as vec
        from basilisp.lang.interfaces import ISeq, ISequential
        from basilisp.lang.reduced import Reduced
        from basilisp.lang import seq as lseq

        self.vec, self.llist, self.runtime, self.lseq = vec, llist, runtime, lseq
        self.Reduced = Reduced
        self.Keyword = kw.Keyword
        self.seqtypes = (ISeq, ISequential, list, tuple)
        self.reader = reader
        self.core = {n: env.core_fn(n) for n in NAMES + ["into", "sequence", "transduce", "eduction", "conj", "comp", "apply", "concat", "seq", "range", "repeat", "iterate", "not", "map"]}
        ev = env.Evaluator()
        self.fn = {}
        for key, (src, twin, arity) in PARAM_FNS.items():
            self.fn[key] = (env.core_fn(src) if not src.startswith("(") else ev.eval(src), twin, arity)
        self.pair_fn = ev.eval("(fn [i] [i nil])")
        self.values = {}  # text -> (lisp value, model value)
        self.rec = Rec()
        self.pipes = {}
        self._selfcheck()

    # -- values
    def parse(self, text, pos=0):
        """Value of an element text.  Collections are read once per input position, so that two equal elements of
        one input are equal but not identical objects."""
        key = (text, pos if text[0] in "[(" else 0)
        if key not in self.values:
            v = next(iter(self.reader.read_str(text)))
            self.values[key] = (v, self.to_model(v))
        return self.values[key]

    def to_model(self, v):
        if v is None or isinstance(v, (bool, int, self.Keyword)):
            return v
        if isinstance(v, self.seqtypes):
            return [self.to_model(x) for x in v]
        raise env.HarnessError(f"value outside the model domain: {v!r}")

    def canon(self, x):
        if x is None:
            return "nil"
        if x is True:
            return "true"
        if x is False:
            return "false"
        if type(x) is int:
            return str(x)
        if isinstance(x, self.Keyword):
            return ":" + x.name
        if isinstance(x, self.seqtypes):
            return "[" + " ".join([self.canon(y) for y in x]) + "]"
        return "?" + type(x).__name__ + ":" + repr(x)

    def canon_seq(self, out):
        s = self.runtime.to_seq(out)
        if s is None:
            return []
        return [self.canon(x) for x in s]

    def _selfcheck(self):
        """Lisp parameter functions == their Python twins on every alphabet element (and indices)."""
        elems = [t for lvl in ALPHABETS.values() for t in lvl] + ["true", "[0 nil]", "[1 nil]", "[1 2 3]", "[[1] [2 3]]", ":sep"]
        for key, (f, twin, arity) in self.fn.items():
            for t in elems:
                v, m = self.parse(t)
                for i in (0, 1, 2, 3):
                    got = self.canon(f(v) if arity == 1 else f(i, v))
                    exp = self.canon(twin(m) if arity == 1 else twin(i, m))
                    if got != exp:
                        raise env.HarnessError(f"parameter function {key} disagrees with its twin on {t}: {got} vs {exp}")

    # -- parameters
    def param(self, name, pkey):
        """-> (implementation value, model value)"""
        if name in INT_PARAM:
            return int(pkey), int(pkey)
        if name == "interpose":
            return self.parse(pkey)
        f, twin, _ = self.fn[pkey]
        return f, twin

    # -- pipelines
    def pipeline(self, pipe):
        p = self.pipes.get(pipe)
        if p is None:
            if len(self.pipes) > 20000:
                self.pipes.clear()
            p = self.pipes[pipe] = Pipeline(self, pipe)
        return p

    # -- infinite inputs: (real seq factory, model generator factory)
    def infinite(self, name):
        c = self.core
        v123 = self.parse("[1 2 3]")
        nested = self.parse("[[1] [2 3]]")
        if name == "range":
            return (lambda: c["range"]()), (lambda: itertools.count())
        if name == "repeat-nil":
            return (lambda: c["repeat"](None)), (lambda: itertools.repeat(None))
        if name == "iterate-not-true":
            return (lambda: c["iterate"](c["not"], True)), (lambda: (i % 2 == 0 for i in itertools.count()))
        if name == "repeat-vec":
            return (lambda: c["repeat"](v123[0])), (lambda: itertools.repeat(v123[1]))
        if name == "range-pairs":
            return (lambda: c["map"](self.pair_fn, c["range"]())), (lambda: ([i, None] for i in itertools.count()))
        if name == "repeat-nested":
            return (lambda: c["repeat"](nested[0])), (lambda: itertools.repeat(nested[1]))
        raise KeyError(name)


def ctx() -> Ctx:
    global _CTX
    if _CTX is None:
        _CTX = Ctx()
    return _CTX


class Pipeline:
    def __init__(self, cx: Ctx, pipe):
        self.pipe = pipe
        self.names = [n for n, _ in pipe]
        xfs, lazies, mstages = [], [], []
        c = cx.core
        for name, pkey in pipe:
            f = c[name]
            if name == "cat":
                xfs.append(f)
                lazies.append(lambda coll, ap=c["apply"], cc=c["concat"]: ap(cc, coll))
                mstages.append((name, None))
            elif name in ("distinct", "dedupe"):
                xfs.append(f())
                lazies.append(f)
                mstages.append((name, None))
            else:
                pv, pm = cx.param(name, pkey)
                xfs.append(f(pv))
                lazies.append(lambda coll, f=f, pv=pv: f(pv, coll))
                mstages.append((name, pm))
        self.lazies = lazies
        self.mstages = mstages
        self.needs_typecheck = any(n in ("cat", "mapcat") for n in self.names)
        self.has_distinct = "distinct" in self.names
        rec = cx.rec
        Reduced = cx.Reduced

        def outer(rf):
            def step(*a):
                n = len(a)
                if n == 2:
                    if rec.reduced:
                        rec.o_after += 1
                    rec.o_steps += 1
                    r = rf(a[0], a[1])
                    if type(r) is Reduced and not rec.reduced:
                        rec.reduced = True
                        rec.red_pulls = rec.src.pulls if rec.src is not None else None
                    return r
                if n == 1:
                    rec.o_done += 1
                    return rf(a[0])
                rec.o_init += 1
                return rf()

            return step

        def inner(rf):
            def step(*a):
                n = len(a)
                if n == 2:
                    rec.i_steps += 1
                    return rf(a[0], a[1])
                if n == 1:
                    rec.i_done += 1
                    return rf(a[0])
                return rf()

            return step

        self.xform = c["comp"](outer, *xfs, inner)

    def lazy(self, coll):
        for st in self.lazies:
            coll = st(coll)
        return coll

    def reference(self, model_source, drain=False, distinct_same=M.eq, push=False):
        return M.run_pipeline(self.mstages, model_source, drain=drain, distinct_same=distinct_same, push=push)


# --------------------------------------------------------------------------- enumeration


def instances(tier, one_per_fn):
    if one_per_fn:
        seen, out = set(), []
        for n, p, d in INSTANCES:
            if n not in seen:
                seen.add(n)
                out.append((n, p, d))
        return out
    return list(INSTANCES)


def required_level(pipe_inst):
    """Smallest nesting level of the input elements for which every cat sees collections."""
    lvl, need = 0, 0
    for n, p, d in pipe_inst:
        if n == "cat":
            need = max(need, 1 - lvl)
        lvl += d
    return need


FIVE = FORMS[:5]


def enum_pipelines(tier):
    """-> list of (pipe, level, plan) simplest first; plan = [(length, alphabet size or None, kinds, forms)].

    Representation only matters to the first `seq` call of an application form, so all four representations are run
    on the inputs of length <= 1, vector + instrumented lazy seq at length 2, and the instrumented lazy seq (the one
    that can observe consumption) beyond."""
    one = instances(tier, True)
    oneset = {(n, p) for n, p, _ in one}
    out = []
    if tier == "quick":
        plan = [(0, None, KINDS, FIVE), (1, None, KINDS, FIVE), (2, None, ["vector", "lazy"], FIVE), (3, None, ["lazy"], FIVE)]
        for k in (1, 2):
            for combo in itertools.product(one, repeat=k):
                out.append((combo, plan))
        # depth 3 through the flattening stage: X -> cat -> Y (a producer of collections, flattened, then any stage
        # incl. the early terminators) -- the smallest shape in which a stage's completion flush meets a reduction
        # that has already ended downstream
        deepq = [(0, None, ["lazy"], FIVE), (1, None, ["lazy"], FIVE), (2, None, ["lazy"], FIVE), (3, 3, ["lazy"], FIVE)]
        cats = [i for i in one if i[0] == "cat"]
        for a in one:
            for c in cats:
                for b in one:
                    out.append(((a, c, b), deepq))
    else:
        base = [(0, None, KINDS, FORMS), (1, None, KINDS, FORMS), (2, None, ["vector", "lazy"], FORMS), (3, None, ["lazy"], FORMS)]
        for k in (1, 2):
            for combo in itertools.product(instances(tier, False), repeat=k):
                plan = base
                if all((n, p) in oneset for n, p, _ in combo):
                    plan = base + [(4, None, ["lazy"], FIVE)]
                out.append((combo, plan))
        deep = [(0, None, ["lazy"], FORMS), (1, None, ["lazy"], FORMS), (2, None, ["lazy"], FORMS), (3, 3, ["lazy"], FORMS)]
        for combo in itertools.product(one, repeat=3):
            out.append((combo, deep))
    res = []
    for combo, plan in out:
        lvl = required_level(combo)
        if lvl > 3:
            continue
        res.append((tuple((n, p) for n, p, _ in combo), lvl, plan))
    return res


def enum_inputs(level, length, asize=None):
    alpha = ALPHABETS[level][: asize or None]
    if level >= 2 and length > 3:
        return []
    return list(itertools.product(alpha, repeat=length))


# --------------------------------------------------------------------------- execution of one application


def _alarm(signum, frame):
    raise Watchdog()


def apply_form(cx: Ctx, P: Pipeline, form, coll, src, guarded=False):
    """Run one application form on the real code. -> ('ok', [canon...]) | ('budget',) | ('timeout',) | ('exc', name)"""
    c = cx.core
    cx.rec.reset(src)
    if guarded:
        old = signal.signal(signal.SIGALRM, _alarm)
        signal.setitimer(signal.ITIMER_REAL, WATCHDOG_S)
    try:
        if form == "lazy":
            out = P.lazy(coll)
        elif form == "into":
            out = c["into"](cx.vec.EMPTY, P.xform, coll)
        elif form == "sequence":
            out = c["sequence"](P.xform, coll)
        elif form == "transduce":
            out = c["transduce"](P.xform, c["conj"], coll)
        elif form == "eduction":
            out = c["into"](cx.vec.EMPTY, c["eduction"](P.xform, coll))
        elif form == "eduction-seq":
            out = c["seq"](c["eduction"](P.xform, coll))
        else:
            raise env.HarnessError(form)
        return ("ok", cx.canon_seq(out))
    except BudgetExceeded:
        return ("budget",)
    except Watchdog:
        return ("timeout",)
    except env.HarnessError:
        raise
    except Exception as e:  # noqa
        return ("exc", type(e).__name__)
    finally:
        if guarded:
            signal.setitimer(signal.ITIMER_REAL, 0)
            signal.signal(signal.SIGALRM, old)


def judge(form, obs, exp, rec: Rec, src, nonempty):
    """-> None | (kind, details)"""
    if obs[0] == "budget":
        return "does-not-stop-consuming", {"budget": IMPL_PULL_BUDGET}
    if obs[0] == "timeout":
        return "does-not-terminate", {}
    if obs[0] == "exc":
        return "raises", {"exc": obs[1], "expected": exp}
    if obs[1] != exp:
        return "elements-differ", {"got": obs[1], "expected": exp}
    if form == "lazy":
        return None
    if rec.o_after:
        return "step-after-reduced", {"steps_after": rec.o_after}
    if rec.reduced and src is not None and src.pulls != rec.red_pulls:
        return "input-pulled-after-reduced", {"pulls_at_reduced": rec.red_pulls, "pulls_total": src.pulls}
    lo = 1 if (nonempty or rec.reduced) else 0
    if not (lo <= rec.o_done <= 1 and lo <= rec.i_done <= 1):
        return "completion-count", {"by_form": rec.o_done, "reaching_bottom": rec.i_done, "early_termination": rec.reduced}
    return None


def make_input(cx: Ctx, kind, vals):
    """-> (collection, instrumented source or None)"""
    if kind == "vector":
        return cx.vec.vector(vals), None
    if kind == "list":
        return cx.llist.list(vals), None
    if kind == "pylist":
        return list(vals), None
    if kind == "lazy":
        src = Source(vals)
        return cx.lseq.iterator_sequence(src), src
    raise env.HarnessError(kind)


def explain(cx, P, obs, model_vals_factory):
    """Model of known defect F-05b inside `distinct` (a set with Python equality: false==0, true==1)."""
    if not P.has_distinct or obs[0] != "ok":
        return None
    try:
        alt = [cx.canon(x) for x in P.reference(model_vals_factory(), distinct_same=M.eq_python)]
    except Exception:  # noqa
        return None
    if alt == obs[1]:
        return "distinct-uses-set-with-python-equality(F-05b)"
    return None


EXPLAINED_LISTED_PER_SHARD = 150


def _list_explained(res, tag):
    """Failures explained by a known finding are listed up to a cap per shard and counted beyond it, so that they can
    never push an unexplained failure out of the (bounded) failure list."""
    res.part("explained_failures", **{tag: 1})
    n = res.parts["explained_failures"][tag]
    if n > EXPLAINED_LISTED_PER_SHARD:
        res.part("explained_failures", counted_but_not_listed=1)
        return False
    return True


def case_dict(P, inp, level, kind, form):
    return {
        "pipeline": [list(x) for x in P.pipe],
        "family": "+".join(P.names),
        "input": list(inp) if not isinstance(inp, str) else inp,
        "level": level,
        "kind": kind,
        "form": form,
    }


def check_finite(cx, res, P, level, texts, kinds, forms=FORMS, only=None):
    parsed = [cx.parse(t, i) for i, t in enumerate(texts)]
    vals = [v for v, _ in parsed]
    mvals = [m for _, m in parsed]
    try:
        if P.needs_typecheck:
            for _ in P.reference(mvals, drain=True):
                pass
        exp = [cx.canon(x) for x in P.reference(mvals)]
    except M.IllTyped:
        res.part("finite", skipped_reference_undefined=1)
        return
    nonempty = len(vals) > 0
    if nonempty:
        res.distinct_count += 1
    else:
        res.part("finite", empty_input_cases=1)
    res.outcomes.add(" ".join(exp))
    rec = cx.rec
    early = False
    for kind in kinds:
        for form in forms:
            if only and (kind, form) != only:
                continue
            coll, src = make_input(cx, kind, vals)
            obs = apply_form(cx, P, form, coll, src)
            res.evaluations += 1
            res.transitions += max(rec.o_steps, len(vals)) + 1
            early = early or rec.reduced
            bad = judge(form, obs, exp, rec, src, nonempty)
            if bad:
                kindname, det = bad
                ex = explain(cx, P, obs, lambda: mvals) if kindname == "elements-differ" else None
                if ex:
                    det["explained_by"] = ex
                    if not _list_explained(res, ex):
                        continue
                res.fail(kindname, case_dict(P, texts, level, kind, form), **det)
    res.part("finite", cases=1, early_termination_cases=1 if early else 0)
    if len(res.samples) < 3 and len(texts) == 3 and len(P.pipe) == 2 and early:
        res.sample({"pipeline": [list(x) for x in P.pipe], "input": list(texts), "expected": exp})


def check_infinite(cx, res, P, level, name, forms=FORMS, only=None):
    real, model = cx.infinite(name)
    msrc = Source(model(), budget=REF_PULL_LIMIT)
    try:
        if P.needs_typecheck:
            for _ in P.reference(list(itertools.islice(model(), IMPL_PULL_BUDGET)), drain=True):
                pass
        exp = [cx.canon(x) for x in P.reference(msrc)]
    except M.IllTyped:
        res.part("infinite", skipped_reference_undefined=1)
        return
    except BudgetExceeded:
        res.part("infinite", skipped_reference_does_not_terminate=1)
        return
    # run as a transducer, (take 0) can only stop the process when an input reaches it: if none ever does, no
    # implementation of the transducer forms can terminate -> only the lazy form is judged on such a case
    xf_ok = True
    if any(n == "take" and p <= 0 for n, p in P.mstages):
        try:
            for _ in P.reference(Source(model(), budget=REF_PULL_LIMIT), push=True):
                pass
        except BudgetExceeded:
            xf_ok = False
            res.part("infinite", transducer_forms_skipped_take0_never_reached=1)
    res.distinct_count += 1
    res.outcomes.add(name + " " + " ".join(exp))
    rec = cx.rec
    for form in forms:
        if only and ("inf", form) != only:
            continue
        if form != "lazy" and not xf_ok:
            continue
        src = Source(real(), budget=IMPL_PULL_BUDGET)
        coll = cx.lseq.iterator_sequence(src)
        obs = apply_form(cx, P, form, coll, src, guarded=True)
        res.evaluations += 1
        res.transitions += max(rec.o_steps, src.pulls) + 1
        bad = judge(form, obs, exp, rec, src, True)
        if bad:
            kindname, det = bad
            det["reference_pulls"] = msrc.pulls
            det["pulls"] = src.pulls
            ex = explain(cx, P, obs, lambda: Source(model(), budget=REF_PULL_LIMIT)) if kindname == "elements-differ" else None
            if ex:
                det["explained_by"] = ex
                if not _list_explained(res, ex):
                    continue
            res.fail(kindname, case_dict(P, "inf:" + name, level, "inf", form), **det)
    res.part("infinite", cases=1)
    if len(res.samples) < 5 and len(P.pipe) == 2 and len(exp) >= 2:
        res.sample({"pipeline": [list(x) for x in P.pipe], "input": name, "expected": exp, "reference_pulls": msrc.pulls})


# --------------------------------------------------------------------------- driver


def _focus():
    import os

    return set(filter(None, os.environ.get("VERIF_C07_FOCUS", "").split(",")))


def shard(args):
    tier, idx, nshards = args
    cx = ctx()
    res = Result()
    pipes = enum_pipelines(tier)
    focus = _focus()
    if focus:  # debugging aid only; the run is then reported as capped, not exhaustive
        pipes = [p for p in pipes if any(n in focus for n, _ in p[0])]
    inputs_cache = {}
    for i, (pipe, level, plan) in enumerate(pipes):
        if i % nshards != idx:
            continue
        P = cx.pipeline(pipe)
        for length, asize, kinds, forms in plan:
            key = (level, length, asize)
            if key not in inputs_cache:
                inputs_cache[key] = enum_inputs(level, length, asize)
            for texts in inputs_cache[key]:
                check_finite(cx, res, P, level, texts, kinds, forms)
        for name in INFINITE.get(level, []):
            check_infinite(cx, res, P, level, name, forms=plan[0][3])
        res.part("pipelines", **{f"depth{len(pipe)}": 1})
        cx.pipes.pop(pipe, None)
    return res.compact()


def run(tier, seed):
    ctx()  # bootstrap the context (compiles the parameter functions) before forking
    import gc

    gc.collect()
    gc.freeze()  # keep the bootstrapped heap out of the children's collections
    nshards = env.ncores() * (2 if tier == "quick" else 4)
    order = [(s + seed) % nshards for s in range(nshards)]
    res = Result()
    if _focus():
        res.caps.append("VERIF_C07_FOCUS restricts the pipelines to those containing " + ",".join(sorted(_focus())))
    for r in env.parallel(shard, [(tier, s, nshards) for s in order]):
        res.merge(r)
    # simplest failures first
    res.failures.sort(key=lambda f: (len(f["case"]["pipeline"]), len(f["case"]["input"]) if isinstance(f["case"]["input"], list) else 99, f["case"]["family"], str(f["case"]["input"]), f["case"]["kind"], f["case"]["form"]))
    cnt = Counter((f["kind"], f["case"]["form"], f.get("explained_by", "")) for f in res.failures)
    if cnt:
        res.notes.append("failures by (kind, form, explained_by): " + "; ".join(f"{k}={v}" for k, v in sorted(cnt.items(), key=lambda kv: -kv[1])[:30]))
    res.part("alphabet", level0=len(ALPHABETS[0]), instances=len(INSTANCES), functions=len(NAMES), forms=len(FORMS))
    return res


def replay(failure):
    case = failure["case"]
    cx = ctx()
    P = cx.pipeline(tuple((n, p) for n, p in case["pipeline"]))
    res = Result()
    only = (case["kind"], case["form"])
    if isinstance(case["input"], str):
        check_infinite(cx, res, P, case["level"], case["input"].split(":", 1)[1], only=only)
    else:
        check_finite(cx, res, P, case["level"], tuple(case["input"]), [case["kind"]], only=only)
    for f in res.failures:
        if f["kind"] == failure["kind"]:
            return f
    return None
