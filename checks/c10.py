"""C10 — a name denotes one binding, and reading it sees the value last given to it.

Engine B (breadth-first search over short operation histories, every history rebuilt by replay in fresh
namespaces).  A history is a sequence of top-level forms typed into a REPL-like session over two fresh
namespaces (A, the starting one, and B):

    (def n V) (def ^:dynamic n V) (def ^:redef n V) (def ^:private n V)      in the current namespace
    (in-ns 'other)   (require '[other :as o])   (refer 'other :only '[n])    (the real core functions)
    (alter-var-root #'n (fn [_] V))                                          on whatever bare n denotes

with every V a fresh integer (so an observed value identifies the binding and the write it came from).
The names of one history come from one *name group* (names that munge alike are in the same group).
Every history is executed four times: {direct linking, use-var-indirection} x {inline-functions on, off}.

After the LAST step of every history (every prefix is a history of its own, so this is "after every step")
all spellings of all names of the group are read from the current namespace:

    n   Cur/n   Other/n   o/n   @#'Cur/n   @#'Other/n   (let [n 7] n)   (let [n 7] Cur/n)   (let [m 7] n)
    the same spellings inside a function compiled NOW, inside every function compiled after an EARLIER step
    (called as a Python object), and through a compiled call `(rdK)` / `(Other/rdK)` of those functions,
    which are defined `^:inline` (so with inline-functions on their body is spliced into the call site).

The oracle is a reference dict (namespace, name) -> (last def value, current root, flags), see ASSUMPTIONS.
"""
from __future__ import annotations

import gc
import sys
import time
from collections import Counter

from vlib import bfs, env
from vlib.evidence import Result

PROPERTY = "C10"
LEVEL = "model_checking"

GROUPS = {
    "dash": ("a-b", "a_b"),
    "qmark": ("x?", "x__Q__"),
    "builtin": ("print", "print_"),
    "single": ("class", "v'", "plain"),
    "cross": ("a-b", "plain"),
}
FLAGS = ("plain", "dynamic", "redef", "private")
CONFIGS = ((False, True), (False, False), (True, True), (True, False))  # (use-var-indirection, inline-functions)
LOCAL = 7  # the value every shadowing local is bound to

BOUNDS = {
    "quick": "every history of length <=3 over each name group {a-b,a_b} {x?,x__Q__} {print,print_} and length <=2 over "
    "{class,v',plain} {a-b,plain}; alphabet per group of k names: 4k defs + k refers + k alter-var-roots + in-ns + require "
    "(only enabled operations); x 4 compiler configurations; all spellings of all group names read after every history",
    "thorough": "every history of length <=5 over {a-b,a_b}, <=4 over {x?,x__Q__} {print,print_} {a-b,plain} and <=3 over "
    "{class,v',plain}; same alphabet, configurations and reads",
}
RULE = (
    "engine B: breadth-first enumeration of operation histories (no merging: every history is its own state because the "
    "functions compiled after earlier steps are part of what is observed); a history is rebuilt by replaying its forms through "
    "the real reader/compiler in two fresh namespaces, once per compiler configuration; symmetry reductions: a history does not "
    "start with in-ns (the two namespaces are interchangeable at the start) and never contains two in-ns in a row; an operation "
    "is enabled when it can have an effect (refer: the other namespace interns the name; alter-var-root: the bare name denotes "
    "a Var of the history; require: not yet required); names of different groups never occur in one history; a case is distinct "
    "by (group, history); non-trivial = at least one Var exists when the reads happen"
)
ASSUMPTIONS = [
    "reference: bare name = local > interned in the current namespace > referred; Cur/n, Other/n and o/n (alias) = the Var "
    "interned under n in that namespace; @#'ns/n = its current root; a name that is neither interned nor referred is an error "
    "unless basilisp.core is referred under it (print, class), then it is the core function",
    "a read compiled while the Var was neither ^:dynamic nor ^:redef, with direct linking, may return either the value of the "
    "last def or the current root after alter-var-root (the property lets direct-linked code miss root mutations); every other "
    "read must return the current root; every read must see every re-def",
    "the flags that count for a function compiled earlier are those the Var had when the function was compiled; a function "
    "compiled earlier keeps denoting the Var its symbol resolved to then",
    "where the reference language would reject a spelling but basilisp resolves it through the namespace's refers (Other/n or "
    "Cur/n for a name that is only referred there, Other/print) both an error and the referred Var's value are accepted; the same "
    "for a bare referred name whose Var was re-def'ed ^:private after the refer, and for #'Other/n of a private Var",
    "a private Var read through Other/n or o/n must be a compile-time error (CompilerException); any exception counts as an "
    "error for unresolvable names (the analyzer raises AssertionError for a bare name whose munged form is a module global)",
    "an ^:inline function whose body names a Var that is private (now) may fail to compile when called from the other "
    "namespace with inlining on; a wrong VALUE is never accepted",
    "in-ns / require / refer / alter-var-root are the real core functions; the required namespace is created programmatically "
    "(Namespace.get_or_create; Namespace.require falls back to existing namespaces when no module file exists)",
]

_CORE = "core"  # pseudo target: the basilisp.core Var referred under this name


def munge(name):
    from basilisp.lang.util import munge as m

    return m(name)


# --------------------------------------------------------------------------- reference model


class Model:
    """The reference: plain dicts.  `globs` and `linked` belong to the *defect model* of F-10a only."""

    def __init__(self, names):
        self.names = names
        self.cur = 0
        self.vars = {}  # (ns, name) -> dict(val, root, flags)
        self.refers = {}  # (ns, name) -> (ns2, name)
        self.alias = set()  # namespaces in which `o` aliases the other one
        self.linked = set()  # namespaces whose module holds the other namespace's module (require or refer ran)
        self.globs = {}  # (ns, munged) -> (value, name)   last def stored under that Python global
        self.altered = False
        self.step = 0

    def resolve(self, ns, n):
        if (ns, n) in self.vars:
            return (ns, n)
        return self.refers.get((ns, n))

    def enabled(self, last_op):
        c, o = self.cur, 1 - self.cur
        ops = []
        for n in self.names:
            for f in FLAGS:
                ops.append(("def", n, f))
        for n in self.names:
            if self.resolve(c, n) is not None:
                ops.append(("alter", n))
        if self.step > 0 and (last_op is None or last_op[0] != "in-ns"):
            ops.append(("in-ns",))
        if c not in self.alias:
            ops.append(("require",))
        for n in self.names:
            if (o, n) in self.vars and self.refers.get((c, n)) != (o, n):
                ops.append(("refer", n))
        return ops

    def value_of(self, kind):
        return 10 * (self.step + 1) + (1 if kind == "def" else 2)

    def apply(self, op):
        c, o = self.cur, 1 - self.cur
        k = op[0]
        if k == "def":
            v = self.value_of("def")
            self.vars[(c, op[1])] = {"val": v, "root": v, "flags": frozenset([op[2]])}
            self.globs[(c, munge(op[1]))] = (v, op[1])
        elif k == "alter":
            t = self.resolve(c, op[1])
            self.vars[t]["root"] = self.value_of("alter")
            self.altered = True
        elif k == "in-ns":
            self.cur = o
        elif k == "require":
            self.alias.add(c)
            self.linked.add(c)
        elif k == "refer":
            self.linked.add(c)
            if "private" not in self.vars[(o, op[1])]["flags"]:
                self.refers[(c, op[1])] = (o, op[1])
        else:
            raise ValueError(op)
        self.step += 1

    def form(self, op, nsn):
        c, o = self.cur, 1 - self.cur
        k = op[0]
        if k == "def":
            meta = "" if op[2] == "plain" else "^:%s " % op[2]
            return "(def %s%s %d)" % (meta, op[1], self.value_of("def"))
        if k == "alter":
            return "(alter-var-root #'%s (fn [_] %d))" % (op[1], self.value_of("alter"))
        if k == "in-ns":
            return "(in-ns '%s)" % nsn[o]
        if k == "require":
            return "(require '[%s :as o])" % nsn[o]
        if k == "refer":
            return "(refer '%s :only '[%s])" % (nsn[o], op[1])
        raise ValueError(op)

    # ---- what a read may return

    def indirect(self, t):
        fl = self.vars[t]["flags"]
        return "dynamic" in fl or "redef" in fl

    def allowed(self, t, direct):
        """Values a symbol read of Var t may return; `direct` = compiled as a direct link candidate."""
        if t == _CORE:
            return {"core"}
        v = self.vars[t]
        return {v["val"], v["root"]} if direct else {v["root"]}

    def spellings(self, nsn):
        """All single spellings of all names from the current namespace:
        list of (label, text, cls, target, mode) ; cls in must / err / maybe ; mode in sym / deref."""
        c, o = self.cur, 1 - self.cur
        out = []
        for n in self.names:
            core = n in ("print", "class")
            # bare
            t = self.resolve(c, n)
            if t is not None:
                cls = "must"
                if t[0] != c and "private" in self.vars[t]["flags"]:
                    cls = "maybe"  # referred while public, private now
                out.append(("bare:" + n, n, cls, t, "sym"))
            elif core:
                out.append(("bare:" + n, n, "must", _CORE, "sym"))
            else:
                out.append(("bare:" + n, n, "err", None, "sym"))
            # qualified by the own namespace name
            for lab, pre, mode in (("own:", "%s/%s" % (nsn[c], n), "sym"), ("dvown:", "@#'%s/%s" % (nsn[c], n), "deref")):
                if (c, n) in self.vars:
                    out.append((lab + n, pre, "must", (c, n), mode))
                elif (c, n) in self.refers:
                    out.append((lab + n, pre, "maybe", self.refers[(c, n)], mode))
                elif core:
                    out.append((lab + n, pre, "maybe", _CORE, mode))
                else:
                    out.append((lab + n, pre, "err", None, mode))
            # through the other namespace: full name, alias, var-quote
            for lab, pre, mode, need_alias in (
                ("oth:", "%s/%s" % (nsn[o], n), "sym", False),
                ("alias:", "o/%s" % n, "sym", True),
                ("dvoth:", "@#'%s/%s" % (nsn[o], n), "deref", False),
            ):
                if need_alias and c not in self.alias:
                    out.append((lab + n, pre, "err", None, mode))
                elif (o, n) in self.vars:
                    if "private" in self.vars[(o, n)]["flags"]:
                        out.append((lab + n, pre, "maybe" if mode == "deref" else "cex", (o, n), mode))
                    else:
                        out.append((lab + n, pre, "must", (o, n), mode))
                elif (o, n) in self.refers:
                    out.append((lab + n, pre, "maybe", self.refers[(o, n)], mode))
                elif core:
                    out.append((lab + n, pre, "maybe", _CORE, mode))
                else:
                    out.append((lab + n, pre, "err", None, mode))
        return out


# --------------------------------------------------------------------------- the real thing

_COUNTER = [0]


class Session:
    """Two fresh namespaces, one compiler context, *ns* thread-bound for the whole history (as the REPL does)."""

    def __init__(self, uvi, inline):
        from basilisp.lang import compiler, runtime, symbol as sym

        self.rt, self.compiler, self.sym = runtime, compiler, sym
        from basilisp.lang import reader

        self.reader = reader
        _COUNTER[0] += 1
        import os

        tag = "p%dh%d" % (os.getpid(), _COUNTER[0])
        self.nsn = ("c10.%sa" % tag, "c10.%sb" % tag)
        opts = compiler.compiler_opts(use_var_indirection=uvi, inline_functions=inline, warn_on_var_indirection=False)
        self.ctx = compiler.CompilerContext("<c10>", opts=opts)
        core = runtime.Namespace.get(sym.symbol("basilisp.core"))
        self.nss = []
        for n in self.nsn:
            ns = runtime.Namespace.get_or_create(sym.symbol(n))
            ns.refer_all(core)
            self.nss.append(ns)
        self.cm = runtime.ns_bindings(self.nsn[0])
        self.cm.__enter__()
        self.compiles = 0

    def eval(self, text):
        last = None
        for form in self.reader.read_str(text, resolver=self.rt.resolve_alias):
            self.compiles += 1
            last = self.compiler.compile_and_exec_form(form, self.ctx, self.rt.get_current_ns())
        return last

    def close(self):
        try:
            self.cm.__exit__(None, None, None)
        finally:
            for ns in self.nss:
                self.rt.Namespace.remove(self.sym.symbol(ns.name))
                sys.modules.pop(ns.module.__name__, None)


def classify(val, name=None):
    """Observed value -> comparable outcome."""
    if isinstance(val, bool):
        return ("other", "bool")
    if isinstance(val, int):
        return val
    if name in ("print", "class") and val is env.core_var(name).value:
        return "core"
    if val is env.core_var("print").value or val is env.core_var("class").value:
        return "core-other"
    return ("other", type(val).__name__)


def try_eval(sess, text):
    from basilisp.lang.compiler import CompilerException

    try:
        return ("ok", sess.eval(text))
    except CompilerException as e:
        return ("cex", _short(e))
    except Exception as e:  # noqa
        return ("err", type(e).__name__ + ": " + _short(e))


def _short(e):
    s = str(e).split(" {:", 1)[0]
    import re

    return re.sub(r"c10\.p\d+h\d+", "NS", s)[:90]


def name_of(label):
    return label.split(":", 1)[1]


class Reader:
    """A function compiled after some step: remembers what each element denoted and how it was compiled."""

    __slots__ = ("k", "ns", "elems", "fn", "linked")


def explain(model, t, obs, direct_candidate, reader_ns, linked_then):
    """Defect model of F-10a: the read was compiled as a direct link to the Python global munge(name) of the Var's
    module; another name of the same namespace with the same munged form was def'ed last, and its value is what we saw."""
    if not direct_candidate or t is None or t == _CORE:
        return None
    g = model.globs.get((t[0], munge(t[1])))
    if g is None or g[1] == t[1] or obs != g[0]:
        return None
    if munge(g[1]) != munge(t[1]):
        return None
    if t[0] != reader_ns and not linked_then:
        return None  # without the module attribute the compiler falls back to Var.find: immune
    return "munge-collision-shared-module-global"


def run_history(group, hist, cfg, res, fails, observe=None):
    """Execute one history under one configuration; full reads after the last step.  Appends failure tuples
    (kind, read-label, details) to `fails`.  Returns the list of observations (for the differential check)."""
    uvi, inline = cfg
    names = GROUPS[group]
    model = Model(names)
    sess = Session(uvi, inline)
    nsn = sess.nsn
    obs = []
    readers = []
    try:
        for i, op in enumerate(hist):
            text = model.form(op, nsn)
            r = try_eval(sess, text)
            res.transitions += 1
            if r[0] != "ok":
                fails.append(("operation-raises", "step%d" % i, {"form": _generic(text, nsn), "observed": r[1]}))
                return obs
            model.apply(op)
            last = i == len(hist) - 1
            # the reader function of this step (compiled NOW, kept for later steps)
            sp = model.spellings(nsn)
            elems = [(lab, txt, t, mode) for (lab, txt, cls, t, mode) in sp if cls == "must"]
            rd = Reader()
            rd.k, rd.ns, rd.linked = i, model.cur, model.cur in model.linked
            rd.elems = [(lab, t, mode, (not uvi) and t != _CORE and mode == "sym" and not model.indirect(t)) for (lab, txt, t, mode) in elems]
            body = " ".join(txt for (_, txt, _, _) in elems)
            r = try_eval(sess, "(defn ^:inline rd%d [] [%s])" % (i, body))
            if r[0] != "ok":
                fails.append(("reader-definition-raises", "rd%d" % i, {"body": _generic(body, nsn), "observed": r[1]}))
                rd.fn = None
            else:
                rd.fn = r[1].value
            readers.append(rd)
            if not last:
                continue
            res.evaluations += 1
            _reads(model, sess, sp, readers, cfg, obs, fails, res)
    finally:
        sess.close()
    return obs


def _generic(text, nsn):
    return text.replace(nsn[0], "A").replace(nsn[1], "B")


def _check_elem(model, lab, t, mode, direct_candidate, val, where, obs, fails, reader_ns, linked_then, res):
    o = classify(val, name_of(lab))
    obs.append((where, lab, o))
    res.outcomes.add((lab.split(":")[0], o if not isinstance(o, int) else "int"))
    allowed = model.allowed(t, direct_candidate) if mode == "sym" else model.allowed(t, False)
    if o in allowed:
        return True
    ex = explain(model, t, o, direct_candidate, reader_ns, linked_then)
    d = {"expected": sorted(allowed, key=repr), "observed": o, "denotes": _tname(t)}
    if ex:
        d["explained_by"] = ex
    fails.append(("read-wrong-binding" if isinstance(o, int) or o in ("core", "core-other") else "read-wrong-value", "%s %s" % (where, lab), d))
    return False


def _tname(t):
    if t is None or t == _CORE:
        return t
    return "%s/%s" % ("AB"[t[0]], t[1])


def _reads(model, sess, sp, readers, cfg, obs, fails, res):
    uvi, inline = cfg
    nsn = sess.nsn
    c = model.cur
    linked_now = c in model.linked
    must = [(lab, txt, t, mode) for (lab, txt, cls, t, mode) in sp if cls == "must"]

    def dc(t, mode):
        return (not uvi) and t != _CORE and mode == "sym" and not model.indirect(t)

    # 1. top level, all resolvable spellings in one form (falls back to one form per spelling on an error)
    r = try_eval(sess, "[%s]" % " ".join(txt for (_, txt, _, _) in must))
    if r[0] == "ok" and len(r[1]) == len(must):
        for (lab, txt, t, mode), val in zip(must, r[1]):
            _check_elem(model, lab, t, mode, dc(t, mode), val, "top", obs, fails, c, linked_now, res)
    else:
        for lab, txt, t, mode in must:
            r1 = try_eval(sess, txt)
            if r1[0] == "ok":
                _check_elem(model, lab, t, mode, dc(t, mode), r1[1], "top", obs, fails, c, linked_now, res)
            else:
                obs.append(("top", lab, r1[0]))
                fails.append(("read-raises", "top " + lab, {"observed": r1[1], "denotes": _tname(t)}))
    # 2. spellings that must not, or need not, resolve: one form each
    for lab, txt, cls, t, mode in sp:
        if cls == "must":
            continue
        r1 = try_eval(sess, txt)
        if r1[0] == "ok":
            o = classify(r1[1], name_of(lab))
            obs.append(("top", lab, o))
            res.outcomes.add((lab.split(":")[0], "resolves"))
            if cls == "maybe":
                allowed = model.allowed(t, dc(t, mode)) if mode == "sym" else model.allowed(t, False)
                if o not in allowed:
                    ex = explain(model, t, o, dc(t, mode), c, linked_now)
                    d = {"expected": sorted(allowed, key=repr) + ["error"], "observed": o, "denotes": _tname(t)}
                    if ex:
                        d["explained_by"] = ex
                    fails.append(("read-wrong-binding", "top " + lab, d))
            elif cls == "cex":
                fails.append(("private-var-reachable", "top " + lab, {"observed": o, "denotes": _tname(t)}))
            else:
                fails.append(("unbound-name-resolves", "top " + lab, {"observed": o}))
        else:
            obs.append(("top", lab, r1[0] if cls == "cex" else "error"))
            res.outcomes.add((lab.split(":")[0], r1[0] + ":" + r1[1].split(":")[0][:40]))
            if cls == "cex" and r1[0] != "cex":
                fails.append(("private-var-not-a-compile-error", "top " + lab, {"observed": r1[1]}))
    # 3. locals shadow Vars (and only the Var of that very name)
    for n in model.names:
        t = model.resolve(c, n)
        parts = [n]
        exp = [("let:" + n, "local", None)]
        if (c, n) in model.vars:
            parts.append("%s/%s" % (nsn[c], n))
            exp.append(("letown:" + n, (c, n), "sym"))
        for m in model.names:
            if m != n and model.resolve(c, m) is not None and not (model.resolve(c, m)[0] != c and "private" in model.vars[model.resolve(c, m)]["flags"]):
                parts.append(m)
                exp.append(("let[%s]:%s" % (n, m), model.resolve(c, m), "sym"))
        r1 = try_eval(sess, "(let [%s %d] [%s])" % (n, LOCAL, " ".join(parts)))
        if r1[0] != "ok" or len(r1[1]) != len(parts):
            obs.append(("let", n, r1[0]))
            fails.append(("read-raises", "let " + n, {"observed": r1[1] if r1[0] != "ok" else "wrong arity"}))
            continue
        for (lab, tt, mode), val in zip(exp, r1[1]):
            if tt == "local":
                o = classify(val)
                obs.append(("let", lab, o))
                if o != LOCAL:
                    fails.append(("local-does-not-shadow", "let " + lab, {"expected": LOCAL, "observed": o}))
            else:
                _check_elem(model, lab, tt, mode, dc(tt, mode), val, "let", obs, fails, c, linked_now, res)
    # 4. functions: compiled now / earlier, called as objects; and called through a compiled call (inlined or not)
    for rd in readers:
        if rd.fn is None:
            continue
        now = rd.k == model.step - 1
        where = "fn-now" if now else "fn-earlier%d" % (model.step - 1 - rd.k)
        try:
            vals = rd.fn()
            err = None
        except Exception as e:  # noqa
            vals, err = None, type(e).__name__ + ": " + _short(e)
        if err is not None or len(vals) != len(rd.elems):
            obs.append((where, "call", "error"))
            fails.append(("read-raises", where, {"observed": err or "wrong arity", "reader": rd.k}))
        else:
            for (lab, t, mode, direct_then), val in zip(rd.elems, vals):
                _check_elem(model, lab, t, mode, direct_then, val, where, obs, fails, rd.ns, rd.linked, res)
        # compiled call
        if not rd.elems:
            continue
        call = "(rd%d)" % rd.k if rd.ns == c else "(%s/rd%d)" % (nsn[rd.ns], rd.k)
        wherec = ("call-now" if now else "call-earlier%d" % (model.step - 1 - rd.k)) + ("" if rd.ns == c else "-from-other-ns")
        r1 = try_eval(sess, call)
        may_fail = inline and rd.ns != c and any(t != _CORE and "private" in model.vars[t]["flags"] for (_, t, _, _) in rd.elems)
        if r1[0] != "ok" or len(r1[1]) != len(rd.elems):
            obs.append((wherec, "call", "error"))
            if not (may_fail and r1[0] == "cex"):
                fails.append(("read-raises", wherec, {"observed": r1[1] if r1[0] != "ok" else "wrong arity", "reader": rd.k, "call": _generic(call, nsn)}))
            continue
        for (lab, t, mode, direct_then), val in zip(rd.elems, r1[1]):
            direct = dc(t, mode) if inline else direct_then
            linked = (c in model.linked) if inline else rd.linked
            _check_elem(model, lab, t, mode, direct, val, wherec, obs, fails, c if inline else rd.ns, linked, res)


# --------------------------------------------------------------------------- enumeration


def model_after(group, hist):
    m = Model(GROUPS[group])
    for op in hist:
        m.apply(op)
    return m


def check_history(group, hist, res):
    """All four configurations of one history + the differential comparison."""
    allobs = {}
    failed_reads = set()
    m = model_after(group, hist)
    for cfg in CONFIGS:
        fails = []
        allobs[cfg] = run_history(group, hist, cfg, res, fails)
        for kind, read, d in fails:
            failed_reads.add(read)
            case = {"group": group, "history": [list(o) for o in hist], "config": {"use_var_indirection": cfg[0], "inline_functions": cfg[1]}, "read": read}
            res.fail(kind, case, **d)
    if not m.altered:
        base = allobs[(True, False)]
        for cfg in CONFIGS[:3]:
            o = allobs[cfg]
            if len(o) != len(base):
                if not failed_reads:
                    res.fail("configurations-disagree", {"group": group, "history": [list(x) for x in hist], "config": "all", "read": "number of reads"}, observed=[len(o), len(base)])
                continue
            for a, b in zip(o, base):
                if a != b and ("%s %s" % (a[0], a[1])) not in failed_reads and a[0] not in failed_reads:
                    res.fail(
                        "configurations-disagree",
                        {"group": group, "history": [list(x) for x in hist], "config": "all", "read": "%s %s" % (a[0], a[1])},
                        observed={"use_var_indirection=%s inline=%s" % cfg: a[2], "use_var_indirection=True inline=False": b[2]},
                    )
    if m.vars:
        res.distinct.add((group, tuple(hist)))
    res.part("group:" + group, histories=1, **{"len%d" % len(hist): 1})


def explore(group, prefix, max_len, res):
    """bfs.search over the extensions of `prefix` (every history is its own state)."""
    sessions = [0]

    def actions(hist):
        return model_after(group, hist).enabled(hist[-1] if hist else None)

    def step(hist, op):
        h2 = hist + (op,)
        check_history(group, h2, res)
        sessions[0] += 1
        if sessions[0] % 200 == 0:
            gc.collect()
        return h2

    st = bfs.search(tuple(prefix), actions, step, max_len - len(prefix))
    return st


def shard_fn(args):
    group, prefix, max_len = args
    res = Result()
    t0 = time.process_time()
    if prefix is None:
        # the short histories that are prefixes of the other shards
        plen = args[3]
        frontier = [()]
        for _ in range(plen):
            nxt = []
            for h in frontier:
                for op in model_after(group, h).enabled(h[-1] if h else None):
                    h2 = h + (op,)
                    check_history(group, h2, res)
                    nxt.append(h2)
            frontier = nxt
    else:
        st = explore(group, prefix, max_len, res)
        res.part("bfs", transitions=st.transitions, states=st.states - 1)
    res.part("cpu", cpu_s=round(time.process_time() - t0, 2))
    return res.compact()


def prefixes(group, plen):
    frontier = [()]
    for _ in range(plen):
        nxt = []
        for h in frontier:
            for op in model_after(group, h).enabled(h[-1] if h else None):
                nxt.append(h + (op,))
        frontier = nxt
    return frontier


def plan(tier):
    if tier == "quick":
        return {"dash": 3, "qmark": 3, "builtin": 3, "single": 2, "cross": 2}
    return {"dash": 5, "qmark": 4, "builtin": 4, "cross": 4, "single": 3}


def run(tier, seed):
    res = Result()
    shards = []
    for group, L in plan(tier).items():
        plen = 1 if L <= 3 else 2
        plen = min(plen, L)
        shards.append((group, None, L, plen))
        if L > plen:
            for p in prefixes(group, plen):
                shards.append((group, p, L))
    # biggest first would need sizes; rotate deterministically by seed instead
    if seed:
        k = seed % len(shards)
        shards = shards[k:] + shards[:k]
    gc.collect()
    gc.freeze()
    for r in env.parallel(shard_fn, shards):
        res.merge(r)
    res.notes.append("configurations: " + ", ".join("use-var-indirection=%s/inline-functions=%s" % c for c in CONFIGS))
    cnt = Counter((f["kind"], f.get("explained_by", "-")) for f in res.failures)
    res.part("failure-kinds", **{"%s|%s" % k: v for k, v in cnt.items()})
    return res


def replay(failure):
    case = failure["case"]
    group = case["group"]
    hist = tuple(tuple(o) for o in case["history"])
    res = Result()
    check_history(group, hist, res)
    for f in res.failures:
        if f["kind"] == failure["kind"] and f["case"] == case:
            return f
    return None
