"""C10 — a name denotes one binding, and reading it sees the value last given to it.

Engine B (breadth-first search over short operation histories, every history rebuilt by replay in fresh
namespaces; driver: vlib.bfs.search without state merging).  A history is a sequence of top-level forms
typed into a REPL-like session (one compiler context, *ns* thread-bound) over two fresh namespaces, A
(the starting one) and B:

    (def n V) (def ^:dynamic n V) (def ^:redef n V) (def ^:private n V)      in the current namespace
    (in-ns 'other)   (require '[other :as o])   (refer 'other :only '[n])    (the real core functions)
    (alter-var-root #'n (fn [_] V))                                          on whatever bare n denotes

with every V a fresh integer, so an observed value identifies the binding and the write it came from.
The names of one history come from one *name group* (names that munge alike are in the same group).

Every history is executed under direct linking and under use-var-indirection (two separate sessions).
Inside a session every read is compiled twice, with inline-functions on and off (two compiler contexts
over the same namespaces); the operations and the function definitions contain no inlinable call, so they
are compiled once per session.  After the LAST step of every history (every prefix is a history of its
own, so this is "after every step") all spellings of all names of the group are read from the current
namespace:

    n   Cur/n   Other/n   o/n   @#'Cur/n   @#'Other/n          at top level
    (let [n 7] [n Cur/n m])                                    a local shadows the Var of that name only
    (binding [n 9] [n Cur/n @#'Cur/n ...])                     for every ^:dynamic Var; the functions below are also
                                                               called under that thread binding
    (fn [] [...all resolvable spellings...])                   compiled NOW and after every EARLIER step, called
                                                               as an object
    (defn ^:inline rdK [] [n o/n ...])                         defined after every step at which what its body
                                                               denotes is new; called through a compiled call
                                                               (rdK) / (Other/rdK), also under caller locals
                                                               (let [n 7] (rdK)): with inline-functions on the body
                                                               is spliced into the calling form

The oracle is a reference dict (namespace, name) -> (last def value, current root, flags), see ASSUMPTIONS.

Known defect (F-10a): def'ed names that munge alike share one Python module global.  The check carries a model
of exactly that defect (Model.globs / explain()) and tags the failures it explains.
"""
from __future__ import annotations

import gc
import sys
import time
from collections import Counter

from vlib import bfs, env
from vlib.evidence import Result

PROPERTY = "C10"
LEVEL = "model_checking"

GROUPS = {
    "dash": ("a-b", "a_b"),
    "qmark": ("x?", "x__Q__"),
    "builtin": ("print", "print_"),
    "single": ("class", "v'", "plain"),
    "cross": ("a-b", "plain"),
    "one": ("plain",),
}
FLAGS = ("plain", "dynamic", "redef", "private")
CONFIGS = ((False, True), (False, False), (True, True), (True, False))  # (use-var-indirection, inline-functions)
LOCAL = 7  # the value every shadowing local is bound to
BOUND = 9  # the value of every thread binding
MAX_LISTED_EXPLAINED = 400  # per worker: explained (known-defect) cases written out; all are counted

BOUNDS = {
    "quick": "every history of length <=3 over the name groups {a-b,a_b} and {plain} (length <=4 over {plain} with plain defs only), and of length <=2 over {x?,x__Q__}, "
    "{print,print_}, {class,v',plain}; alphabet of a group of k names: 4k defs (plain/dynamic/redef/private) + k nested defs ((((fn [] (def n v0) (fn [] (def n v))))), at most one per history) + k "
    "alter-var-roots + k refers + in-ns + require (enabled operations only); each history under direct linking and under "
    "use-var-indirection, every read compiled with inline-functions on and off; all spellings of all group names read after "
    "every history",
    "thorough": "length <=4 over {a-b,a_b}; length <=5 over {plain} and over {a-b,a_b} with plain defs only; length <=3 over "
    "{x?,x__Q__}, {print,print_}, {class,v',plain} and {a-b,plain}; same alphabet, configurations and reads",
}
RULE = (
    "engine B: breadth-first enumeration of operation histories (no merging: every history is its own state because the "
    "functions compiled after earlier steps are part of what is observed); a history is rebuilt by replaying its forms through "
    "the real reader/compiler in two fresh namespaces, once per linking mode; symmetry reductions: a history does not "
    "start with in-ns (the two namespaces are interchangeable at the start) and never contains two in-ns in a row; an operation "
    "is enabled when it can have an effect (refer: the other namespace interns the name; alter-var-root: the bare name denotes "
    "a Var of the history; require: not yet required); names of different groups never occur in one history; a case is distinct "
    "by (group, history); non-trivial = at least one Var exists when the reads happen"
)
ASSUMPTIONS = [
    "reference: bare name = local > interned in the current namespace > referred; Cur/n, Other/n and o/n (alias) = the Var "
    "interned under n in that namespace; @#'ns/n = its current root; a name that is neither interned nor referred is an error "
    "unless basilisp.core is referred under it (print, class), then it is the core function",
    "a read compiled while the Var was neither ^:dynamic nor ^:redef, with direct linking, may return either the value of the "
    "last def or the current root after alter-var-root (the property lets direct-linked code miss root mutations); every other "
    "read must return the current root; every read must see every re-def; under a thread binding of a ^:dynamic Var every "
    "read returns the bound value, except reads compiled as direct links while the Var was not yet dynamic",
    "the flags that count for a function compiled earlier are those the Var had when the function was compiled; a function "
    "compiled earlier keeps denoting the Var its symbol resolved to then",
    "where the reference language would reject a spelling but basilisp resolves it through the namespace's refers (Other/n or "
    "Cur/n for a name that is only referred there, Other/print) both an error and the referred Var's value are accepted; the same "
    "for a bare referred name whose Var was re-def'ed ^:private after the refer, and for #'Other/n of a private Var",
    "a private Var read through Other/n or o/n must be a compile-time error (CompilerException); any exception counts as an "
    "error for unresolvable names (the analyzer raises AssertionError for a bare name whose munged form is a module global)",
    "an ^:inline function whose body names a Var that is private (now) may fail to compile when called from the other "
    "namespace with inlining on; a wrong VALUE is never accepted",
    "the inline-functions option only changes how call forms are analyzed: operations and function definitions of a history "
    "(which contain no call of an inlinable function) are compiled once per linking mode and shared by the reads of both "
    "inlining modes; a second ^:inline function with the same body in the same namespace is not defined again",
    "the four configurations must agree on every read of a history without alter-var-root (reads the oracle leaves open included)",
    "in-ns / require / refer / alter-var-root are the real core functions; the required namespace is created programmatically "
    "(Namespace.get_or_create; Namespace.require falls back to existing namespaces when no module file exists)",
]

_CORE = "core"  # pseudo target: the basilisp.core Var referred under this name


def munge(name):
    from basilisp.lang.util import munge as m

    return m(name)


# --------------------------------------------------------------------------- reference model


class Model:
    """The reference: plain dicts.  `globs` and `linked` belong to the *defect model* of F-10a only."""

    def __init__(self, names):
        self.names = names
        self.cur = 0
        self.vars = {}  # (ns, name) -> dict(val, root, flags)
        self.refers = {}  # (ns, name) -> (ns2, name)
        self.alias = set()  # namespaces in which `o` aliases the other one
        self.linked = set()  # namespaces whose module holds the other namespace's module (require or refer ran)
        self.globs = {}  # (ns, munged) -> (value, name)   last def stored under that Python global
        self.altered = False
        self.nested_used = False
        self.step = 0

    def resolve(self, ns, n):
        if (ns, n) in self.vars:
            return (ns, n)
        return self.refers.get((ns, n))

    def enabled(self, last_op):
        c, o = self.cur, 1 - self.cur
        ops = []
        for n in self.names:
            for f in FLAGS:
                ops.append(("def", n, f))
            if not self.nested_used:
                # a def executed inside a function that is itself created by a function def'ing the same name first: the
                # value last given is the inner one (at most one such step per history, to keep the alphabet small)
                ops.append(("def", n, "nested"))
        for n in self.names:
            if self.resolve(c, n) is not None:
                ops.append(("alter", n))
        if self.step > 0 and (last_op is None or last_op[0] != "in-ns"):
            ops.append(("in-ns",))
        if c not in self.alias:
            ops.append(("require",))
        for n in self.names:
            if (o, n) in self.vars and self.refers.get((c, n)) != (o, n):
                ops.append(("refer", n))
        return ops

    def value_of(self, kind):
        return 10 * (self.step + 1) + (1 if kind == "def" else 2)

    def apply(self, op):
        c, o = self.cur, 1 - self.cur
        k = op[0]
        if k == "def":
            v = self.value_of("def")
            flag = op[2]
            if flag == "nested":
                flag, self.nested_used = "plain", True
            self.vars[(c, op[1])] = {"val": v, "root": v, "flags": frozenset([flag])}
            self.globs[(c, munge(op[1]))] = (v, op[1])
        elif k == "alter":
            t = self.resolve(c, op[1])
            self.vars[t]["root"] = self.value_of("alter")
            self.altered = True
        elif k == "in-ns":
            self.cur = o
        elif k == "require":
            self.alias.add(c)
            self.linked.add(c)
        elif k == "refer":
            self.linked.add(c)
            if "private" not in self.vars[(o, op[1])]["flags"]:
                self.refers[(c, op[1])] = (o, op[1])
        else:
            raise ValueError(op)
        self.step += 1

    def form(self, op, nsn):
        c, o = self.cur, 1 - self.cur
        k = op[0]
        if k == "def" and op[2] == "nested":
            return "(((fn [] (def %s %d) (fn [] (def %s %d)))))" % (op[1], self.value_of("def") + 2, op[1], self.value_of("def"))
        if k == "def":
            meta = "" if op[2] == "plain" else "^:%s " % op[2]
            return "(def %s%s %d)" % (meta, op[1], self.value_of("def"))
        if k == "alter":
            return "(alter-var-root #'%s (fn [_] %d))" % (op[1], self.value_of("alter"))
        if k == "in-ns":
            return "(in-ns '%s)" % nsn[o]
        if k == "require":
            return "(require '[%s :as o])" % nsn[o]
        if k == "refer":
            return "(refer '%s :only '[%s])" % (nsn[o], op[1])
        raise ValueError(op)

    # ---- what a read may return

    def indirect(self, t):
        fl = self.vars[t]["flags"]
        return "dynamic" in fl or "redef" in fl

    def allowed(self, t, direct):
        """Values a symbol read of Var t may return; `direct` = compiled as a direct link candidate."""
        if t == _CORE:
            return {"core"}
        v = self.vars[t]
        return {v["val"], v["root"]} if direct else {v["root"]}

    def spellings(self, nsn):
        """All single spellings of all names from the current namespace:
        list of (label, text, cls, target, mode) ; cls in must / err / maybe ; mode in sym / deref."""
        c, o = self.cur, 1 - self.cur
        out = []
        for n in self.names:
            core = n in ("print", "class")
            # bare
            t = self.resolve(c, n)
            if t is not None:
                cls = "must"
                if t[0] != c and "private" in self.vars[t]["flags"]:
                    cls = "maybe"  # referred while public, private now
                out.append(("bare:" + n, n, cls, t, "sym"))
            elif core:
                out.append(("bare:" + n, n, "must", _CORE, "sym"))
            else:
                out.append(("bare:" + n, n, "err", None, "sym"))
            # qualified by the own namespace name
            for lab, pre, mode in (("own:", "%s/%s" % (nsn[c], n), "sym"), ("dvown:", "@#'%s/%s" % (nsn[c], n), "deref")):
                if (c, n) in self.vars:
                    out.append((lab + n, pre, "must", (c, n), mode))
                elif (c, n) in self.refers:
                    out.append((lab + n, pre, "maybe", self.refers[(c, n)], mode))
                elif core:
                    out.append((lab + n, pre, "maybe", _CORE, mode))
                else:
                    out.append((lab + n, pre, "err", None, mode))
            # through the other namespace: full name, alias, var-quote
            for lab, pre, mode, need_alias in (
                ("oth:", "%s/%s" % (nsn[o], n), "sym", False),
                ("alias:", "o/%s" % n, "sym", True),
                ("dvoth:", "@#'%s/%s" % (nsn[o], n), "deref", False),
            ):
                if need_alias and c not in self.alias:
                    out.append((lab + n, pre, "err", None, mode))
                elif (o, n) in self.vars:
                    if "private" in self.vars[(o, n)]["flags"]:
                        out.append((lab + n, pre, "maybe" if mode == "deref" else "cex", (o, n), mode))
                    else:
                        out.append((lab + n, pre, "must", (o, n), mode))
                elif (o, n) in self.refers:
                    out.append((lab + n, pre, "maybe", self.refers[(o, n)], mode))
                elif core:
                    out.append((lab + n, pre, "maybe", _CORE, mode))
                else:
                    out.append((lab + n, pre, "err", None, mode))
        return out


# --------------------------------------------------------------------------- the real thing

_COUNTER = [0]


class Session:
    """Two fresh namespaces, two compiler contexts (inline-functions on / off) over them, *ns* thread-bound for the
    whole history (as the REPL does)."""

    def __init__(self, uvi):
        from basilisp.lang import compiler, runtime, symbol as sym

        self.rt, self.compiler, self.sym = runtime, compiler, sym
        from basilisp.lang import reader

        self.reader = reader
        _COUNTER[0] += 1
        import os

        tag = "p%dh%d" % (os.getpid(), _COUNTER[0])
        self.nsn = ("c10.%sa" % tag, "c10.%sb" % tag)
        self.ctxs = {}
        for inline in (True, False):
            opts = compiler.compiler_opts(use_var_indirection=uvi, inline_functions=inline, warn_on_var_indirection=False)
            self.ctxs[inline] = compiler.CompilerContext("<c10>", opts=opts)
        core = runtime.Namespace.get(sym.symbol("basilisp.core"))
        self.nss = []
        for n in self.nsn:
            ns = runtime.Namespace.get_or_create(sym.symbol(n))
            ns.refer_all(core)
            self.nss.append(ns)
        self.cm = runtime.ns_bindings(self.nsn[0])
        self.cm.__enter__()
        self.compiles = 0

    def eval(self, text, inline=True):
        last = None
        ctx = self.ctxs[inline]
        for form in self.reader.read_str(text, resolver=self.rt.resolve_alias):
            self.compiles += 1
            last = self.compiler.compile_and_exec_form(form, ctx, self.rt.get_current_ns())
        return last

    def close(self):
        try:
            self.cm.__exit__(None, None, None)
        finally:
            for ns in self.nss:
                self.rt.Namespace.remove(self.sym.symbol(ns.name))
                sys.modules.pop(ns.module.__name__, None)


def classify(val, name=None):
    """Observed value -> comparable outcome."""
    if isinstance(val, bool):
        return ("other", "bool")
    if isinstance(val, int):
        return val
    if name in ("print", "class") and val is env.core_var(name).value:
        return "core"
    if val is env.core_var("print").value or val is env.core_var("class").value:
        return "core-other"
    return ("other", type(val).__name__)


def try_eval(sess, text, inline=True):
    from basilisp.lang.compiler import CompilerException

    try:
        return ("ok", sess.eval(text, inline))
    except CompilerException as e:
        return ("cex", _short(e))
    except Exception as e:  # noqa
        return ("err", type(e).__name__ + ": " + _short(e))


def _short(e):
    s = str(e).split(" {:", 1)[0]
    import re

    return re.sub(r"c10\.p\d+h\d+", "NS", s)[:90]


def name_of(label):
    return label.split(":", 1)[1]


class Reader:
    """The functions compiled after one step: what each element denoted and how it was compiled."""

    __slots__ = ("k", "ns", "linked", "elems", "fn", "ielems", "idefined")


def explain(model, t, obs, direct_candidate, reader_ns, linked_then):
    """Defect model of F-10a: the read was compiled as a direct link to the Python global munge(name) in the module of
    the Var's namespace; another name of that namespace with the same munged form was def'ed last, and its value is
    what the read returned."""
    if not direct_candidate or t is None or t == _CORE or not isinstance(obs, int):
        return None
    g = model.globs.get((t[0], munge(t[1])))
    if g is None or g[1] == t[1] or obs != g[0]:
        return None
    if munge(g[1]) != munge(t[1]):
        return None
    if t[0] != reader_ns and not linked_then:
        return None  # without the module attribute the compiler falls back to Var.find: immune
    return "munge-collision-shared-module-global"


def _generic(text, nsn):
    return text.replace(nsn[0], "A").replace(nsn[1], "B")


def _tname(t):
    if t is None or t == _CORE:
        return t
    return "%s/%s" % ("AB"[t[0]], t[1])


class Run:
    """One history under one linking mode (both inlining modes for every read)."""

    def __init__(self, group, hist, uvi, res):
        self.group, self.hist, self.uvi, self.res = group, hist, uvi, res
        self.model = Model(GROUPS[group])
        self.obs = {True: {}, False: {}}
        self.fails = []  # (inline, kind, read, details)
        self.isigs = set()

    # -- bookkeeping

    def fail(self, inline, kind, read, **d):
        self.fails.append((inline, kind, read, d))

    def dc(self, t, mode):
        """Is a read of Var t compiled NOW a direct-link candidate?"""
        return (not self.uvi) and t != _CORE and mode == "sym" and not self.model.indirect(t)

    def check_elem(self, inline, where, lab, t, mode, direct, val, reader_ns, linked):
        m = self.model
        o = classify(val, name_of(lab))
        self.obs[inline][(where, lab)] = o
        self.res.outcomes.add((where.split("-")[0], lab.split(":")[0], o if not isinstance(o, int) else "int"))
        allowed = m.allowed(t, direct and mode == "sym")
        if o in allowed:
            return
        d = {"expected": sorted(allowed, key=repr), "observed": o, "denotes": _tname(t)}
        ex = explain(m, t, o, direct and mode == "sym", reader_ns, linked)
        if ex:
            d["explained_by"] = ex
        self.fail(inline, "read-wrong-binding", "%s %s" % (where, lab), **d)

    # -- the history

    def execute(self):
        m = self.model
        sess = Session(self.uvi)
        self.nsn = nsn = sess.nsn
        readers = []
        try:
            for i, op in enumerate(self.hist):
                text = m.form(op, nsn)
                r = try_eval(sess, text)
                self.res.transitions += 1
                if r[0] != "ok":
                    for inline in (True, False):
                        self.fail(inline, "operation-raises", "step%d" % i, form=_generic(text, nsn), observed=r[1])
                    return self
                m.apply(op)
                sp = m.spellings(nsn)
                readers.append(self.define_readers(sess, i, sp))
            self.res.evaluations += 2
            for inline in (True, False):
                self.reads(sess, sp, readers, inline)
        finally:
            sess.close()
        return self

    def define_readers(self, sess, i, sp):
        m = self.model
        must = [(lab, txt, t, mode) for (lab, txt, cls, t, mode) in sp if cls == "must"]
        rd = Reader()
        rd.k, rd.ns, rd.linked = i, m.cur, m.cur in m.linked
        rd.elems = [(lab, t, mode, self.dc(t, mode)) for (lab, txt, t, mode) in must]
        rd.fn = None
        rd.idefined = False
        if must:
            r = try_eval(sess, "(fn [] [%s])" % " ".join(txt for (_, txt, _, _) in must))
            if r[0] != "ok":
                for inline in (True, False):
                    self.fail(inline, "read-raises", "fn-definition%d" % i, observed=r[1])
            else:
                rd.fn = r[1]
        # the ^:inline reader: bare and alias spellings (the ones whose meaning depends on where they are resolved)
        imust = [e for e in must if e[0].split(":")[0] in ("bare", "alias")]
        rd.ielems = [(lab, t, mode, self.dc(t, mode)) for (lab, txt, t, mode) in imust]
        # (a second ^:inline function with the same body in the same namespace would expand to the same form;
        #  what a function compiled at this step reads when it is merely called is covered by rd.fn)
        sig = (m.cur, tuple((lab, t) for (lab, txt, t, mode) in imust))
        if imust and sig not in self.isigs:
            self.isigs.add(sig)
            r = try_eval(sess, "(defn ^:inline rd%d [] [%s])" % (i, " ".join(txt for (_, txt, _, _) in imust)))
            if r[0] != "ok":
                for inline in (True, False):
                    self.fail(inline, "read-raises", "inline-fn-definition%d" % i, observed=r[1])
            else:
                rd.idefined = True
        return rd

    def reads(self, sess, sp, readers, inline):
        m = self.model
        nsn = self.nsn
        c = m.cur
        linked_now = c in m.linked
        obs = self.obs[inline]
        must = [(lab, txt, t, mode) for (lab, txt, cls, t, mode) in sp if cls == "must"]
        # 1. top level: all resolvable spellings in one form (one form per spelling if that raises)
        if must:
            r = try_eval(sess, "[%s]" % " ".join(txt for (_, txt, _, _) in must), inline)
            if r[0] == "ok" and len(r[1]) == len(must):
                for (lab, txt, t, mode), val in zip(must, r[1]):
                    self.check_elem(inline, "top", lab, t, mode, self.dc(t, mode), val, c, linked_now)
            else:
                for lab, txt, t, mode in must:
                    r1 = try_eval(sess, txt, inline)
                    if r1[0] == "ok":
                        self.check_elem(inline, "top", lab, t, mode, self.dc(t, mode), r1[1], c, linked_now)
                    else:
                        obs[("top", lab)] = "error"
                        self.fail(inline, "read-raises", "top " + lab, observed=r1[1], denotes=_tname(t))
        # 2. spellings that must not, or need not, resolve: one form each
        for lab, txt, cls, t, mode in sp:
            if cls == "must":
                continue
            r1 = try_eval(sess, txt, inline)
            if r1[0] == "ok":
                o = classify(r1[1], name_of(lab))
                obs[("top", lab)] = o
                self.res.outcomes.add(("top", lab.split(":")[0], cls + "->resolves"))
                if cls == "maybe":
                    allowed = m.allowed(t, self.dc(t, mode))
                    if o not in allowed:
                        d = {"expected": sorted(allowed, key=repr) + ["error"], "observed": o, "denotes": _tname(t)}
                        ex = explain(m, t, o, self.dc(t, mode), c, linked_now)
                        if ex:
                            d["explained_by"] = ex
                        self.fail(inline, "read-wrong-binding", "top " + lab, **d)
                elif cls == "cex":
                    self.fail(inline, "private-var-reachable", "top " + lab, observed=o, denotes=_tname(t))
                else:
                    self.fail(inline, "unbound-name-resolves", "top " + lab, observed=o)
            else:
                obs[("top", lab)] = r1[0] if cls == "cex" else "error"
                self.res.outcomes.add(("top", lab.split(":")[0], r1[0] + ":" + r1[1].split(":")[0][:40]))
                if cls == "cex" and r1[0] != "cex":
                    self.fail(inline, "private-var-not-a-compile-error", "top " + lab, observed=r1[1])
        # 3. locals shadow Vars (and only the Var of that very name); one form for all names
        forms, exps = [], []
        for n in m.names:
            parts = [n]
            exp = [("let:" + n, "local", None)]
            if (c, n) in m.vars:
                parts.append("%s/%s" % (nsn[c], n))
                exp.append(("letown:" + n, (c, n), "sym"))
            for n2 in m.names:
                t2 = m.resolve(c, n2)
                if n2 != n and t2 is not None and not (t2[0] != c and "private" in m.vars[t2]["flags"]):
                    parts.append(n2)
                    exp.append(("let[%s]:%s" % (n, n2), t2, "sym"))
            forms.append("(let [%s %d] [%s])" % (n, LOCAL, " ".join(parts)))
            exps.append(exp)
        r = try_eval(sess, "[%s]" % " ".join(forms), inline)
        results = list(r[1]) if r[0] == "ok" else [try_eval(sess, f, inline) for f in forms]
        for n, exp, r1 in zip(m.names, exps, results):
            if r[0] == "ok":
                r1 = ("ok", r1)
            if r1[0] != "ok" or len(r1[1]) != len(exp):
                obs[("let", n)] = "error"
                self.fail(inline, "read-raises", "let " + n, observed=r1[1] if r1[0] != "ok" else "wrong arity")
                continue
            for (lab, tt, mode), val in zip(exp, r1[1]):
                if tt == "local":
                    o = classify(val)
                    obs[("let", lab)] = o
                    if o != LOCAL:
                        self.fail(inline, "local-does-not-shadow", "let " + lab, expected=LOCAL, observed=o)
                else:
                    self.check_elem(inline, "let", lab, tt, mode, self.dc(tt, mode), val, c, linked_now)
        # 3b. a thread binding of a ^:dynamic Var is what every spelling reads (compiled now; functions compiled earlier
        #     unless they were compiled as direct links, i.e. while the Var was not dynamic)
        for tkey, v in sorted(m.vars.items()):
            if "dynamic" not in v["flags"]:
                continue
            spell = [(lab, txt, mode) for (lab, txt, t, mode) in must if t == tkey]
            bare = [txt for (lab, txt, mode) in spell if lab.startswith("bare:")]
            if bare:
                r1 = try_eval(sess, "(binding [%s %d] [%s])" % (bare[0], BOUND, " ".join(txt for (_, txt, _) in spell)), inline)
                if r1[0] != "ok" or len(r1[1]) != len(spell):
                    obs[("binding", _tname(tkey))] = "error"
                    self.fail(inline, "read-raises", "binding " + _tname(tkey), observed=r1[1] if r1[0] != "ok" else "wrong arity")
                else:
                    for (lab, txt, mode), val in zip(spell, r1[1]):
                        o = classify(val, name_of(lab))
                        obs[("binding", lab)] = o
                        if o != BOUND:
                            self.fail(inline, "thread-binding-not-seen", "binding " + lab, expected=BOUND, observed=o, denotes=_tname(tkey))
            var = sess.rt.Var.find(sess.sym.symbol(tkey[1], ns=nsn[tkey[0]]))
            if var is None or not var.dynamic:
                obs[("binding-setup", _tname(tkey))] = "error"
                self.fail(inline, "read-wrong-binding", "Var.find " + _tname(tkey), expected="the ^:dynamic Var", observed=repr(var).replace(nsn[0], "A").replace(nsn[1], "B"))
                continue
            with sess.rt.bindings({var: BOUND}):
                for rd in readers:
                    if rd.fn is None or not any(t == tkey for (_, t, _, _) in rd.elems):
                        continue
                    where = "fn-under-binding%d" % (m.step - 1 - rd.k)
                    try:
                        vals = rd.fn()
                    except Exception as e:  # noqa
                        obs[(where, _tname(tkey))] = "error"
                        self.fail(inline, "read-raises", where, observed=type(e).__name__ + ": " + _short(e))
                        continue
                    for (lab, t, mode, direct_then), val in zip(rd.elems, vals):
                        if t != tkey:
                            continue
                        o = classify(val, name_of(lab))
                        obs[(where, lab)] = o
                        ok = o == BOUND or (direct_then and mode == "sym" and o in (v["val"], v["root"]))
                        if not ok:
                            d = {"expected": BOUND, "observed": o, "denotes": _tname(tkey)}
                            ex = explain(m, tkey, o, direct_then and mode == "sym", rd.ns, rd.linked)
                            if ex:
                                d["explained_by"] = ex
                            self.fail(inline, "thread-binding-not-seen", "%s %s" % (where, lab), **d)
        # 4. functions compiled now / earlier
        for rd in readers:
            age = m.step - 1 - rd.k
            if rd.fn is not None:  # called as an object (the inlining option plays no part; read in both passes)
                where = "fn-now" if age == 0 else "fn-earlier%d" % age
                try:
                    vals, err = rd.fn(), None
                except Exception as e:  # noqa
                    vals, err = None, type(e).__name__ + ": " + _short(e)
                if err is not None or len(vals) != len(rd.elems):
                    obs[(where, "call")] = "error"
                    self.fail(inline, "read-raises", where, observed=err or "wrong arity")
                else:
                    for (lab, t, mode, direct_then), val in zip(rd.elems, vals):
                        self.check_elem(inline, where, lab, t, mode, direct_then, val, rd.ns, rd.linked)
            if not rd.idefined:
                continue
            # through a compiled call of the ^:inline function (spliced into this form when inlining is on)
            other = rd.ns != c
            call = "(%s/rd%d)" % (nsn[rd.ns], rd.k) if other else "(rd%d)" % rd.k
            where = ("call-now" if age == 0 else "call-earlier%d" % age) + ("-from-other-ns" if other else "")
            for shadow in (False, True) if inline else (False,):
                text = call
                if shadow:
                    # a local of the CALLER named like a Var the function reads must not change what the function reads
                    names = sorted({name_of(lab) for (lab, _, _, _) in rd.ielems if lab.startswith("bare:")})
                    if not names:
                        continue
                    text = "(let [%s] %s)" % (" ".join("%s %d" % (n, LOCAL) for n in names), call)
                wh = where + ("-under-local" if shadow else "")
                r1 = try_eval(sess, text, inline)
                # newly compiled code of this namespace would name a Var that is private to the other namespace
                may_fail = inline and any(t != _CORE and t[0] != c and "private" in m.vars[t]["flags"] for (_, t, _, _) in rd.ielems)
                if r1[0] != "ok" or len(r1[1]) != len(rd.ielems):
                    if may_fail and r1[0] == "cex":
                        obs.update(((wh, lab), "?") for (lab, _, _, _) in rd.ielems)  # "?" = not compared
                    else:
                        obs.update(((wh, lab), "error") for (lab, _, _, _) in rd.ielems)
                        self.fail(inline, "read-raises", wh, observed=r1[1] if r1[0] != "ok" else "wrong arity", call=_generic(text, nsn))
                    continue
                for (lab, t, mode, direct_then), val in zip(rd.ielems, r1[1]):
                    if inline:
                        self.check_elem(inline, wh, lab, t, mode, self.dc(t, mode), val, c, linked_now)
                    else:
                        self.check_elem(inline, wh, lab, t, mode, direct_then, val, rd.ns, rd.linked)


# --------------------------------------------------------------------------- enumeration


def model_after(group, hist):
    m = Model(GROUPS[group])
    for op in hist:
        m.apply(op)
    return m


def _case(group, hist, cfg, read):
    return {
        "group": group,
        "history": [list(o) for o in hist],
        "config": {"use_var_indirection": cfg[0], "inline_functions": cfg[1]} if cfg else "all",
        "read": read,
    }


def check_history(group, hist, res):
    """Both linking modes x both inlining modes of one history, then the differential comparison."""
    allobs = {}
    failed = {}
    m = model_after(group, hist)
    for uvi in (False, True):
        run = Run(group, hist, uvi, res).execute()
        for inline in (True, False):
            allobs[(uvi, inline)] = run.obs[inline]
        # one failure record per (configuration, kind, explanation): the first read + how many reads
        agg = {}
        for inline, kind, read, d in run.fails:
            failed.setdefault((uvi, inline), set()).add(read)
            k = (inline, kind, d.get("explained_by"))
            if k not in agg:
                agg[k] = [read, d, 0, []]
            agg[k][2] += 1
            if len(agg[k][3]) < 8:
                agg[k][3].append(read)
        for (inline, kind, ex), (read, d, n, reads) in agg.items():
            if ex is not None:
                # failures explained by a known defect must never crowd out other failures (Result keeps 2000 per worker)
                seen = res.parts.setdefault("explained:" + ex, {"cases": 0, "listed": 0})
                seen["cases"] += 1
                if seen["listed"] >= MAX_LISTED_EXPLAINED:
                    continue
                seen["listed"] += 1
            res.fail(kind, _case(group, hist, (uvi, inline), read), reads_failing=n, reads=reads, **d)
    if not m.altered:
        base_cfg = (True, False)
        base = allobs[base_cfg]
        diffs = []
        for cfg in CONFIGS:
            if cfg == base_cfg:
                continue
            o = allobs[cfg]
            bad = failed.get(cfg, set()) | failed.get(base_cfg, set())
            for key in o:
                if key not in base or key[0] == "binding" or key[0].startswith("fn-under-binding"):
                    continue  # a read made only when inlining is on / a read under a thread binding (not a def)
                a, b = o[key], base[key]
                rd = "%s %s" % key
                if a != b and "?" not in (a, b) and rd not in bad and key[0] not in bad:
                    diffs.append((cfg, rd, a, b))
        if diffs:
            cfg, rd, a, b = diffs[0]
            res.fail(
                "configurations-disagree",
                _case(group, hist, None, rd),
                observed={"use_var_indirection=%s inline_functions=%s" % cfg: a, "use_var_indirection=True inline_functions=False": b},
                reads_failing=len(diffs),
            )
    if m.vars:
        res.distinct.add((group, tuple(hist)))
        if len(hist) >= 2:
            obs = allobs[(True, False)]
            res.sample(
                {"group": group, "history": list(hist), "reads_compared": sum(len(o) for o in allobs.values()),
                 "some_reads": {"%s %s" % k: str(v)[:40] for k, v in list(obs.items())[:6]}},
                limit=3,
            )
    res.part("group:" + group, histories=1, **{"len%d" % len(hist): 1})


def explore(group, prefix, max_len, res, alphabet=None):
    """bfs.search over the extensions of `prefix` (every history is its own state)."""
    n = [0]

    def actions(hist):
        ops = model_after(group, hist).enabled(hist[-1] if hist else None)
        if alphabet is not None and len(hist) >= alphabet[0]:
            ops = [o for o in ops if o[0] != "def" or o[2] in alphabet[1]]
        return ops

    def step(hist, op):
        h2 = hist + (op,)
        check_history(group, h2, res)
        n[0] += 1
        if n[0] % 100 == 0:
            gc.collect()
        return h2

    return bfs.search(tuple(prefix), actions, step, max_len - len(prefix))


def bucket_fn(tasks):
    """One worker: a list of (group, root history, max length, alphabet restriction) searches."""
    res = Result()
    t0 = time.process_time()
    for group, prefix, max_len, alphabet in tasks:
        st = explore(group, prefix, max_len, res, alphabet)
        res.part("bfs", transitions=st.transitions, histories=st.states - 1, frontier_exhausted=st.frontier_exhausted)
        if not st.frontier_exhausted:
            res.caps.append("search below %r cut: %s" % (prefix, st.aborted or st.cap))
    res.part("cpu", cpu_s=round(time.process_time() - t0, 2))
    return res.compact()


def prefixes(group, plen, alphabet=None):
    frontier = [()]
    for d in range(plen):
        nxt = []
        for h in frontier:
            ops = model_after(group, h).enabled(h[-1] if h else None)
            if alphabet is not None and d >= alphabet[0]:
                ops = [o for o in ops if o[0] != "def" or o[2] in alphabet[1]]
            for op in ops:
                nxt.append(h + (op,))
        frontier = nxt
    return frontier


# (group, max length, None | (from step index, def flags kept from that step on))
PLAN = {
    # ("one", 4, plain defs only): the shortest history after which a function compiled in one namespace with an alias
    # spelling is called from the other namespace has four steps (def, in-ns, require, in-ns)
    "quick": [("dash", 3, None), ("one", 3, None), ("one", 4, (0, ("plain",))), ("qmark", 2, None), ("builtin", 2, None), ("single", 2, None)],
    "thorough": [
        ("dash", 4, None),
        ("dash", 5, (0, ("plain",))),
        ("one", 5, None),
        ("qmark", 3, None),
        ("builtin", 3, None),
        ("cross", 3, None),
        ("single", 3, None),
    ],
}


def run(tier, seed):
    res = Result()
    tasks = []
    for group, L, alphabet in PLAN[tier]:
        plen = L - 1 if L <= 3 else 2
        tasks.append((group, (), plen, alphabet))  # the histories no longer than the roots below
        for p in prefixes(group, plen, alphabet):
            tasks.append((group, p, L, alphabet))
    # a forked worker costs about a second before it does anything useful: few, equally mixed buckets
    nb = max(1, min(len(tasks), 2 * env.ncores()))
    k = seed % nb if seed else 0
    buckets = [tasks[(i + k) % nb :: nb] for i in range(nb)]
    gc.collect()
    gc.freeze()
    for r in env.parallel(bucket_fn, buckets):
        res.merge(r)
    res.notes.append("configurations: " + ", ".join("use-var-indirection=%s/inline-functions=%s" % c for c in CONFIGS))
    cnt = Counter((f["kind"], f.get("explained_by", "-")) for f in res.failures)
    res.part("failure-kinds", **{"%s|%s" % k: v for k, v in cnt.items()})
    return res


def replay(failure):
    case = failure["case"]
    group = case["group"]
    hist = tuple(tuple(o) for o in case["history"])
    res = Result()
    check_history(group, hist, res)
    for f in res.failures:
        if f["kind"] == failure["kind"] and f["case"] == case:
            return f
    return None
