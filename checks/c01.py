"""C01 — compiled programs compute the values their source denotes.

Engine C: every well-scoped term of the special-form fragment up to a node bound (PROG(n)) and seeded
skeleton families, each placed in every syntactic context, under naming schemes and every combination of
code-generation options, compiled and run by the real reader/analyzer/generator; oracle = an independent
big-step reference evaluator (vlib/progs.py).
"""
from __future__ import annotations

import itertools

from vlib import env, progs
from vlib.evidence import Result

PROPERTY = "C01"
LEVEL = "model_checking"
BOUNDS = {
    "quick": "PROG(4) (1,422 terms) x 7 contexts x 8 option sets x 2 naming schemes; PROG(5) (15,878) at top level + fn-body context under default options; skeleton families (closures x rebinding, shadowing chains, try/finally) with holes filled by all terms <=2 nodes",
    "thorough": "PROG(5) x 7 contexts x 8 option sets x 3 naming schemes; PROG(6) (186,358) x 7 contexts under default options; skeleton families with holes <=3 nodes",
}
RULE = (
    "engine C: every term with <= n nodes over {nil, 1, variables in scope, throw, if, do, let*, fn* (0/1 params), call (0/1 args), loop*/recur, try/catch, "
    "try/finally, def, vector literal} (alpha-canonical, recur only in tail position) x context x naming x options is read, compiled and executed; "
    "distinct = (term, context, naming, options); non-trivial = term has >= 2 nodes; programs on which the reference evaluator exceeds its step budget are skipped and counted"
)
ASSUMPTIONS = [
    "reference evaluator vlib/progs.py (environments are immutable tuples: closures capture values; only nil/false falsey; recur rebinds; exceptions by class)",
    "call errors (calling a non-function, wrong argument count) are one class: TypeError or basilisp RuntimeException both count",
    "functions are compared as 'a function', Vars as 'a Var'; everything else structurally with concrete types",
]

CONTEXTS = {
    "top": "{P}",
    "fn-body": "((fn* [] {P}))",
    "statement": "(do {P} :after)",
    "call-arg": "(id {P})",
    "call-arg-mid": "(vector :l {P} :r)",
    "let-init": "(let* [q9 {P}] q9)",
    "if-test": "(if {P} :t :f)",
}

OPTION_SETS = [
    dict(use_var_indirection=u, inline_functions=i, generate_auto_inlines=g)
    for u in (False, True)
    for i in (True, False)
    for g in (True, False)
]


def ctx_expect(ctx, r):
    """expected canonical outcome through a context, from the reference outcome of P"""
    if r[0] == "exc":
        return r
    v = r[1]
    if ctx in ("top", "fn-body", "call-arg", "let-init"):
        return ("ok", v)
    if ctx == "statement":
        return ("ok", "kw:after")
    if ctx == "call-arg-mid":
        return ("ok", f"[kw:l {v} kw:r]")
    if ctx == "if-test":
        return ("ok", "kw:f" if v in ("nil", "false") else "kw:t")
    raise ValueError(ctx)


def canon_impl(v, depth=0):
    from basilisp.lang import keyword as kw, runtime, vector as vec

    if v is None:
        return "nil"
    if v is True or v is False:
        return str(v).lower()
    if isinstance(v, int):
        return f"int:{v}"
    if isinstance(v, kw.Keyword):
        return "kw:" + v.name
    if isinstance(v, vec.PersistentVector):
        return "[" + " ".join(canon_impl(x, depth + 1) for x in v) + "]"
    if isinstance(v, runtime.Var):
        return "var"
    if isinstance(v, BaseException):
        return "exc:" + type(v).__name__
    if callable(v):
        return "fn"
    return f"{type(v).__name__}:{v!r}"[:80]


def exc_class(e):
    from basilisp.lang import runtime

    if isinstance(e, (TypeError, runtime.RuntimeException)):
        return "CallError"
    return type(e).__name__


_EVS = {}


def evaluator(optkey):
    """one namespace per option set and worker; a fresh Evaluator every 40 forms (old symbol tables slow the analyzer down)"""
    from basilisp.lang import compiler

    st = _EVS.get(optkey)
    if st is None or st[1] >= 40:
        opts = compiler.compiler_opts(**dict(optkey))
        ns = st[0].ns if st else None
        ev = env.Evaluator(ns=ns, opts=opts)
        if st is None:
            ev.eval("(def id (fn* [x] x)) (def trlog (python/list)) (def tr (fn* [k v] (.append trlog k) v))")
        st = [ev, 0]
        _EVS[optkey] = st
    st[1] += 1
    return st[0]


def run_text(text, optkey):
    ev = evaluator(optkey)
    try:
        return ("ok", canon_impl(ev.eval(text)))
    except BaseException as e:  # noqa
        if isinstance(e, (KeyboardInterrupt, SystemExit)):
            raise
        return ("exc", exc_class(e))


def ref_outcome(term):
    """('ok', canon) | ('exc', cls) | None if the reference diverges; plus the late-binding (defect model) outcome"""
    try:
        r = progs.Ref().run(term)
    except progs.Diverges:
        return None
    except RecursionError:
        return None
    return ("ok", progs.canon_ref(r[1])) if r[0] == "ok" else r


def check_term(res, term, contexts, namings, optsets, family):
    r = ref_outcome(term)
    if r is None:
        res.part("skipped", diverging_in_reference=1)
        return
    nontrivial = progs.size(term) >= 2
    for naming in namings:
        text = progs.to_text(term, naming)
        for ctx in contexts:
            full = CONTEXTS[ctx].replace("{P}", text)
            exp = ctx_expect(ctx, r)
            for opts in optsets:
                optkey = tuple(sorted(opts.items()))
                got = run_text(full, optkey)
                res.evaluations += 1
                res.transitions += 1
                if nontrivial:
                    res.distinct_count += 1
                res.outcomes.add(got)
                if got != exp:
                    expl = explain(term, naming, ctx, got, exp)
                    res.fail(
                        "result-differs-from-reference",
                        {"term": repr(term), "text": full, "context": ctx, "naming": naming, "options": {k: v for k, v in opts.items()}, "family": family},
                        got=list(got), expected=list(exp), explained_by=expl,
                    )


# ----------------------------------------------------------------------------- defect models (for known findings)


class LateRef(progs.Ref):
    """Model of F-01a: a loop* / fn parameter rebound by recur is ONE Python local shared by every closure created in the
    loop body (late binding), so closures created before a recur see the value bound by the last recur."""

    def _ev(self, t, env, ctr):
        tag = t[0]
        if tag == "var":
            self.tick()
            k = ctr[0]
            ctr[0] += 1
            v = env[t[1]]
            if isinstance(v, list):
                v = v[0]
            if self.trace:
                self.log.append(k)
            return v
        if tag == "loop":
            self.tick()
            k = ctr[0]
            ctr[0] += 1
            v = self._ev(t[1], env, ctr)
            cell = [v]
            start = ctr[0]
            while True:
                self.tick()
                ctr[0] = start
                try:
                    r = self._ev(t[2], env + (cell,), ctr)
                    break
                except progs.Recur as rc:
                    cell[0] = rc.val
            ctr[0] = start + progs.size(t[2])
            if self.trace:
                self.log.append(k)
            return r
        return super()._ev(t, env, ctr)

    def call(self, f, args):
        self.tick()
        if isinstance(f, progs.Closure) and f.arity == 1 and len(args) == 1:
            body, k0 = f.body
            cell = [args[0]]
            env = f.env + (cell,)
            while True:
                self.tick()
                try:
                    return self._ev(body, env, [k0])
                except progs.Recur as rc:
                    cell[0] = rc.val
        return super().call(f, args)


def has_closure_under_recur_target(t, under=False):
    tag = t[0]
    if tag in ("fn0", "fn1") and under:
        return True
    nu = under or tag in ("loop", "fn1")
    return any(has_closure_under_recur_target(c, nu) for c in t[1:] if isinstance(c, tuple))


def _munge(name):
    from basilisp.lang.util import munge

    return munge(name)


def collide_params(term, naming):
    """Model of F-01b: fn parameters are emitted under their munged name without a unique suffix, so a parameter of an
    inner fn whose name munges like an outer parameter's (a-b / a_b, x? / x__Q__) shadows it: a reference to the outer
    parameter from inside the inner fn reads the inner one.  Returns the term with such references redirected, or None
    if nothing changes."""
    names = progs.NAMING[naming]
    changed = [False]

    def go(t, scope):
        tag = t[0]
        if tag == "var":
            i = t[1]
            if scope[i][0] == "param":
                py = scope[i][1]
                for j in range(len(scope) - 1, i, -1):
                    if scope[j][0] == "param" and scope[j][1] == py:
                        changed[0] = True
                        return ("var", j)
            return t
        if tag == "fn1":
            return ("fn1", go(t[1], scope + (("param", _munge(names[len(scope)])),)))
        if tag in ("let", "loop"):
            return (tag, go(t[1], scope), go(t[2], scope + (("local", None),)))
        if tag == "try":
            return ("try", go(t[1], scope), go(t[2], scope + (("local", None),)))
        return (tag,) + tuple(go(c, scope) if isinstance(c, tuple) else c for c in t[1:])

    out = go(term, ())
    return out if changed[0] else None


def explain(term, naming, ctx, got, exp):
    # F-01a: closure created inside a loop*/fn body sees the variable as rebound by a later recur
    if has_closure_under_recur_target(term):
        try:
            r = LateRef().run(term)
            late = ("ok", progs.canon_ref(r[1])) if r[0] == "ok" else r
            if ctx_expect(ctx, late) == got:
                return "closure-sees-loop-local-rebound-by-later-recur"
        except (progs.Diverges, RecursionError):
            if got == ("exc", "RecursionError"):
                return "closure-sees-loop-local-rebound-by-later-recur"
    # F-02: dependency statements of a later sibling run before an earlier plain sibling (only the escaping exception differs)
    try:
        h = progs.HoistRef().run(term)
        hoist = ("ok", progs.canon_ref(h[1])) if h[0] == "ok" else h
        if ctx_expect(ctx, hoist) == got and got[0] == "exc" and exp[0] == "exc":
            return "dependency-hoisting-changes-which-exception-escapes(F-02)"
        if ctx_expect(ctx, hoist) == got and _has_try(term):
            # the same reordering inside a try: the exception that is raised first is a different one, so a different
            # handler (or none) catches it and the VALUE differs (needs >= 5 nodes: thorough tier only)
            return "dependency-hoisting-changes-which-handler-catches(F-02)"
    except (progs.Diverges, RecursionError):
        pass
    # F-01b: fn parameters whose names munge alike
    t2 = collide_params(term, naming)
    if t2 is not None:
        r2 = ref_outcome(t2)
        if r2 is not None and ctx_expect(ctx, r2) == got:
            return "fn-parameters-with-equal-munged-names-share-one-python-name"
    return ""


# ----------------------------------------------------------------------------- skeleton families


def families(hole_size):
    """larger terms the property names explicitly, with holes filled exhaustively by all small terms"""
    V0 = ("var", 0)
    out = []
    small1 = [t for k in range(1, hole_size + 1) for t in progs.terms(k, 1, None)]  # one variable in scope
    small2 = [t for k in range(1, hole_size + 1) for t in progs.terms(k, 2, None)]
    # closure created in a loop iteration, loop variable later rebound by recur, closure called after the loop
    for h in small1:
        out.append(("loop-closure", ("call0", ("loop", ("nil",), ("if", V0, V0, ("recur", ("fn0", h)))))))
        out.append(("loop-closure-1", ("call1", ("loop", ("nil",), ("if", V0, V0, ("recur", ("fn1", ("var", 1))))), h if not _uses_var(h) else ("one",))))
        out.append(("fn-recur-closure", ("call0", ("call1", ("fn1", ("if", V0, V0, ("recur", ("fn0", h)))), ("nil",)))))
        # closure captured in a let inside the loop (value capture through a let-bound copy)
        out.append(("loop-let-closure", ("call0", ("loop", ("nil",), ("if", V0, V0, ("let", V0, ("recur", ("fn0", ("vec", ("var", 1), h)))))))))
    # shadowing chains: let in let in fn in let
    for h in small2:
        out.append(("shadow", ("let", ("one",), ("let", ("nil",), ("call0", ("fn0", ("let", ("vec", ("var", 0), ("var", 1)), h)))))))
        out.append(("shadow-fn", ("call1", ("fn1", ("call1", ("fn1", h), ("nil",))), ("one",))))
    closed = [t for k in range(1, hole_size + 1) for t in progs.terms(k, 0, None)]
    # a def executed in a function nested in a function that def'ed the same name first, then a read of the name: from the
    # enclosing function, and at top level (the value a name denotes is the one last given to it, wherever the def ran)
    G = ("gref",)
    for h in closed:
        inner = ("call0", ("fn0", ("def", h)))
        out.append(("nested-def-read-in-fn", ("do", ("def", ("nil",)), ("call0", ("fn0", ("do", ("def", ("one",)), ("do", inner, G)))))))
        out.append(("nested-def-read-after", ("do", ("call0", ("fn0", ("do", ("def", ("one",)), inner))), G)))
    # a function that reads a name and def's it later, and a def whose init reads the name being def'ed (Python wants a
    # `global` declaration before the first use in the function, wherever the def sits)
    for h in closed:
        out.append(("def-after-read-in-fn", ("do", ("def", ("one",)), ("call0", ("fn0", ("let", G, ("do", ("def", h), ("vec", ("var", 0), G))))))))
        out.append(("def-init-reads-itself", ("do", ("def", ("one",)), ("do", ("call0", ("fn0", ("def", ("if", G, h, ("nil",))))), G))))
    # try / catch / finally combinations around throwing and non-throwing bodies
    for h in closed:
        out.append(("try-finally-catch", ("try", ("finally", h, ("one",)), ("vec", ("var", 0), ("nil",)))))
        out.append(("catch-in-finally", ("finally", ("try", h, ("throw",)), ("nil",))))
        out.append(("handler-throws", ("try", ("try", h, ("throw",)), ("var", 0))))
        out.append(("if-truthiness", ("if", h, ("one",), ("nil",))))
    return out


def _has_try(t):
    return t[0] == "try" or any(_has_try(c) for c in t[1:] if isinstance(c, tuple))


def _uses_var(t):
    return t[0] == "var" or any(_uses_var(c) for c in t[1:] if isinstance(c, tuple))


# ----------------------------------------------------------------------------- run


def shard_job(args):
    kind, shard, nshards, n, contexts, namings, optsets = args
    res = Result()
    if kind == "prog":
        items = [("prog", t) for t in progs.prog(n)]
    else:
        items = families(n)
    for idx, (family, t) in enumerate(items):
        if idx % nshards != shard:
            continue
        check_term(res, t, contexts, namings, optsets, family)
    res.part(f"{kind}({n})/ctx={len(contexts)}/naming={len(namings)}/opts={len(optsets)}", terms=len(items) if shard == 0 else 0)
    if shard == 0 and kind == "prog":
        t = progs.prog(n)[-1]
        res.sample({"term": repr(t), "text": progs.to_text(t), "reference": ref_outcome(t)})
    return res.compact()


def run(tier, seed):
    res = Result()
    ALLCTX = list(CONTEXTS)
    default = [OPTION_SETS[0]]
    nsh = 32
    jobs = []
    if tier == "quick":
        jobs += [("prog", s, nsh, 4, ALLCTX, ["plain", "hostile"], OPTION_SETS) for s in range(nsh)]
        jobs += [("prog", s, nsh, 5, ["top", "fn-body"], ["plain"], default) for s in range(nsh)]
        jobs += [("fam", s, 8, 2, ["top", "fn-body", "call-arg-mid"], ["plain", "hostile"], [OPTION_SETS[0], OPTION_SETS[-1]]) for s in range(8)]
    else:
        nsh = 64
        jobs += [("prog", s, nsh, 5, ALLCTX, ["plain", "hostile", "reserved"], OPTION_SETS) for s in range(nsh)]
        jobs += [("prog", s, nsh, 6, ALLCTX, ["plain"], default) for s in range(nsh)]
        jobs += [("fam", s, 32, 3, ALLCTX, ["plain", "hostile", "reserved"], [OPTION_SETS[0], OPTION_SETS[-1]]) for s in range(32)]
    k = seed % len(jobs)
    jobs = jobs[k:] + jobs[:k]
    for r in env.parallel(shard_job, jobs):
        res.merge(r)
    return res


def replay(failure):
    case = failure["case"]
    opts = case["options"]
    optkey = tuple(sorted(opts.items()))
    got = run_text(case["text"], optkey)
    if list(got) != failure["expected"]:
        f = dict(failure)
        f["got"] = list(got)
        return f
    return None
