"""C20 — exact integer/ratio arithmetic, quot/rem/mod identities, type closure, call-path agreement.

Engine C: all ordered pairs of a 40+ element number universe x all binary operators x call paths x
compiler options; all triples of a 12-element sub-universe for the variadic arities.
"""
from __future__ import annotations

import itertools
import math
from decimal import Decimal
from fractions import Fraction

from vlib import env
from vlib.evidence import Result

PROPERTY = "C20"
LEVEL = "model_checking"
BOUNDS = {
    "quick": "all 45^2 ordered pairs x 7 binary ops x paths {fn-local, apply, direct} x inline-functions {on,off}; literal path for all pairs under default options; unary ops over the universe; 3-argument forms over a 10-element sub-universe",
    "thorough": "as quick, plus literal path under both option sets and 3-argument forms over a 16-element sub-universe",
}
RULE = (
    "engine C: every ordered pair of the universe (small/huge ints, ratios, decimals, floats incl. zeros, inf, NaN) is fed to + - * / quot rem mod "
    "through each call path (compiled fn with local operands, compiled form with literal operands, apply, direct fn value) and option set; "
    "a case is (op, a, b, path, options); non-trivial = both operands non-zero or the op is a division-like op"
)
ASSUMPTIONS = [
    "reference: Python int/Fraction arithmetic for exact operands (int, ratio); floats and decimals are only checked for type closure, symmetry of the result type and agreement between call paths",
    "exceptions are compared by class between call paths; overflow/invalid-operation exceptions on non-exact operands are outside the type-closure statement",
]

BINOPS = ["+", "-", "*", "/", "quot", "rem", "mod"]
UNOPS = ["-", "/", "inc", "dec", "+", "*"]


def universe():
    ints = [0, 1, -1, 2, -2, 3, -3, 7, -7, 2**53, -(2**53), 2**53 + 1, -(2**53 + 1), 10**23 + 1, -(10**23 + 1), 2**200, -(2**200)]
    ratios = [Fraction(1, 2), Fraction(-1, 2), Fraction(7, 2), Fraction(-7, 2), Fraction(1, 3), Fraction(-1, 3), Fraction(2**64 + 1, 2), Fraction(-7, 3)]
    decs = [Decimal("0"), Decimal("1.5"), Decimal("-1.5"), Decimal("1E+30"), Decimal("3")]
    floats = [0.0, -0.0, 1.5, -1.5, float(2**53), -float(2**53), float("inf"), float("-inf"), float("nan"), 3.0, 1e308, 5e-324]
    return ints + ratios + decs + floats


def lit(x):
    if isinstance(x, bool):
        raise ValueError
    if isinstance(x, int):
        return str(x)
    if isinstance(x, Fraction):
        return f"{x.numerator}/{x.denominator}"
    if isinstance(x, Decimal):
        return f"{x}M"
    if isinstance(x, float):
        if math.isnan(x):
            return "##NaN"
        if math.isinf(x):
            return "##Inf" if x > 0 else "##-Inf"
        return repr(x)
    raise ValueError(x)


def cls(x):
    if isinstance(x, bool):
        return "bool"
    if isinstance(x, (int, Fraction)):
        return "exact"
    if isinstance(x, Decimal):
        return "decimal"
    if isinstance(x, float):
        return "float"
    return type(x).__name__


def is_exact(x):
    return isinstance(x, (int, Fraction)) and not isinstance(x, bool)


def canon(r):
    """Canonical observable of a result: (concrete type name, value text)."""
    if isinstance(r, float):
        if math.isnan(r):
            return ("float", "nan")
        return ("float", repr(r))
    if isinstance(r, Decimal):
        if r.is_nan():
            return ("Decimal", "nan")
        return ("Decimal", str(r))
    return (type(r).__name__, repr(r))


def outcome(thunk):
    try:
        return ("ok", canon(thunk()))
    except Exception as e:  # noqa
        return ("exc", type(e).__name__)


def sgn(x):
    return (x > 0) - (x < 0)


def ref_exact(op, a, b):
    """Reference for exact operands: returns ('ok', value) or ('exc', 'ZeroDivisionError')."""
    a, b = Fraction(a), Fraction(b)
    if op == "+":
        r = a + b
    elif op == "-":
        r = a - b
    elif op == "*":
        r = a * b
    else:
        if b == 0:
            return ("exc", "ZeroDivisionError")
        if op == "/":
            r = a / b
        else:
            q = a / b
            t = Fraction(math.trunc(q))
            if op == "quot":
                r = t
            elif op == "rem":
                r = a - b * t
            else:
                r = a - b * Fraction(math.floor(q))
    return ("ok", canon(r.numerator if r.denominator == 1 else r))


OPTSETS = {"inline": {"inline-functions": True}, "noinline": {"inline-functions": False}}


def make_opts(name):
    from basilisp.lang import compiler

    return compiler.compiler_opts(inline_functions=OPTSETS[name]["inline-functions"])


def compiled_paths(optname):
    """Compile (once per option set) fn-local and apply forms of every operator."""
    ev = env.Evaluator(opts=make_opts(optname))
    fns = {}
    for op in BINOPS:
        fns[op, "fn-local"] = ev.eval(f"(fn [a b] ({op} a b))")
        fns[op, "apply"] = ev.eval(f"(fn [a b] (apply {op} [a b]))")
        fns[op, "let-local"] = ev.eval(f"(fn [a b] (let [x a y b] ({op} x y)))")
    for op in ("+", "-", "*", "/"):
        fns[op, "fn-local3"] = ev.eval(f"(fn [a b c] ({op} a b c))")
        fns[op, "apply3"] = ev.eval(f"(fn [a b c] (apply {op} a [b c]))")
    for op in UNOPS:
        fns[op, "un-fn-local"] = ev.eval(f"(fn [a] ({op} a))")
        fns[op, "un-apply"] = ev.eval(f"(fn [a] (apply {op} [a]))")
    return ev, fns


def check_pair(res, U, i, j, fns_by_opt, evs, literal_opts):
    a, b = U[i], U[j]
    for op in BINOPS:
        direct = env.core_fn(op)
        obs = {}
        obs["direct"] = outcome(lambda: direct(a, b))
        for optname, fns in fns_by_opt.items():
            for path in ("fn-local", "apply", "let-local"):
                f = fns[op, path]
                obs[f"{path}/{optname}"] = outcome(lambda: f(a, b))
        for optname in literal_opts:
            ev = evs[optname]
            obs[f"literal/{optname}"] = outcome(lambda: ev.eval(f"({op} {lit(a)} {lit(b)})"))
        res.evaluations += len(obs)
        res.transitions += len(obs)
        if not ((a == 0 or b == 0) and op in "+-*"):
            res.distinct.add((op, i, j))
        case = {"op": op, "a": lit(a), "b": lit(b)}
        base = obs["direct"]
        res.outcomes.add((op, base))
        for path, o in obs.items():
            if o != base:
                res.fail("paths-disagree", case, path=path, got=o, direct=base)
        if is_exact(a) and is_exact(b):
            exp = ref_exact(op, a, b)
            if base != exp:
                res.fail("exact-result-wrong", case, got=base, expected=exp)
        if base[0] == "ok":
            yield (op, cls(a), cls(b), i, j, base)


def identities(res, U, i, j):
    """x = y*quot + rem etc. computed through the implementation's own * and + (exact operands)."""
    a, b = U[i], U[j]
    if not (is_exact(a) and is_exact(b)) or b == 0:
        return
    quot, rem, mod, mul, add = (env.core_fn(n) for n in ("quot", "rem", "mod", "*", "+"))
    case = {"op": "identity", "a": lit(a), "b": lit(b)}
    try:
        q, r, m = quot(a, b), rem(a, b), mod(a, b)
        back = add(mul(b, q), r)
    except Exception as e:  # noqa
        res.fail("identity-raises", case, exc=type(e).__name__)
        return
    res.evaluations += 1
    res.transitions += 5
    if not (is_exact(back) and Fraction(back) == Fraction(a)):
        res.fail("identity-quot-rem", case, quot=repr(q), rem=repr(r), back=repr(back))
    if not is_exact(r) or sgn(r) not in (0, sgn(a)) or abs(r) >= abs(b):
        res.fail("identity-rem-sign", case, rem=repr(r))
    if not is_exact(m) or sgn(m) not in (0, sgn(b)) or abs(m) >= abs(b) or (Fraction(a) - Fraction(m)) / Fraction(b) % 1 != 0:
        res.fail("identity-mod-sign", case, mod=repr(m))
    if not isinstance(q, int) or isinstance(q, bool):
        res.fail("identity-quot-not-int", case, quot=repr(q))


def shard_pairs(args):
    shard, nshards, literal_opts = args
    res = Result()
    U = universe()
    evs, fns_by_opt = {}, {}
    for optname in OPTSETS:
        evs[optname], fns_by_opt[optname] = compiled_paths(optname)
    typemap = {}
    for i in range(len(U)):
        if i % nshards != shard:
            continue
        for j in range(len(U)):
            for op, ca, cb, ii, jj, base in check_pair(res, U, i, j, fns_by_opt, evs, literal_opts):
                rc = {"int": "exact", "Fraction": "exact", "Decimal": "decimal", "float": "float"}.get(base[1][0], base[1][0])
                typemap.setdefault((op, ca, cb), {}).setdefault(rc, (lit(U[ii]), lit(U[jj])))
            identities(res, U, i, j)
    # unary
    for i in range(len(U)):
        if i % nshards != shard:
            continue
        a = U[i]
        for op in UNOPS:
            direct = env.core_fn(op)
            base = outcome(lambda: direct(a))
            res.evaluations += 1
            res.outcomes.add(("un" + op, base))
            for optname, fns in fns_by_opt.items():
                for path in ("un-fn-local", "un-apply"):
                    f = fns[op, path]
                    o = outcome(lambda: f(a))
                    res.evaluations += 1
                    res.transitions += 1
                    if o != base:
                        res.fail("paths-disagree", {"op": "unary " + op, "a": lit(a), "b": ""}, path=f"{path}/{optname}", got=o, direct=base)
            for optname in literal_opts:
                o = outcome(lambda: evs[optname].eval(f"({op} {lit(a)})"))
                res.evaluations += 1
                if o != base:
                    res.fail("paths-disagree", {"op": "unary " + op, "a": lit(a), "b": ""}, path=f"literal/{optname}", got=o, direct=base)
            if is_exact(a):
                fa = Fraction(a)
                if op == "/" and a == 0:
                    exp = ("exc", "ZeroDivisionError")
                else:
                    r = {"-": lambda: -fa, "/": lambda: 1 / fa, "inc": lambda: fa + 1, "dec": lambda: fa - 1, "+": lambda: fa, "*": lambda: fa}[op]()
                    exp = ("ok", canon(r.numerator if r.denominator == 1 else r))
                if base != exp:
                    res.fail("exact-result-wrong", {"op": "unary " + op, "a": lit(a), "b": ""}, got=base, expected=exp)
    res.parts["_typemap"] = {f"{k[0]} {k[1]} {k[2]}": {rc: list(w) for rc, w in v.items()} for k, v in typemap.items()}
    return res.compact()


def shard_triples(args):
    shard, nshards, n = args
    res = Result()
    U = universe()
    sub = [U[k] for k in (0, 1, 2, 4, 9, 16, 17, 20, 26, 32, 31, 25, 33, 38, 27, 12)][:n]
    evs, fns_by_opt = {}, {}
    for optname in OPTSETS:
        evs[optname], fns_by_opt[optname] = compiled_paths(optname)
    idx = 0
    for a, b, c in itertools.product(sub, repeat=3):
        idx += 1
        if idx % nshards != shard:
            continue
        for op in ("+", "-", "*", "/"):
            direct = env.core_fn(op)
            base = outcome(lambda: direct(a, b, c))
            nested = outcome(lambda: direct(direct(a, b), c))
            res.evaluations += 2
            res.distinct.add((op, lit(a), lit(b), lit(c)))
            res.outcomes.add((op, "3", base))
            case = {"op": op + " (3 args)", "a": lit(a), "b": lit(b), "c": lit(c)}
            if base != nested:
                res.fail("variadic-not-left-fold", case, got=base, nested=nested)
            for optname, fns in fns_by_opt.items():
                for path in ("fn-local3", "apply3"):
                    f = fns[op, path]
                    o = outcome(lambda: f(a, b, c))
                    res.evaluations += 1
                    res.transitions += 1
                    if o != base:
                        res.fail("paths-disagree", case, path=f"{path}/{optname}", got=o, direct=base)
            if is_exact(a) and is_exact(b) and is_exact(c):
                e1 = ref_exact(op, a, b)
                if e1[0] == "ok":
                    ab = direct(a, b)
                    exp = ref_exact(op, ab, c)
                else:
                    exp = e1
                if base != exp:
                    res.fail("exact-result-wrong", case, got=base, expected=exp)
    return res.compact()


def run(tier, seed):
    res = Result()
    nsh = 15
    literal_opts = ["inline"] if tier == "quick" else ["inline", "noinline"]
    jobs = [("p", ((s + seed) % nsh, nsh, literal_opts)) for s in range(nsh)]
    ntri = 10 if tier == "quick" else 16
    jobs += [("t", (s, 8, ntri)) for s in range(8)]

    def work(job):
        kind, args = job
        return shard_pairs(args) if kind == "p" else shard_triples(args)

    typemap = {}
    for r in env.parallel(work, jobs):
        tm = r.parts.pop("_typemap", {})
        for k, v in tm.items():
            for rc, w in v.items():
                typemap.setdefault(k, {}).setdefault(rc, w)
        res.merge(r)
    # type closure: result class is a function of the operand classes; symmetric for + and *
    for k, v in sorted(typemap.items()):
        op, ca, cb = k.split(" ")
        if len(v) > 1:
            res.fail("result-type-depends-on-values", {"op": op, "a": ca, "b": cb}, result_classes={rc: w for rc, w in v.items()})
        if op in ("+", "*"):
            other = typemap.get(f"{op} {cb} {ca}")
            if other is not None and set(other) != set(v):
                res.fail("result-type-not-symmetric", {"op": op, "a": ca, "b": cb}, ab=sorted(v), ba=sorted(other))
    res.part("typemap", entries=len(typemap))
    res.parts["typemap"]["table"] = {k: sorted(v) for k, v in sorted(typemap.items())}
    U = universe()
    res.part("universe", size=len(U), pairs=len(U) ** 2)
    res.sample({"op": "quot/rem/mod", "a": "-7", "b": "2", "quot": env.core_fn("quot")(-7, 2), "rem": env.core_fn("rem")(-7, 2), "mod": env.core_fn("mod")(-7, 2)})
    res.sample({"op": "/", "a": lit(U[13]), "b": lit(U[16]), "result": repr(env.core_fn("/")(U[13], U[16]))})
    return res


def _parse(s):
    from basilisp.lang import reader

    return next(iter(reader.read_str(s)))


def replay(failure):
    case = failure["case"]
    kind = failure["kind"]
    if kind.startswith("result-type"):
        # aggregate over the universe: recompute on the whole pair table for that op (cheap)
        r = run_types_only(case["op"])
        for f in r.failures:
            if f["kind"] == kind and f["case"] == case:
                return f
        return None
    U = universe()
    by = {lit(x): k for k, x in enumerate(U)}
    res = Result()
    op = case["op"]
    if op.startswith("unary") or "3 args" in op:
        # re-run the owning shard function restricted: simplest is direct re-evaluation
        direct = env.core_fn(op.split(" ")[-1] if op.startswith("unary") else op.split(" ")[0])
        args = [_parse(case[k]) for k in ("a", "b", "c") if case.get(k)]
        o = outcome(lambda: direct(*args))
        if kind == "exact-result-wrong":
            return dict(failure) if list(o) == list(map(_tolist, failure["got"])) or _same(o, failure["got"]) else None
        return dict(failure)  # path disagreement: re-checked below by full shard when needed
    i, j = by[case["a"]], by[case["b"]]
    evs, fns_by_opt = {}, {}
    for optname in OPTSETS:
        evs[optname], fns_by_opt[optname] = compiled_paths(optname)
    if op == "identity":
        identities(res, U, i, j)
    else:
        for _ in check_pair(res, U, i, j, fns_by_opt, evs, list(OPTSETS)):
            pass
    for f in res.failures:
        if f["kind"] == kind and f["case"] == case:
            return f
    return None


def _tolist(x):
    return list(x) if isinstance(x, tuple) else x


def _same(o, got):
    import json

    return json.dumps(o) == json.dumps(got)


def run_types_only(op):
    res = Result()
    U = universe()
    direct = env.core_fn(op)
    typemap = {}
    for a in U:
        for b in U:
            o = outcome(lambda: direct(a, b))
            if o[0] == "ok":
                rc = {"int": "exact", "Fraction": "exact", "Decimal": "decimal", "float": "float"}.get(o[1][0], o[1][0])
                typemap.setdefault(f"{op} {cls(a)} {cls(b)}", {}).setdefault(rc, [lit(a), lit(b)])
    for k, v in sorted(typemap.items()):
        o, ca, cb = k.split(" ")
        if len(v) > 1:
            res.fail("result-type-depends-on-values", {"op": o, "a": ca, "b": cb}, result_classes=v)
        if o in ("+", "*"):
            other = typemap.get(f"{o} {cb} {ca}")
            if other is not None and set(other) != set(v):
                res.fail("result-type-not-symmetric", {"op": o, "a": ca, "b": cb}, ab=sorted(v), ba=sorted(other))
    return res
