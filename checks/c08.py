"""C08 — calls bind arguments to the right arity however the call is made.

Engine C (finite universes), four parts:

  sigs    every arity signature over the alphabet {fixed arities 0..4} x {no variadic arity, variadic arity
          with r = 0..4 fixed parameters}: the legal ones must compile (as `fn`, as `defn`, arities listed in
          ascending and in descending order), the illegal ones (variadic arity shorter than a fixed arity,
          duplicate fixed arity, two variadic arities, no arity) must be rejected with a CompilerException.
  calls   every legal signature x every call shape (direct, through the Var, compiled call sites naming the
          Var, apply with k leading arguments and a vector / list / cons / lazy tail of length 0..6 or an
          infinite lazy tail, partial of 0..3 arguments composed with all of these) x three argument-value
          variants (all ints / last argument a list / last argument nil), judged by a reference dispatcher.
  recur   every signature over fixed arities {1,2,3} + optional variadic arity, every arity of it as the recur
          site, every kind of value in the last recur position: the parameters are rebound to the recur
          arguments of the *same* arity.
  stack   loop/recur, fn recur (single arity, multi arity, variadic, nested in a loop) and mutual recursion
          through `trampoline` for iteration counts 1 .. 10^6 with the Python frame depth sampled in the body.
"""
from __future__ import annotations

import itertools
import logging
import sys

from vlib import env
from vlib.evidence import Result

PROPERTY = "C08"
LEVEL = "model_checking"
BOUNDS = {
    "quick": (
        "all 191 signatures over fixed arities 0..4 x variadic r in {none,0..4} (93 legal, 98 illegal); illegal ones in both arity orders + 40 "
        "duplicate-arity / two-variadic forms + 4 arity-less forms, each under fn*, fn and defn (712 rejections); every legal signature (ascending "
        "arity order; compiled as fn, as defn, as call sites naming the Var and #'Var) x 1,018 call shapes (direct 0..8 args on the fn value and on "
        "the Var; compiled call sites; apply k=0..3 x tail vector/list/cons/lazy of length 0..6 + infinite lazy tail; partial p=0..3 of all of these) "
        "x 3 argument variants (ints / last a list / last nil) = 274,846 calls; recur rebinding over 21 signatures x every arity x 7-8 "
        "last-argument kinds x 1 and 3 iterations x 0/2 surplus call arguments (604 cases); stack depth for 10 looping programs x iteration counts "
        "{1,10,11,1000,100000}"
    ),
    "thorough": (
        "as quick, plus: every legal signature also with its arities listed in descending order (variadic first; single arities in the bare "
        "(fn [..] ..) form); a 5th tail kind (Python list) and a 4th argument variant (last a vector): 1,242 shapes x 4 variants = 896k calls; "
        "iteration count 10^6 for every looping program"
    ),
}
RULE = (
    "engine C: a case is (signature, arity order, call route, partial count p, leading args k, tail kind, tail length, argument variant); "
    "every case inside the bound is executed on the compiled function and compared with a reference dispatcher (fixed arity == n wins, "
    "else variadic if n >= r, else arity error with the body marker untouched); non-trivial = every case (each reaches the dispatch code "
    "with a different (signature, n, route) triple); for lazy tails the number of realised cells is compared with (fixed parameters still to bind)+1"
)
ASSUMPTIONS = [
    "an arity error is a basilisp RuntimeException or a Python TypeError raised while the body marker list is still empty",
    "a rest parameter must be nil when there is no surplus and otherwise an ISeq whose elements are the surplus arguments in order (identity for non-ints)",
    "the laziness bound is demanded for apply on a function value or a partial of a function value; apply on a Var or on a partial of a Var is judged for binding only (finite tails), its behaviour on an infinite tail is recorded, not judged",
    "recur rebinding: fixed parameters must be identical to the recur arguments; the rest parameter after (recur ... R) must hold the elements of (seq R) in order (both Clojure's 'rest is R itself' and 'rest is (seq R)' satisfy this); R ranges over nil and sequential collections only (lists, vectors, lazy seqs, the rest parameter itself) - strings, maps, sets and non-seqable R are not generated",
    "stack safety: depth sampled by walking sys._getframe() inside a probe called from the loop body; depth at the last iteration must equal depth at the 10th iteration and no RecursionError may occur",
]

MAXA = 4  # fixed arities 0..MAXA
VMARK = 99  # body marker of the variadic arity
INF = "inf"


class Budget(Exception):
    """Raised by an instrumented lazy seq that is realised beyond its budget (non-termination guard)."""


# --------------------------------------------------------------------------- signatures


def legal(fixed, r):
    if not fixed and r is None:
        return False
    return r is None or all(r >= k for k in fixed)


def all_signatures():
    """(fixed tuple, r) simplest first: by number of arities, then lexicographically."""
    sigs = []
    for n in range(0, MAXA + 2):
        for fixed in itertools.combinations(range(MAXA + 1), n):
            for r in [None] + list(range(MAXA + 1)):
                if not fixed and r is None:
                    continue
                sigs.append((fixed, r))
    sigs.sort(key=lambda s: (len(s[0]) + (s[1] is not None), s[0], -1 if s[1] is None else s[1]))
    return sigs


def arity_text(k, variadic=False, marker=True):
    ps = [f"a{i}" for i in range(k)]
    if variadic:
        m = f"(.append LOG {VMARK}) " if marker else ""
        return f"([{' '.join(ps + ['&', 'r'])}] {m}[:v {' '.join(ps + ['r'])}])"
    m = f"(.append LOG {k}) " if marker else ""
    return f"([{' '.join(ps)}] {m}[:a{k}{''.join(' ' + p for p in ps)}])"


def sig_arities(fixed, r, order):
    parts = [arity_text(k) for k in sorted(fixed)]
    if r is not None:
        parts.append(arity_text(r, variadic=True))
    if order == "desc":
        parts.reverse()
    return parts


def sig_text(fixed, r, order, head="fn"):
    parts = sig_arities(fixed, r, order)
    if order == "desc" and len(parts) == 1:
        # the bare single-arity form `(fn [a] ...)` instead of `(fn ([a] ...))`
        return f"({head} {parts[0][1:-1]})"
    return f"({head} {' '.join(parts)})"


def sig_key(fixed, r, order="asc"):
    return f"{','.join(map(str, fixed)) or '-'}|{'-' if r is None else r}|{order}"


# --------------------------------------------------------------------------- environment per process

_ST = {}


class _FreshEval:
    """Evaluates text in the process namespace with a *fresh* compiler context per call: a long-lived
    CompilerContext keeps the symbol table of every form compiled before, which macroexpansion walks
    (as_env_map), so compile time would grow with the number of forms (measured: 3 ms -> 300 ms)."""

    def __init__(self, ns):
        self.ns = ns

    def eval(self, text):
        return env.Evaluator(ns=self.ns).eval(text)


def state():
    """One namespace per process with the marker list LOG and the value list VALS."""
    if "ev" not in _ST:
        from basilisp.lang import symbol as sym

        logging.getLogger("basilisp").setLevel(logging.ERROR)  # arity-mismatch / invalid-partial *warnings* are expected
        ev = _FreshEval(env.fresh_ns())
        ev.eval("(import operator) (def LOG (python/list)) (def VALS (python/list))")
        _ST["ev"] = ev
        _ST["LOG"] = ev.ns.find(sym.symbol("LOG")).value
        _ST["VALS"] = ev.ns.find(sym.symbol("VALS")).value
        _ST["n"] = 0
    return _ST


def compile_instance(fixed, r, order):
    """Compile one signature as fn value, as defn (Var) and as compiled call sites naming the Var."""
    st = state()
    ev = st["ev"]
    st["n"] += 1
    name = f"g{st['n']}"
    inst = {"fixed": tuple(fixed), "r": r, "order": order, "name": name}
    inst["fn"] = ev.eval(sig_text(fixed, r, order, "fn"))
    inst["var"] = ev.eval(sig_text(fixed, r, order, f"defn {name}"))
    ps = [f"a{i}" for i in range(8)]

    def site(callee):
        # one zero-macro call site per argument count: [(fn [] (g)) (fn [a0] (g a0)) ...]
        fns = ev.eval("[" + " ".join(f"(fn [{' '.join(ps[:n])}] ({callee}{''.join(' ' + p for p in ps[:n])}))" for n in range(9)) + "]")
        return lambda n, *args: fns[n](*args[:n])

    inst["site-name"] = site(name)
    inst["site-var"] = site(f"#'{name}")
    return inst


# --------------------------------------------------------------------------- argument values and tails


def arg_values(n, variant, base=100):
    """n distinct argument values; the variant replaces the last one."""
    from basilisp.lang import list as llist, keyword as kw

    vals = [base + i for i in range(n)]
    if n and variant == "last-list":
        vals[-1] = _CONST.setdefault("lst", llist.l(kw.keyword("x"), kw.keyword("y")))
    elif n and variant == "last-nil":
        vals[-1] = None
    elif n and variant == "last-vec":
        from basilisp.lang import vector as vec

        vals[-1] = _CONST.setdefault("vec", vec.v(kw.keyword("p"), kw.keyword("q")))
    return vals


_CONST: dict = {}


def lazy_tail(values, infinite=False, budget=40):
    """Instrumented lazy seq over `values` (then 5000, 5001, ... if infinite). Returns (seq, counter)."""
    from basilisp.lang import seq as lseq

    cnt = [0]
    values = list(values)
    nv = len(values)

    def cell(i):
        def thunk():
            cnt[0] += 1
            if cnt[0] > budget:
                raise Budget()
            if i < nv:
                return lseq.Cons(values[i], lseq.LazySeq(cell(i + 1)))
            if not infinite:
                return None
            return lseq.Cons(5000 + i - nv, lseq.LazySeq(cell(i + 1)))

        return thunk

    return lseq.LazySeq(cell(0)), cnt


def make_tail(kind, values):
    from basilisp.lang import list as llist, seq as lseq, vector as vec

    if kind == "vec":
        return vec.vector(values), None
    if kind == "list":
        return llist.list(values), None
    if kind == "cons":
        s = None
        for v in reversed(values):
            s = lseq.Cons(v, s)
        return s, None
    if kind == "pylist":
        return list(values), None
    if kind == "lazy":
        return lazy_tail(values)
    if kind == "inf":
        return lazy_tail(values, infinite=True)
    raise KeyError(kind)


TAIL_KINDS = ("vec", "list", "cons", "lazy")
VARIANTS = ("ints", "last-list", "last-nil")


def tier_alphabet(tier):
    """(tail kinds, argument variants) per tier."""
    if tier == "thorough":
        return TAIL_KINDS + ("pylist",), VARIANTS + ("last-vec",)
    return TAIL_KINDS, VARIANTS


def call_shapes(tail_kinds=TAIL_KINDS):
    """All call shapes, simplest first.  A shape is a dict (JSON-able)."""
    shapes = []
    for target in ("fn", "var"):
        for p in range(4):
            for n in range(9):
                shapes.append({"route": "direct", "target": target, "p": p, "n": n})
            for k in range(4):
                for L in range(7):
                    for tk in tail_kinds:
                        shapes.append({"route": "apply", "target": target, "p": p, "k": k, "tail": tk, "L": L})
                shapes.append({"route": "apply", "target": target, "p": p, "k": k, "tail": "inf", "L": INF})
    for site in ("site-name", "site-var"):
        for n in range(9):
            shapes.append({"route": site, "target": "var", "p": 0, "n": n})
    return shapes


def shape_key(s):
    return "/".join(f"{k}={s[k]}" for k in ("route", "target", "p", "n", "k", "tail", "L") if k in s)


# --------------------------------------------------------------------------- reference dispatcher


def reference(fixed, r, n):
    """-> ('fixed', k) | ('variadic', r) | ('error',).  n may be INF."""
    if n != INF and n in fixed:
        return ("fixed", n)
    if r is not None and (n == INF or n >= r):
        return ("variadic", r)
    return ("error",)


def same(x, y):
    return x is y or (type(x) is type(y) and isinstance(x, int) and x == y)


def seq_prefix(s, limit):
    """First `limit` elements of seqable s, plus whether it ended before `limit`.  Never walks further."""
    from basilisp.lang import runtime

    out = []
    cur = runtime.to_seq(s)
    while cur is not None and len(out) < limit:
        out.append(cur.first)
        cur = runtime.to_seq(cur.rest)
    return out, cur is None


def show(x):
    from basilisp.lang import runtime

    try:
        if isinstance(x, BaseException):
            return f"{type(x).__name__}: {str(x)[:120]}"
        from basilisp.lang.interfaces import ISeq

        if isinstance(x, ISeq):
            els, ended = seq_prefix(x, 8)
            return "(" + " ".join(runtime.lrepr(e) for e in els) + (")" if ended else " ...)")
        return runtime.lrepr(x)[:200]
    except BaseException as e:  # noqa
        return f"<unprintable {type(x).__name__}: {type(e).__name__}>"


def is_arity_error(e):
    from basilisp.lang import runtime

    return isinstance(e, (runtime.RuntimeException, TypeError)) and not isinstance(e, Budget)


def judge(res, case, fixed, r, n, args, inf_rest, outcome, log, kinds):
    """Compare one observed outcome with the reference.  args = the finite prefix of all arguments in order;
    inf_rest = True when an infinite continuation 5000, 5001, ... follows args.  Returns the outcome class."""
    from basilisp.lang import keyword as kw, vector as vec
    from basilisp.lang.interfaces import ISeq

    exp = reference(fixed, r, INF if inf_rest else n)
    status, val = outcome
    log = list(log)
    if inf_rest:
        args = list(args) + [5000 + i for i in range(MAXA + 4)]

    def fail(kind, **kw_):
        kinds.append(kind)
        res.fail(kind, case, expected=list(exp), log=log, got=show(val), **kw_)

    if status == "budget":
        fail("lazy-tail-realised-without-bound")
        return "budget"
    if exp[0] == "error":
        if status == "ok":
            fail("no-arity-error")
        elif not is_arity_error(val):
            fail("wrong-error-class")
        elif log:
            fail("body-ran-before-arity-error")
        return ("error", type(val).__name__ if status == "exc" else "returned")
    if status == "exc":
        fail("call-raised")
        return ("raised", type(val).__name__)
    if exp[0] == "fixed":
        k = exp[1]
        want_tag, want_len, want_log = f"a{k}", k + 1, [k]
    else:
        k = exp[1]
        want_tag, want_len, want_log = "v", k + 2, [VMARK]
    if not isinstance(val, vec.PersistentVector) or len(val) < 1 or not isinstance(val[0], kw.Keyword):
        fail("unexpected-result")
        return ("odd",)
    if val[0].name != want_tag or len(val) != want_len or log != want_log:
        fail("wrong-arity-chosen", chosen=val[0].name)
        return ("wrong-arity", val[0].name)
    for i in range(k):
        if not same(val[1 + i], args[i]):
            fail("parameter-bound-to-wrong-argument", position=i)
            return ("misbound",)
    if exp[0] == "variadic":
        rest = val[k + 1]
        surplus = args[k:]
        if not surplus and not inf_rest:
            if rest is not None:
                fail("rest-not-nil-without-surplus")
                return ("rest-not-nil",)
            return ("variadic", "nil-rest")
        if not isinstance(rest, ISeq):
            fail("rest-not-a-seq", rest_type=type(rest).__name__)
            return ("rest-not-seq",)
        want = list(surplus[:3]) if inf_rest else list(surplus)
        try:
            got, ended = seq_prefix(rest, len(want) + (0 if inf_rest else 1))
        except Budget:
            fail("lazy-tail-realised-without-bound")
            return "budget"
        if len(got) != len(want) or not all(same(a, b) for a, b in zip(got, want)) or (not inf_rest and not ended):
            fail("rest-wrong", rest=show(rest))
            return ("rest-wrong",)
        return ("variadic", "rest")
    return ("fixed", k)


# --------------------------------------------------------------------------- executing one call shape


def build_call(inst, shape, variant):
    """-> (thunk, all_args_prefix, n_total, inf_rest, counter, to_bind) for one shape."""
    apply_ = env.core_fn("apply")
    partial = env.core_fn("partial")
    p = shape["p"]
    route = shape["route"]
    if route in ("direct", "site-name", "site-var"):
        n_call = shape["n"]
        total = p + n_call
        vals = arg_values(total, variant)
        pargs, cargs = vals[:p], vals[p:]
        target = inst[shape["target"]]
        f = partial(target, *pargs)
        if route == "direct":
            return (lambda: f(*cargs)), vals, total, False, None, None
        site = inst[route]
        padded = cargs + [None] * (8 - len(cargs))
        return (lambda: site(n_call, *padded)), vals, total, False, None, None
    k, tk, L = shape["k"], shape["tail"], shape["L"]
    inf = tk == "inf"
    nl = 0 if inf else L
    total = p + k + nl
    vals = arg_values(total, "ints" if inf else variant)
    pargs, lead, tailvals = vals[:p], vals[p : p + k], vals[p + k :]
    tail, cnt = make_tail(tk, tailvals)
    target = inst[shape["target"]]
    f = partial(target, *pargs)
    r = inst["r"]
    to_bind = None if r is None else max(0, r - p - k)
    return (lambda: apply_(f, *lead, tail)), vals, total, inf, cnt, to_bind


def run_case(res, inst, shape, variant, counts=None):
    """Execute one (instance, shape, variant); returns list of failure kinds (empty = held)."""
    LOG = state()["LOG"]
    fixed, r = inst["fixed"], inst["r"]
    case = {
        "family": "calls",
        "sig": sig_key(fixed, r, inst["order"]),
        "form": sig_text(fixed, r, inst["order"]),
        "shape": dict(shape),
        "variant": variant,
    }
    thunk, vals, total, inf, cnt, to_bind = build_call(inst, shape, variant)
    LOG.clear()
    try:
        outcome = ("ok", thunk())
    except Budget as e:
        outcome = ("budget", e)
    except RecursionError as e:
        outcome = ("exc", e)
    except Exception as e:  # noqa
        outcome = ("exc", e)
    realised = cnt[0] if cnt is not None else None
    res.evaluations += 1
    res.transitions += 1 + (1 if shape["p"] else 0) + (realised or 0)
    kinds: list = []
    judged_lazy = shape["target"] == "fn"
    if inf and not judged_lazy:
        # apply through a Var (or a partial of a Var) with an infinite tail: recorded, not judged (see ASSUMPTIONS)
        cls = "terminated" if outcome[0] != "budget" else "did-not-terminate"
        res.part("observed-not-judged/apply-through-Var-infinite-tail", **{cls: 1})
        res.outcomes.add(("var-inf", cls))
        return kinds
    oc = judge(res, case, fixed, r, total, vals, inf, outcome, LOG, kinds)
    if cnt is not None and judged_lazy and r is not None and outcome[0] == "ok" and not kinds:
        bound = to_bind + 1
        if not inf:
            bound = min(bound, shape["L"] + 1)
        if realised > bound:
            kinds.append("apply-realised-too-much")
            res.fail("apply-realised-too-much", case, realised=realised, allowed=bound)
        res.outcomes.add(("realised", realised - bound))
    res.outcomes.add((shape["route"], shape["target"], bool(shape["p"]), oc))
    if counts is not None:
        c = oc[0] if isinstance(oc, tuple) else oc
        label = {"fixed": f"bound-fixed-arity-{oc[1]}" if c == "fixed" else "", "variadic": "bound-variadic", "error": "arity-error"}.get(c, "other:" + str(c))
        counts[label] = counts.get(label, 0) + 1
    return kinds


def shard_calls(args):
    """One shard = a list of (fixed, r, order) instances; every shape x variant on each."""
    (insts, tier), = args
    res = Result()
    tail_kinds, variants = tier_alphabet(tier)
    shapes = call_shapes(tail_kinds)
    counts: dict = {}
    ncases = 0
    for fixed, r, order in insts:
        case0 = {"family": "sigs", "sig": sig_key(fixed, r, order), "form": sig_text(fixed, r, order)}
        try:
            inst = compile_instance(fixed, r, order)
        except Exception as e:  # noqa
            res.evaluations += 1
            res.fail("legal-signature-rejected", case0, exc=show(e))
            continue
        res.evaluations += 2
        res.part("sigs", legal_compiled=1)
        for shape in shapes:
            if shape["tail" if "tail" in shape else "route"] == "inf" and r is None:
                continue  # an infinite tail is only in the quantifier for variadic functions
            total_finite = shape["p"] + (shape["n"] if "n" in shape else shape["k"] + (0 if shape["L"] == INF else shape["L"]))
            for variant in variants:
                if variant != "ints" and (total_finite == 0 or shape.get("tail") == "inf"):
                    continue
                run_case(res, inst, shape, variant, counts)
                ncases += 1
        if len(res.samples) < 2:
            res.sample({"signature": sig_text(fixed, r, order), "shapes": len(shapes)})
    res.distinct_count += ncases
    res.part("calls", cases=ncases, **counts)
    return res.compact()


# --------------------------------------------------------------------------- part: signatures (legal / illegal)


def illegal_forms():
    """(text, why) for every illegal signature of the alphabet, under fn*, fn and defn."""
    out = []
    for fixed, r in all_signatures():
        if legal(fixed, r):
            continue
        for order in ("asc", "desc"):
            out.append((fixed, r, order, sig_arities(fixed, r, order), "variadic-shorter-than-fixed"))
    for k in range(MAXA + 1):
        # duplicate fixed arity, alone and beside another arity / a variadic arity
        out.append(((k, k), None, "asc", [arity_text(k), arity_text(k)], "duplicate-fixed"))
        out.append(((k, k), MAXA, "asc", [arity_text(k), arity_text(k), arity_text(MAXA, True)], "duplicate-fixed"))
        other = (k + 1) % (MAXA + 1)
        out.append(((k, other, k), None, "asc", [arity_text(k), arity_text(other), arity_text(k)], "duplicate-fixed"))
    for r1 in range(MAXA + 1):
        for r2 in range(MAXA + 1):
            out.append(((), (r1, r2), "asc", [arity_text(r1, True), arity_text(r2, True)], "two-variadic"))
    return out


def shard_sigs(args):
    from basilisp.lang import compiler

    (shard, nshards), = args
    res = Result()
    st = state()
    ev = st["ev"]
    forms = illegal_forms()
    n = 0
    for idx, (fixed, r, order, arities, why) in enumerate(forms):
        if idx % nshards != shard:
            continue
        for head in ("fn*", "fn", "defn"):
            st["n"] += 1
            h = head if head != "defn" else f"defn bad{st['n']}"
            text = f"({h} {' '.join(arities)})"
            case = {"family": "sigs", "form": text, "why": why}
            res.evaluations += 1
            n += 1
            try:
                v = ev.eval(text)
            except compiler.CompilerException:
                res.outcomes.add(("rejected", why, head))
                continue
            except Exception as e:  # noqa
                res.fail("illegal-signature-wrong-error", case, exc=show(e))
                res.outcomes.add(("other-exc", why, head, type(e).__name__))
                continue
            res.fail("illegal-signature-accepted", case, got=show(v))
            res.outcomes.add(("accepted", why, head))
    if shard == 0:
        for text in ("(fn*)", "(fn)", "(fn* f)", "(fn f)"):
            res.evaluations += 1
            n += 1
            try:
                ev.eval(text)
                res.fail("illegal-signature-accepted", {"family": "sigs", "form": text, "why": "no-arity"})
            except compiler.CompilerException:
                res.outcomes.add(("rejected", "no-arity", text))
            except Exception as e:  # noqa
                res.fail("illegal-signature-wrong-error", {"family": "sigs", "form": text, "why": "no-arity"}, exc=show(e))
    res.distinct_count += n
    res.part("sigs", illegal_forms_checked=n)
    return res.compact()


# --------------------------------------------------------------------------- part: recur rebinding

RECUR_LAST_KINDS = ("int", "nil", "list", "vector", "empty-list", "empty-vector", "lazy", "string")
RECUR_REST_KINDS = ("nil", "list", "vector", "empty-list", "empty-vector", "lazy", "pass-through")


def recur_sigs():
    out = []
    for n in range(0, 4):
        for fixed in itertools.combinations((1, 2, 3), n):
            for r in (None, 1, 2, 3):
                if legal(fixed, r):
                    out.append((fixed, r))
    out.sort(key=lambda s: (len(s[0]) + (s[1] is not None), s[0], -1 if s[1] is None else s[1]))
    return out


def recur_fn_text(fixed, r, site, passthrough=False):
    """All arities take the counter c first. The arity `site` ('v' or k) recurs while c > 0 with values taken
    from the Python list VALS (the rest parameter itself when passthrough)."""
    parts = []
    for k in sorted(fixed):
        ps = ["c"] + [f"x{i}" for i in range(1, k)]
        ret = f"[:a{k} {' '.join(ps)}]"
        if site == k:
            new = " ".join(f"(.__getitem__ VALS {i - 1})" for i in range(1, k))
            body = f"(if (operator/gt c 0) (recur {' '.join(x for x in ['(operator/sub c 1)', new] if x)}) {ret})"
        else:
            body = ret
        parts.append(f"([{' '.join(ps)}] (.append LOG {k}) {body})")
    if r is not None:
        ps = ["c"] + [f"x{i}" for i in range(1, r)]
        ret = f"[:v {' '.join(ps)} rst]"
        if site == "v":
            new = " ".join(f"(.__getitem__ VALS {i - 1})" for i in range(1, r))
            last = "rst" if passthrough else f"(.__getitem__ VALS {r - 1})"
            body = f"(if (operator/gt c 0) (recur {' '.join(x for x in ['(operator/sub c 1)', new, last] if x)}) {ret})"
        else:
            body = ret
        parts.append(f"([{' '.join(ps)} & rst] (.append LOG {VMARK}) {body})")
    return f"(fn {' '.join(parts)})"


def recur_value(kind):
    from basilisp.lang import list as llist, vector as vec

    if kind == "int":
        return 777, [777]
    if kind == "nil":
        return None, []
    if kind == "list":
        return llist.l(1, 2), [1, 2]
    if kind == "vector":
        return vec.v(1, 2), [1, 2]
    if kind == "empty-list":
        return llist.l(), []
    if kind == "empty-vector":
        return vec.v(), []
    if kind == "lazy":
        return lazy_tail([1, 2])[0], [1, 2]
    if kind == "string":
        return "ab", ["a", "b"]
    raise KeyError(kind)


def recur_case(res, fixed, r, site, kind, iters, extra, fn=None):
    """One recur-rebinding case.  extra = number of surplus call arguments for the variadic site (0 or 2)."""
    st = state()
    ev, LOG = st["ev"], st["LOG"]
    from basilisp.lang import keyword as kw, vector as vec

    VALS = st["VALS"]
    passthrough = kind == "pass-through"
    text = recur_fn_text(fixed, r, site, passthrough)
    case = {"family": "recur", "form": text, "site": site, "last": kind, "iters": iters, "extra": extra}
    if fn is None:
        fn = ev.eval(text)
    nfixed = r if site == "v" else site  # number of declared positional params incl. the counter
    VALS.clear()
    vals = [200 + i for i in range(nfixed - 1)]
    rest_elems = None
    if site == "v":
        if passthrough:
            rest_elems = [900 + i for i in range(extra)]
        else:
            rv, rest_elems = recur_value(kind)
            VALS.extend(vals)
            VALS.append(rv)
    else:
        if vals:
            vals[-1] = recur_value(kind)[0]
    if not VALS:
        VALS.extend(vals)
    call_args = [iters] + [100 + i for i in range(nfixed - 1)] + ([900 + i for i in range(extra)] if site == "v" else [])
    LOG.clear()
    res.evaluations += 1
    res.transitions += iters + 1
    mark = VMARK if site == "v" else site
    try:
        out = fn(*call_args)
    except Exception as e:  # noqa
        extra_kw = {}
        # model of the (repaired) generator defect: every arity of a fn with a variadic arity was treated as
        # variadic by recur, so a final seq argument was spliced / a final nil dropped -> TypeError on re-entry
        if site != "v" and r is not None and isinstance(e, TypeError) and kind in ("nil", "list", "empty-list", "lazy") and list(LOG) == [site]:
            extra_kw["explained_by"] = "recur-fixed-arity-treated-as-variadic"
        res.fail("recur-raised", case, exc=show(e), log=list(LOG), **extra_kw)
        res.outcomes.add(("recur", "raised", type(e).__name__))
        return
    want_tag = "v" if site == "v" else f"a{site}"
    ok = isinstance(out, vec.PersistentVector) and len(out) >= 1 and isinstance(out[0], kw.Keyword) and out[0].name == want_tag
    ok = ok and list(LOG) == [mark] * (iters + 1) and len(out) == nfixed + 1 + (1 if site == "v" else 0)
    if not ok:
        res.fail("recur-left-its-arity", case, got=show(out), log=list(LOG))
        res.outcomes.add(("recur", "left-arity"))
        return
    if out[1] != 0 or not all(same(out[2 + i], vals[i]) for i in range(nfixed - 1)):
        res.fail("recur-rebound-fixed-parameter-wrongly", case, got=show(out), wanted=show(vec.vector([0] + vals)))
        res.outcomes.add(("recur", "misbound"))
        return
    if site == "v":
        rest = out[nfixed + 1]
        try:
            got, ended = seq_prefix(rest, len(rest_elems) + 1)
        except Exception as e:  # noqa
            res.fail("recur-rest-not-seqable", case, got=show(out), exc=show(e))
            return
        if not ended or len(got) != len(rest_elems) or not all(a is b or a == b for a, b in zip(got, rest_elems)):
            extra_kw = {}
            # model of the (repaired) trampoline defect: a final vector was not unrolled, rest became (R)
            if kind in ("vector", "empty-vector") and len(got) == 1 and ended and got[0] is VALS[nfixed - 1]:
                extra_kw["explained_by"] = "recur-vector-rest-argument-not-unrolled"
            res.fail("recur-rebound-rest-parameter-wrongly", case, got=show(rest), wanted_elements=rest_elems, **extra_kw)
            res.outcomes.add(("recur", "rest-wrong"))
            return
        res.outcomes.add(("recur", "rest-ok", kind, len(rest_elems), type(rest).__name__))
    else:
        res.outcomes.add(("recur", "fixed-ok", kind))


def recur_cases():
    for fixed, r in recur_sigs():
        sites = list(fixed) + (["v"] if r is not None else [])
        for site in sites:
            if site == "v":
                kinds = RECUR_REST_KINDS
            elif site == 1:
                kinds = ("int",)  # only the counter is rebound
            else:
                kinds = RECUR_LAST_KINDS
            for kind in kinds:
                for iters in (1, 3):
                    for extra in ((0, 2) if site == "v" else (0,)):
                        if site == "v" and extra == 0 and r in fixed:
                            continue  # the initial call would (rightly) select the fixed arity r
                        yield fixed, r, site, kind, iters, extra


def shard_recur(args):
    (shard, nshards), = args
    res = Result()
    n = 0
    cache = {}
    for idx, (fixed, r) in enumerate(recur_sigs()):
        if idx % nshards != shard:
            continue
        for f2, r2, site, kind, iters, extra in recur_cases():
            if (f2, r2) != (fixed, r):
                continue
            key = (site, kind == "pass-through")
            if key not in cache:
                try:
                    cache[key] = state()["ev"].eval(recur_fn_text(fixed, r, site, kind == "pass-through"))
                    res.evaluations += 1
                except Exception as e:  # noqa
                    res.fail("recur-fn-rejected", {"family": "recur", "form": recur_fn_text(fixed, r, site, kind == "pass-through")}, exc=show(e))
                    cache[key] = None
            if cache[key] is None:
                continue
            recur_case(res, fixed, r, site, kind, iters, extra, fn=cache[key])
            n += 1
        cache.clear()
    res.distinct_count += n
    res.part("recur", cases=n)
    return res.compact()


# --------------------------------------------------------------------------- part: stack safety

# every program: (fn [n probe] ...) -> result; calls (probe i) exactly once per iteration i = 0..n-1
STACK_PROGRAMS = {
    "loop": ("(fn [n probe] (loop [i 0] (if (operator/lt i n) (do (probe i) (recur (operator/add i 1))) [:done i])))", "[:done n]"),
    "loop-2-bindings-let-tail": (
        "(fn [n probe] (loop [i 0 acc 0] (let [j (operator/add i 1)] (if (operator/lt i n) (do (probe i) (recur j (operator/add acc 2))) [:done i acc]))))",
        "[:done n 2n]",
    ),
    "fn-single-arity": ("(fn f [n probe] ((fn g [i n probe] (if (operator/lt i n) (do (probe i) (recur (operator/add i 1) n probe)) [:done i])) 0 n probe))", "[:done n]"),
    "fn-multi-arity": (
        "(fn f ([n probe] (f 0 n probe)) ([i n probe] (if (operator/lt i n) (do (probe i) (recur (operator/add i 1) n probe)) [:done i])))",
        "[:done n]",
    ),
    "fn-variadic": (
        "(fn f [n probe] ((fn g [i n probe & more] (if (operator/lt i n) (do (probe i) (recur (operator/add i 1) n probe more)) [:done i more])) 0 n probe 7 8 9))",
        "[:done n (7 8 9)]",
    ),
    "fn-multi-arity-recur-in-variadic": (
        "(fn f ([n probe] (f 0 n probe 7 8 9)) ([i n probe & more] (if (operator/lt i n) (do (probe i) (recur (operator/add i 1) n probe more)) [:done i more])))",
        "[:done n (7 8 9)]",
    ),
    "fn-multi-arity-with-variadic-recur-in-fixed": (
        "(fn f ([n probe] (f 0 n probe)) ([i n probe] (if (operator/lt i n) (do (probe i) (recur (operator/add i 1) n probe)) [:done i])) ([i n probe & more] [:variadic i more]))",
        "[:done n]",
    ),
    "fn-recur-around-inner-loop": (
        "(fn f [n probe] ((fn g [i n probe] (if (operator/lt i n) (do (loop [j 0] (if (operator/lt j 2) (recur (operator/add j 1)) (probe i))) (recur (operator/add i 1) n probe)) [:done i])) 0 n probe))",
        "[:done n]",
    ),
    "trampoline-mutual": (
        "(fn [n probe] (letfn [(ev? [i] (if (operator/lt i n) (do (probe i) (fn [] (od? (operator/add i 1)))) [:done i])) "
        "(od? [i] (if (operator/lt i n) (do (probe i) (fn [] (ev? (operator/add i 1)))) [:done i]))] (trampoline ev? 0)))",
        "[:done n]",
    ),
    "trampoline-defn-vars": (
        "(do (declare tr-od) (defn tr-ev [i n probe] (if (operator/lt i n) (do (probe i) (fn [] (tr-od (operator/add i 1) n probe))) [:done i])) "
        "(defn tr-od [i n probe] (if (operator/lt i n) (do (probe i) (fn [] (tr-ev (operator/add i 1) n probe))) [:done i])) "
        "(fn [n probe] (trampoline tr-ev 0 n probe)))",
        "[:done n]",
    ),
}


def frame_depth():
    f = sys._getframe(1)
    d = 0
    while f is not None:
        d += 1
        f = f.f_back
    return d


def stack_case(res, prog, n):
    from basilisp.lang import vector as vec

    st = state()
    text, _ = STACK_PROGRAMS[prog]
    case = {"family": "stack", "program": prog, "form": text, "iterations": n}
    key = ("stack", prog)
    if key not in st:
        st[key] = st["ev"].eval(text)
    fn = st[key]
    want = {0, 1, 9, 10, n // 2, n - 1}
    depths: dict = {}
    calls = [0]

    def probe(i):
        calls[0] += 1
        if i in want:
            depths.setdefault(i, frame_depth())
        return i

    res.evaluations += 1
    res.transitions += n
    try:
        out = fn(n, probe)
    except RecursionError as e:
        res.fail("recursion-error", case, exc=show(e), probes=calls[0])
        res.outcomes.add(("stack", prog, "RecursionError"))
        return
    except Exception as e:  # noqa
        res.fail("loop-raised", case, exc=show(e), probes=calls[0])
        res.outcomes.add(("stack", prog, "raised", type(e).__name__))
        return
    ok = isinstance(out, vec.PersistentVector) and len(out) >= 2 and out[1] == n and calls[0] == n
    if ok and prog == "loop-2-bindings-let-tail":
        ok = out[2] == 2 * n
    if ok and "variadic" in prog and prog != "fn-multi-arity-with-variadic-recur-in-fixed":
        try:
            got, ended = seq_prefix(out[2], 4)
            ok = ended and got == [7, 8, 9]
        except Exception:  # noqa
            ok = False
    if not ok:
        res.fail("loop-wrong-result", case, got=show(out), probes=calls[0])
        res.outcomes.add(("stack", prog, "wrong-result"))
        return
    if n > 10:
        d10, dlast = depths.get(9), depths.get(n - 1)
        if d10 is None or dlast is None or d10 != dlast:
            res.fail("stack-grows-with-iterations", case, depth_at_10th=d10, depth_at_last=dlast, depths={str(k): v for k, v in sorted(depths.items())})
            res.outcomes.add(("stack", prog, "grows"))
            return
    res.outcomes.add(("stack", prog, "constant", tuple(sorted(set(depths.values())))))
    res.part("stack", **{f"{prog}/max-iterations-held": 0})
    res.parts["stack"][f"{prog}/max-iterations-held"] = max(res.parts["stack"][f"{prog}/max-iterations-held"], n)


def stack_counts(tier):
    return [1, 10, 11, 1000, 100000] + ([1000000] if tier == "thorough" else [])


def shard_stack(args):
    (items,), = args  # [(program, [iteration counts])]
    res = Result()
    for prog, counts in items:
        for n in counts:
            stack_case(res, prog, n)
        res.distinct_count += len(counts)
        res.part("stack", cases=len(counts))
    return res.compact()


# --------------------------------------------------------------------------- run / replay


def work(job):
    kind, args = job
    return {"calls": shard_calls, "sigs": shard_sigs, "recur": shard_recur, "stack": shard_stack}[kind]((args,))


SLOW_PROGRAMS = ("fn-variadic", "fn-multi-arity-recur-in-variadic", "trampoline-mutual", "trampoline-defn-vars")


def run(tier, seed):
    res = Result()
    sigs = [s for s in all_signatures() if legal(*s)]
    orders = ("asc",) if tier == "quick" else ("asc", "desc")
    insts = [(f, r, o) for o in orders for (f, r) in sigs]
    counts = stack_counts(tier)
    jobs = []
    # few, large jobs (every fork copies pages of the bootstrapped interpreter); the long loops go first
    if tier == "thorough":
        for prog in SLOW_PROGRAMS:
            jobs.append(("stack", ([(prog, counts[-1:])],)))
        jobs.append(("stack", ([(p, counts[-1:]) for p in STACK_PROGRAMS if p not in SLOW_PROGRAMS],)))
        jobs.append(("stack", ([(p, counts[:-1]) for p in STACK_PROGRAMS],)))
    else:
        jobs.append(("stack", ([(p, counts) for p in SLOW_PROGRAMS[:2]],)))
        jobs.append(("stack", ([(p, counts) for p in STACK_PROGRAMS if p not in SLOW_PROGRAMS[:2]],)))
    ncall = 13 if tier == "quick" else 26
    # signatures are sorted by size: dealing them round-robin balances the shards
    call_shards = [insts[i::ncall] for i in range(ncall)]
    if seed:
        call_shards = call_shards[seed % ncall :] + call_shards[: seed % ncall]
    jobs += [("calls", (sh, tier)) for sh in call_shards if sh]
    jobs.append(("sigs", (0, 1)))
    jobs.append(("recur", (0, 1)))
    for r in env.parallel(work, jobs):
        res.merge(r)
    nleg = len(sigs)
    nill = len([s for s in all_signatures() if not legal(*s)])
    res.part("sigs", legal_signatures=nleg, illegal_signatures_of_alphabet=nill, arity_orders=len(orders))
    tail_kinds, variants = tier_alphabet(tier)
    res.part("calls", shapes_per_signature=len(call_shapes(tail_kinds)), variants=len(variants))
    res.sample({"reference": "fixed arity == n wins, else variadic if n >= r, else arity error", "example": "(fn ([] ..) ([a0] ..) ([a0 a1 & r] ..)) called with 2 args -> [:v a0 a1 nil]"})
    return res


def _parse_sig(key):
    f, r, order = key.split("|")
    fixed = tuple(int(x) for x in f.split(",")) if f != "-" else ()
    return fixed, (None if r == "-" else int(r)), order


def replay(failure):
    case = failure["case"]
    kind = failure["kind"]
    fam = case.get("family")
    res = Result()
    if fam == "calls":
        fixed, r, order = _parse_sig(case["sig"])
        inst = compile_instance(fixed, r, order)
        kinds = run_case(res, inst, case["shape"], case["variant"])
        return dict(failure) if kind in kinds else None
    if fam == "sigs":
        from basilisp.lang import compiler

        if kind == "legal-signature-rejected":
            fixed, r, order = _parse_sig(case["sig"])
            try:
                compile_instance(fixed, r, order)
                return None
            except Exception:  # noqa
                return dict(failure)
        try:
            state()["ev"].eval(case["form"].replace("defn bad", f"defn rbad{id(failure) % 100000}x"))
        except compiler.CompilerException:
            return None
        except Exception:  # noqa
            return dict(failure) if kind == "illegal-signature-wrong-error" else None
        return dict(failure) if kind == "illegal-signature-accepted" else None
    if fam == "recur":
        for fixed, r, site, k2, iters, extra in recur_cases():
            if recur_fn_text(fixed, r, site, k2 == "pass-through") == case["form"] and (site, k2, iters, extra) == (case["site"], case["last"], case["iters"], case["extra"]):
                recur_case(res, fixed, r, site, k2, iters, extra)
                break
        return dict(failure) if any(f["kind"] == kind for f in res.failures) else None
    if fam == "stack":
        stack_case(res, case["program"], case["iterations"])
        return dict(failure) if any(f["kind"] == kind for f in res.failures) else None
    return None
