#!/venv/bin/python
"""run.py <Cnn> [--tier quick|thorough] [--replay FILE]

exit 0: property held on everything explored (KNOWN-FINDING lines may be printed)
exit 1: at least one `VIOLATION property=<id> replay=<path>` line was printed
exit 2: harness error (`HARNESS-ERROR ...`), never a VIOLATION line
"""
from __future__ import annotations

import argparse
import importlib
import json
import os
import sys
import time
import traceback
from pathlib import Path

HERE = Path(__file__).resolve().parent
sys.path.insert(0, str(HERE))


def main() -> int:
    ap = argparse.ArgumentParser()
    ap.add_argument("prop")
    ap.add_argument("--tier", default=os.environ.get("VERIF_TIER", "quick"), choices=["quick", "thorough"])
    ap.add_argument("--replay", default=None)
    ap.add_argument("--max-report", type=int, default=25)
    args = ap.parse_args()
    prop = args.prop.upper()

    # own the hash seed: re-exec with PYTHONHASHSEED=0 (C14 varies the seed in its children itself)
    if os.environ.get("PYTHONHASHSEED") != "0":
        env = dict(os.environ)
        env["PYTHONHASHSEED"] = "0"
        os.execve(sys.executable, [sys.executable] + sys.argv, env)

    os.environ["BASILISP_LANG_BASILISP_VERIF"] = "1"
    seed = int(os.environ.get("VERIF_SEED", "0") or 0)
    t0 = time.time()
    from vlib import env, evidence

    try:
        mod = importlib.import_module(f"checks.{prop.lower()}")
    except ModuleNotFoundError:
        print(f"HARNESS-ERROR no check for {prop}")
        return 2

    try:
        if getattr(mod, "BOOTSTRAP", True):
            env.bootstrap(native=True, verbose=bool(os.environ.get("VERIF_VERBOSE")))
        if args.replay:
            data = json.loads(Path(args.replay).read_text())
            f = data["failure"]
            out = mod.replay(f)
            print("expected-failure:", json.dumps(f, sort_keys=True)[:2000])
            print("observed-now    :", json.dumps(out, sort_keys=True)[:2000] if out else "no failure (property holds on this case)")
            return 1 if out else 0
        res = env.big_call(mod.run, args.tier, seed)
    except env.HarnessError as e:
        print(f"HARNESS-ERROR {prop}: {e}")
        return 2
    except Exception:
        traceback.print_exc()
        print(f"HARNESS-ERROR {prop}: unexpected exception in harness")
        return 2

    # ---- classify failures
    findings = evidence.load_findings(prop)
    known_hits: dict = {}
    violations = []
    seen = set()
    for f in res.failures:
        key = json.dumps(f, sort_keys=True)
        if key in seen:
            continue
        seen.add(key)
        kf = evidence.match_finding(f, findings)
        if kf is not None:
            known_hits.setdefault(kf["id"], [kf, 0, f])
            known_hits[kf["id"]][1] += 1
        else:
            violations.append(f)

    # ---- G3: confirm each violation by replaying it (twice); a non-reproducing one is a harness error
    confirmed = []
    flaky = []
    if hasattr(mod, "replay"):
        for f in violations[: args.max_report]:
            try:
                r1 = mod.replay(f)
                r2 = mod.replay(f)
            except Exception:
                traceback.print_exc()
                r1 = r2 = None
            if r1 and r2:
                confirmed.append(f)
            else:
                flaky.append(f)
        confirmed.extend(violations[args.max_report :])
    else:
        confirmed = violations

    if os.environ.get("VERIF_DUMP"):
        Path(os.environ["VERIF_DUMP"]).write_text(json.dumps(res.failures, indent=0))
    if confirmed:
        from collections import Counter

        cnt = Counter((f["kind"], str((f.get("case") or {}).get("family", "") if isinstance(f.get("case"), dict) else "")) for f in confirmed)
        print("failure kinds:", dict(cnt))
    for fid, (kf, n, first) in sorted(known_hits.items()):
        print(f"KNOWN-FINDING: property={prop} {fid} {kf.get('what','')} ({n} cases; e.g. {json.dumps(first.get('case'))[:160]})")
    rc = 0
    # old artefacts of this property are removed so a replay path always belongs to this run
    rdir = evidence.OUT / "replays" / prop
    if rdir.exists():
        for p in rdir.glob("violation_*.json"):
            p.unlink()
    for i, f in enumerate(confirmed[: args.max_report]):
        path = evidence.write_replay(prop, i, f)
        print(f"VIOLATION property={prop} replay={path}")
        print("   ", json.dumps(f, sort_keys=True)[:600])
        rc = 1
    if len(confirmed) > args.max_report:
        print(f"... {len(confirmed) - args.max_report} further violations not written")
    if flaky:
        print(f"HARNESS-ERROR {prop}: {len(flaky)} failure(s) did not reproduce on replay, e.g. {json.dumps(flaky[0], sort_keys=True)[:600]}")
        if rc == 0:
            rc = 2

    # vacuity guard: an exploration that visited nothing, or cannot show a sample of what it visited, decides nothing
    if not res.samples or res.n_distinct < 1 or res.transitions < 1:
        print(f"HARNESS-ERROR {prop}: vacuous run (samples={len(res.samples)} states={res.n_distinct} transitions={res.transitions})")
        if rc == 0:
            rc = 2

    wall = time.time() - t0
    extra = {
        "known_finding_cases": {fid: n for fid, (kf, n, _) in known_hits.items()},
        "tier_bounds": getattr(mod, "BOUNDS", {}).get(args.tier, ""),
    }
    evidence.write_evidence(
        prop,
        args.tier,
        seed,
        getattr(mod, "LEVEL", "model_checking"),
        res,
        wall,
        getattr(mod, "RULE", ""),
        getattr(mod, "ASSUMPTIONS", []),
        len(confirmed),
        extra,
    )
    print(
        f"[{prop}] tier={args.tier} evaluations={res.evaluations} states={res.n_distinct} transitions={res.transitions} "
        f"outcomes={res.n_outcomes} exhaustive={res.exhaustive and not res.caps} known={sum(v[1] for v in known_hits.values())} "
        f"violations={len(confirmed)} wall={wall:.1f}s"
    )
    return rc


if __name__ == "__main__":
    sys.exit(main())
